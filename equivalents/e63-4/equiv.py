"""Equivalence check for refactoring 4 (``ceos_alos2.hierarchy.Group``).

Run as

    cd /tmp/wt8/e63 && PYTHONPATH=/tmp/wt8/e63 /venv/bin/python _eq/4/equiv.py

The expected values in ``EXPECTED`` were recorded from the unchanged code
(``--record`` prints a fresh table). The script must pass with and without
``patch.diff`` applied. It can also be collected by pytest (``test_equiv``).
"""

import collections
import copy
import itertools
import pprint
import sys

import fsspec
import numpy as np

from ceos_alos2.array import Array
from ceos_alos2.hierarchy import Group, Variable


def canon(obj):
    """type-preserving, order-preserving text form"""
    if isinstance(obj, Group):
        fields = {"path": obj.path, "url": obj.url, "data": obj.data, "attrs": obj.attrs}
        return f"{type(obj).__name__}({canon(fields)})"
    if isinstance(obj, Variable):
        fields = {"dims": obj.dims, "data": obj.data, "attrs": obj.attrs}
        return f"{type(obj).__name__}({canon(fields)})"
    if isinstance(obj, Array):
        return f"Array({obj.url!r}, {obj.shape!r}, {obj.dtype!r}, {obj.records_per_chunk!r})"
    if isinstance(obj, np.ndarray):
        return f"ndarray<{obj.dtype},{obj.shape}>:{obj.tolist()!r}"
    if isinstance(obj, dict):
        items = ", ".join(f"{canon(k)}: {canon(v)}" for k, v in obj.items())
        return f"{type(obj).__name__}{{{items}}}"
    if isinstance(obj, (list, tuple)):
        items = ", ".join(canon(v) for v in obj)
        return f"{type(obj).__name__}[{items}]"
    return f"{type(obj).__name__}:{obj!r}"


def run(func, *args, **kwargs):
    try:
        result = func(*args, **kwargs)
    except Exception as e:  # noqa: BLE001
        return f"raises {type(e).__name__}: {e}"
    return canon(result)


def make_array(shape=(4, 3), dtype="int16", type_code="IU2", url="file", path="/path/to"):
    byte_ranges = [(x * 10 + 5, (x + 1) * 10) for x in range(shape[0])]
    fs = fsspec.filesystem("memory")
    dirfs = fsspec.filesystem("dir", path=path, fs=fs)
    return Array(
        fs=dirfs,
        url=url,
        byte_ranges=byte_ranges,
        shape=shape,
        dtype=dtype,
        type_code=type_code,
        records_per_chunk=2,
    )



LOG = []


class TracingGroup(Group):
    """records the calls of the (overridable) private hook"""

    def _adjust_item(self, name, value):
        LOG.append(("adjust", type(self).__name__, self.path, name, type(value).__name__))
        return super()._adjust_item(name, value)

    def decouple(self):
        LOG.append(("decouple", self.path))
        return super().decouple()


class CopyLoggingGroup(Group):
    def __copy__(self):
        LOG.append(("copy-group", self.path, self.url))
        new = object.__new__(type(self))
        new.__dict__.update(self.__dict__)
        return new


class Leaf:
    """neither a group nor a variable"""

    def __init__(self, tag):
        self.tag = tag

    def __copy__(self):
        LOG.append(("copy-leaf", self.tag))
        return Leaf(self.tag)

    def __repr__(self):
        return f"Leaf({self.tag!r})"

    def __eq__(self, other):
        LOG.append(("eq-leaf", self.tag))
        return isinstance(other, Leaf) and other.tag == self.tag

    __hash__ = None


class LoggedVariable(Variable):
    """comparison result and identification are taken from the attrs"""

    def __eq__(self, other):
        LOG.append(("eq-var", self.attrs["tag"], getattr(other, "attrs", {}).get("tag")))
        return self.attrs["result"]

    __hash__ = None


class MyVariable(Variable):
    pass


def var(values, dims="x", **attrs):
    return Variable(dims, np.asarray(values), attrs)


def logged(tag, result=True):
    return LoggedVariable("x", np.array([0]), {"tag": tag, "result": result})


def tree():
    return Group(
        path=None,
        url="s3://bucket/scene",
        data={
            "z": var([1, 2], a=1),
            "sub": Group(
                path="ignored",
                url=None,
                data={
                    "inner": Group(
                        path=None,
                        url="other",
                        data={"t": var([1.5]), "leafgroup": Group(None, None, {}, {"deep": True})},
                        attrs={"d": 2},
                    ),
                    "v": var([[1, 2], [3, 4]], dims=["r", "c"]),
                    "empty": Group(path="/x/y", url=None, data={}, attrs={}),
                },
                attrs={"d": 1},
            ),
            "a": Variable(["rows", "cols"], make_array(), {"b": 1}),
            "sub2": Group(path=None, url=None, data={"w": var([3])}, attrs={"s": 2}),
        },
        attrs={"k": (1, 2)},
    )


def walk(group):
    """paths / urls / ids of every group, by plain recursion over .data"""
    yield group.path, group.url, type(group).__name__, type(group.data).__name__, list(group.data)
    for item in group.data.values():
        if isinstance(item, Group):
            yield from walk(item)


def take_log():
    entries = list(LOG)
    LOG.clear()
    return entries


def collect():
    results = {}
    LOG.clear()

    # --- construction: paths, urls, copies
    root = tree()
    results["init/tree"] = canon(root)
    results["init/walk"] = canon(list(walk(root)))

    constructions = {
        "path-none": lambda: Group(None, None, {}, {}),
        "path-given": lambda: Group("a/b", "u", {"g": Group(None, None, {}, {})}, {}),
        "path-trailing-slash": lambda: Group("/a/", "u", {"g": Group(None, None, {}, {})}, {}),
        "path-empty": lambda: Group("", "u", {"g": Group(None, None, {}, {})}, {}),
        "absolute-name": lambda: Group("/a", "u", {"/abs": Group(None, None, {}, {})}, {}),
        "nested-name": lambda: Group("/a", "u", {"b/c": Group(None, None, {}, {})}, {}),
        "empty-name": lambda: Group("/a", "u", {"": Group(None, None, {}, {})}, {}),
        "url-kept": lambda: Group("/", "u", {"g": Group(None, "own", {}, {})}, {}),
        "url-empty-string-kept": lambda: Group("/", "u", {"g": Group(None, "", {}, {})}, {}),
        "url-none-everywhere": lambda: Group("/", None, {"g": Group(None, None, {}, {})}, {}),
        "url-through-levels": lambda: Group(
            "/", "top", {"g": Group(None, None, {"h": Group(None, None, {}, {})}, {})}, {}
        ),
        "url-middle": lambda: Group(
            "/", "top", {"g": Group(None, "mid", {"h": Group(None, None, {}, {})}, {})}, {}
        ),
        "int-name": lambda: Group("/", "u", {1: Group(None, None, {}, {})}, {}),
        "int-name-variable": lambda: Group("/", "u", {1: var([1])}, {}),
        "int-path": lambda: Group(5, "u", {"g": Group(None, None, {}, {})}, {}),
        "int-path-no-groups": lambda: Group(5, "u", {"v": var([1])}, {}),
        "bytes-path": lambda: Group(b"/a", "u", {"g": Group(None, None, {}, {})}, {}),
        "data-none": lambda: Group("/", "u", None, {}),
        "data-list": lambda: Group("/", "u", [("a", var([1]))], {}),
        "data-ordered": lambda: Group(
            "/", "u", collections.OrderedDict([("b", var([1])), ("a", Group(None, None, {}, {}))]), {}
        ),
        "plain-entries": lambda: Group("/", "u", {"n": 1, "s": "text", "l": [1], "none": None}, {}),
        "uncopyable-entry": lambda: Group("/", "u", {"gen": (i for i in [1])}, {}),
        "positional": lambda: Group("/p", "u", {"v": var([1])}, {"a": 1}),
        "missing-argument": lambda: Group("/p", "u", {}),
        "subclass-child": lambda: Group("/", "u", {"g": TracingGroup(None, None, {}, {})}, {}),
    }
    for name, build in constructions.items():
        results[f"init/{name}"] = run(build)
        results[f"init/{name}/walk"] = run(lambda: list(walk(build())))
    take_log()

    # children are copied, the originals stay as they were
    child_var = var([1, 2])
    inner = Group(None, None, {"v": child_var}, {"i": 1})
    child = Group(None, None, {"inner": inner, "v": child_var}, {"c": 1})
    attrs = {"r": 1}
    data = {"child": child, "v": child_var}
    parent = Group("/top", "url", data, attrs)
    results["init/copies"] = canon(
        {
            "data-dict-copied": parent.data is not data,
            "attrs-shared": parent.attrs is attrs,
            "child-copied": parent["child"] is not child,
            "child-attrs-shared": parent["child"].attrs is child.attrs,
            "child-data-new": parent["child"].data is not child.data,
            "inner-copied": parent["child"]["inner"] is not child["inner"],
            "variable-copied": parent["v"] is not child_var,
            "variable-data-shared": parent["v"].data is child_var.data,
            "inner-variable-data-shared": parent["child"]["inner"]["v"].data is child_var.data,
            "original-child": [child.path, child.url, child["inner"].path, child["inner"].url],
            "original-inner": [inner.path, inner.url],
            "new-child": [parent["child"].path, parent["child"].url],
            "new-inner": [parent["child"]["inner"].path, parent["child"]["inner"].url],
        }
    )

    # --- order of the copies and of the hook calls
    def build_logged():
        return TracingGroup(
            "/r",
            "u",
            {
                "l1": Leaf("l1"),
                "g1": CopyLoggingGroup(
                    None,
                    None,
                    {"l2": Leaf("l2"), "g2": TracingGroup(None, None, {"l3": Leaf("l3")}, {})},
                    {},
                ),
                "l4": Leaf("l4"),
                "g3": Group(None, "own", {"l5": Leaf("l5")}, {}),
            },
            {},
        )

    take_log()
    logged_tree = build_logged()
    results["hooks/init-log"] = canon(take_log())
    results["hooks/init-walk"] = canon(list(walk(logged_tree)))
    logged_tree["new"] = CopyLoggingGroup("/elsewhere", None, {"l6": Leaf("l6")}, {})
    logged_tree["leaf"] = Leaf("l7")
    results["hooks/setitem-log"] = canon(take_log())
    results["hooks/setitem-walk"] = canon(list(walk(logged_tree)))
    results["hooks/subtree"] = canon(list(logged_tree.subtree))
    results["hooks/subtree-log"] = canon(take_log())
    results["hooks/decouple"] = canon(logged_tree.decouple())
    results["hooks/decouple-log"] = canon(take_log())

    # --- __setitem__ / mapping interface
    root = tree()
    root["added"] = Group("/somewhere/else", None, {"g": Group(None, None, {}, {})}, {"n": 1})
    root["var"] = var([9])
    root["sub"]["deeper"] = Group(None, None, {"x": Group(None, "u2", {}, {})}, {})
    root["z"] = Group(None, None, {}, {"replaced": True})
    results["setitem/walk"] = canon(list(walk(root)))
    results["setitem/tree"] = canon(root)
    results["setitem/plain"] = run(lambda: root.__setitem__("plain", 5) or root["plain"])
    results["setitem/unhashable"] = run(lambda: root.__setitem__([1], var([1])))
    results["setitem/int-name-group"] = run(lambda: root.__setitem__(1, Group(None, None, {}, {})))

    root = tree()
    results["mapping/len"] = canon([len(root), len(root["sub"]), len(Group(None, None, {}, {}))])
    iterator = iter(root)
    results["mapping/iter-type"] = canon(type(iterator).__name__)
    results["mapping/iter"] = canon(list(iterator))
    results["mapping/keys"] = canon([type(root.keys()).__name__, list(root.keys())])
    results["mapping/items"] = canon([name for name, _ in root.items()])
    results["mapping/contains"] = canon(["z" in root, "nope" in root, "inner" in root])
    results["mapping/get"] = canon([root.get("nope"), root.get("nope", 3), type(root.get("sub")).__name__])
    results["mapping/getitem-missing"] = run(lambda: root["nope"])
    results["mapping/getitem-unhashable"] = run(lambda: root[[1]])
    results["mapping/identity"] = canon(root["sub"] is root.data["sub"])
    results["mapping/hash"] = run(hash, root)
    results["mapping/repr"] = canon(repr(Group("/p", "u", {"g": Group(None, None, {}, {"a": 1})}, {})))

    # --- name
    for path in ["/", "a", "/a", "/a/b", "a/b", "a/b/", "", "//", "/a//b", "a/", " / ", "a\\b/c"]:
        group = Group(path, "u", {}, {})
        results[f"name/{path!r}"] = run(lambda: group.name)
    for path in [None, 5, b"/a/b", b"ab", ("a", "/"), ["/", "a"], np.str_("/a/b")]:
        group = Group("/", "u", {}, {})
        group.path = path
        results[f"name/assigned-{path!r}"] = run(lambda: group.name)
    results["name/tree"] = canon([(path, group.name) for path, group in tree().subtree])
    results["name/children"] = canon(
        {key: item.name for key, item in tree()["sub"].groups.items()}
    )
    results["name/type"] = canon(type(Group("/a/b", "u", {}, {}).name).__name__)

    # --- groups / variables
    mixed = Group(
        "/m",
        "u",
        {
            "v1": var([1]),
            "g1": Group(None, None, {}, {}),
            "leaf": Leaf("x"),
            "n": 1,
            "v2": MyVariable("x", np.array([2]), {}),
            "g2": TracingGroup(None, None, {}, {}),
            "none": None,
            "v0": var([0]),
        },
        {},
    )
    take_log()
    for name, group in {"tree": tree(), "sub": tree()["sub"], "mixed": mixed, "empty": Group(None, None, {}, {})}.items():
        for prop in ["groups", "variables"]:
            value = getattr(group, prop)
            results[f"{prop}/{name}"] = canon(value)
            results[f"{prop}/{name}/facts"] = canon(
                {
                    "type": type(value).__name__,
                    "names": list(value),
                    "same-objects": all(value[key] is group.data[key] for key in value),
                    "fresh": getattr(group, prop) is not value,
                    "not-data": value is not group.data,
                }
            )
    ordered = Group("/o", "u", {}, {})
    ordered.data = collections.OrderedDict([("b", var([1])), ("g", Group("/o/g", "u", {}, {})), ("a", var([2]))])
    results["groups/ordered-data"] = canon([type(ordered.groups).__name__, list(ordered.groups)])
    results["variables/ordered-data"] = canon([type(ordered.variables).__name__, list(ordered.variables)])
    broken = Group("/o", "u", {}, {})
    broken.data = [1, 2]
    results["groups/list-data"] = run(lambda: broken.groups)
    results["variables/list-data"] = run(lambda: broken.variables)
    broken.data = None
    results["groups/none-data"] = run(lambda: broken.groups)
    results["variables/none-data"] = run(lambda: broken.variables)
    # modifying the result does not change the group
    value = mixed.variables
    value["extra"] = var([5])
    del value["v1"]
    results["variables/independent"] = canon([list(mixed.variables), list(mixed.data)])

    # --- decouple
    for name, group in {"tree": tree(), "sub": tree()["sub"], "mixed": mixed}.items():
        decoupled = group.decouple()
        results[f"decouple/{name}"] = canon(decoupled)
        results[f"decouple/{name}/facts"] = canon(
            {
                "type": type(decoupled).__name__,
                "attrs-shared": decoupled.attrs is group.attrs,
                "variables-copied": all(
                    decoupled[key] is not group[key] and decoupled[key].data is group[key].data
                    for key in decoupled
                ),
            }
        )
    results["decouple/subclass-type"] = canon(type(TracingGroup("/", "u", {}, {}).decouple()).__name__)
    take_log()

    # --- subtree
    root = tree()
    gen = root.subtree
    results["subtree/type"] = canon(type(gen).__name__)
    results["subtree/tree"] = canon(list(gen))
    results["subtree/exhausted"] = canon(list(gen))
    results["subtree/paths"] = canon([path for path, _ in root.subtree])
    results["subtree/sub"] = canon(list(root["sub"].subtree))
    results["subtree/leaf"] = canon(list(root["sub"]["inner"]["leafgroup"].subtree))
    results["subtree/empty"] = canon(list(Group(None, None, {}, {}).subtree))
    results["subtree/only-variables"] = canon(list(Group("/v", "u", {"a": var([1])}, {}).subtree))
    results["subtree/mixed"] = canon(list(mixed.subtree))
    take_log()
    results["subtree/dict"] = canon(dict(root.subtree))
    results["subtree/decoupled-are-new"] = canon(
        [group is not root and not group.groups for _, group in root.subtree]
    )

    wide = Group(
        "/w",
        "u",
        {f"g{i}": Group(None, None, {f"h{j}": Group(None, None, {}, {}) for j in range(i)}, {}) for i in range(4)},
        {},
    )
    results["subtree/wide"] = canon([path for path, _ in wide.subtree])

    chain = Group(None, None, {"v": var([0])}, {"level": 0})
    for level in range(1, 40):
        chain = Group(None, None, {"before": var([level]), "c": chain, "after": Group(None, None, {}, {})}, {"level": level})
    results["subtree/deep-chain"] = canon([(path, group.attrs, list(group)) for path, group in chain.subtree])

    # paths are whatever the groups say, even if inconsistent
    odd = tree()
    odd["sub"].path = "/renamed"
    odd["sub"]["inner"].path = "/"
    results["subtree/odd-paths"] = canon([path for path, _ in odd.subtree])
    results["subtree/duplicate-paths-dict"] = canon(list(dict(odd.subtree)))

    # laziness: what happens when the tree changes while it is walked
    def mutate_before_start():
        root = tree()
        gen = root.subtree
        root.data["late"] = Group("/late", "u", {}, {})
        return [path for path, _ in gen]

    def mutate_after_first():
        root = tree()
        gen = root.subtree
        first = next(gen)
        root.data["late"] = Group("/late", "u", {}, {})
        return [first[0]] + [path for path, _ in gen]

    def mutate_after_second():
        root = tree()
        gen = root.subtree
        seen = [next(gen)[0], next(gen)[0]]
        root.data["late"] = Group("/late", "u", {}, {})
        try:
            seen.extend(path for path, _ in gen)
        except RuntimeError as e:
            seen.append(f"RuntimeError: {e}")
        seen.extend(path for path, _ in gen)
        return seen

    def mutate_child_after_its_yield():
        root = tree()
        gen = root.subtree
        seen = [next(gen)[0], next(gen)[0]]  # "/", "/sub"
        root["sub"].data["late"] = Group("/sub/late", "u", {}, {})
        del root["sub"].data["inner"]
        seen.extend(path for path, _ in gen)
        return seen

    def mutate_grandchild_during_walk():
        root = tree()
        gen = root.subtree
        seen = [next(gen)[0] for _ in range(3)]  # "/", "/sub", "/sub/inner"
        root["sub"]["inner"].data.clear()
        root["sub"].data["empty"] = Group("/swapped", "u", {"g": Group(None, None, {}, {})}, {})
        seen.extend(path for path, _ in gen)
        return seen

    def replace_later_sibling():
        root = tree()
        gen = root.subtree
        seen = [next(gen)[0] for _ in range(2)]
        root.data["sub2"] = var([1])
        root.data["a"] = Group("/a-now-group", "u", {}, {})
        seen.extend(path for path, _ in gen)
        return seen

    def shrink_parent_during_child():
        root = tree()
        gen = root.subtree
        seen = [next(gen)[0] for _ in range(3)]
        del root.data["sub2"]
        try:
            seen.extend(path for path, _ in gen)
        except RuntimeError as e:
            seen.append(f"RuntimeError: {e}")
        return seen

    def data_swapped_before_resume():
        root = tree()
        gen = root.subtree
        seen = [next(gen)[0]]
        root.data = {"only": Group("/only", "u", {}, {})}
        seen.extend(path for path, _ in gen)
        return seen

    def closed_early():
        root = tree()
        gen = root.subtree
        seen = [next(gen)[0], next(gen)[0]]
        gen.close()
        seen.extend(path for path, _ in gen)
        return seen

    def failing_decouple():
        root = tree()
        root["sub"]["inner"].data["bad"] = var([1])
        root["sub"]["inner"].path = 5  # Group(path=5, ...) without sub groups is fine
        root["sub"]["inner"].data["leafgroup"].path = None
        gen = root.subtree
        seen = []
        try:
            for path, group in gen:
                seen.append((path, group.path))
        except Exception as e:  # noqa: BLE001
            seen.append(f"{type(e).__name__}: {e}")
        seen.extend(path for path, _ in gen)
        return seen

    for scenario in [
        mutate_before_start,
        mutate_after_first,
        mutate_after_second,
        mutate_child_after_its_yield,
        mutate_grandchild_during_walk,
        replace_later_sibling,
        shrink_parent_during_child,
        data_swapped_before_resume,
        closed_early,
        failing_decouple,
    ]:
        results[f"subtree/{scenario.__name__}"] = run(scenario)

    broken = Group("/b", "u", {"g": Group(None, None, {}, {})}, {})
    broken["g"].data = None
    results["subtree/none-data-child"] = run(lambda: [path for path, _ in broken.subtree])
    broken.data = None
    results["subtree/none-data"] = run(lambda: [path for path, _ in broken.subtree])

    # --- equality
    def eq(a, b):
        result = a == b
        return [type(result).__name__, result]

    def ne(a, b):
        result = a != b
        return [type(result).__name__, result]

    def variant(**changes):
        root = tree()
        for key, value in changes.items():
            target = root
            *parents, attr = key.split("__")
            for parent in parents:
                target = target[parent]
            setattr(target, attr, value)
        return root

    def with_entry(path, name, value, delete=False):
        root = tree()
        target = root
        for part in path:
            target = target[part]
        if delete:
            del target.data[name]
        else:
            target.data[name] = value
        return root

    def reordered(path):
        root = tree()
        target = root
        for part in path:
            target = target[part]
        target.data = dict(reversed(list(target.data.items())))
        return root

    variants = {
        "same": tree(),
        "path": variant(path="/other"),
        "url": variant(url="other"),
        "attrs": variant(attrs={"k": (1, 3)}),
        "attrs-list-vs-tuple": variant(attrs={"k": [1, 2]}),
        "sub-path": variant(sub__path="/other"),
        "sub-url": variant(sub__url="x"),
        "sub-attrs": variant(sub__attrs={}),
        "inner-attrs": variant(sub__inner__attrs={"d": 3}),
        "deep-attrs": variant(sub__inner__leafgroup__attrs={"deep": False}),
        "variable-values": with_entry([], "z", var([1, 3], a=1)),
        "variable-attrs": with_entry([], "z", var([1, 2], a=2)),
        "variable-dims": with_entry([], "z", var([1, 2], dims="y", a=1)),
        "variable-dtype": with_entry([], "z", var(np.array([1, 2], dtype="int8"), a=1)),
        "variable-list-data": with_entry([], "z", Variable("x", [1, 2], {"a": 1})),
        "variable-shape": with_entry([], "z", var([1, 2, 3], a=1)),
        "variable-subclass": with_entry([], "z", MyVariable("x", np.array([1, 2]), {"a": 1})),
        "backend-rpc": with_entry([], "a", Variable(["rows", "cols"], make_array(dtype="int8"), {"b": 1})),
        "backend-vs-numpy": with_entry([], "a", Variable(["rows", "cols"], np.zeros((4, 3)), {"b": 1})),
        "deep-variable": with_entry(["sub", "inner"], "t", var([2.5])),
        "extra-variable": with_entry([], "extra", var([1])),
        "extra-group": with_entry([], "extra", Group("/extra", "s3://bucket/scene", {}, {})),
        "extra-deep-group": with_entry(["sub", "inner"], "extra", Group("/x", "u", {}, {})),
        "extra-plain-entry": with_entry([], "plain", 5),
        "extra-leaf-entry": with_entry(["sub"], "leaf", Leaf("q")),
        "missing-variable": with_entry([], "z", None, delete=True),
        "missing-group": with_entry([], "sub2", None, delete=True),
        "missing-deep-group": with_entry(["sub"], "empty", None, delete=True),
        "variable-becomes-group": with_entry([], "z", Group("/z", "s3://bucket/scene", {}, {})),
        "group-becomes-variable": with_entry([], "sub2", var([1])),
        "variable-becomes-plain": with_entry([], "z", "text"),
        "reordered-root": reordered([]),
        "reordered-sub": reordered(["sub"]),
        "subclass": TracingGroup(None, "s3://bucket/scene", dict(tree().data), {"k": (1, 2)}),
    }
    take_log()
    base = tree()
    for name, other in variants.items():
        results[f"eq/base-vs-{name}"] = run(eq, base, other)
        results[f"eq/{name}-vs-base"] = run(eq, other, base)
        results[f"ne/base-vs-{name}"] = run(ne, base, other)
    results["eq/self"] = run(eq, base, base)
    results["eq/sub-vs-sub"] = run(eq, base["sub"], tree()["sub"])
    results["eq/sub-vs-sub2"] = run(eq, base["sub"], base["sub2"])
    results["eq/empty-groups"] = run(eq, Group(None, None, {}, {}), Group("/", None, {}, {}))
    for name, other in {
        "none": None,
        "int": 1,
        "dict": dict(base.data),
        "variable": var([1]),
        "str": "/",
        "list": list(base),
    }.items():
        results[f"eq/non-group-{name}"] = run(eq, base, other)
        results[f"eq/non-group-{name}/reflected"] = run(eq, other, base)
        results[f"ne/non-group-{name}"] = run(ne, base, other)
    take_log()

    # two plain (ignored) entries with the same name but different values
    results["eq/plain-entries-ignored"] = run(
        eq, with_entry([], "plain", 5), with_entry([], "plain", 6)
    )
    results["eq/plain-entries-ignored/log"] = canon(take_log())
    results["eq/leaf-entries-ignored"] = run(
        eq, with_entry([], "leaf", Leaf("a")), with_entry([], "leaf", Leaf("b"))
    )
    results["eq/leaf-entries-ignored/log"] = canon(take_log())

    # comparisons that cannot be reduced to a truth value
    array_attrs = {"arr": np.array([1, 2])}
    results["eq/array-attrs"] = run(eq, variant(attrs=dict(array_attrs)), variant(attrs=dict(array_attrs)))
    results["eq/array-attrs-same-object"] = run(
        eq, variant(attrs=array_attrs), variant(attrs=array_attrs)
    )
    results["eq/array-attrs-but-other-path"] = run(
        eq, variant(attrs=dict(array_attrs), path="/p"), variant(attrs=dict(array_attrs))
    )
    results["eq/array-attrs-but-other-groups"] = run(
        eq,
        with_entry([], "sub2", None, delete=True),
        variant(attrs=dict(array_attrs)),
    )
    results["eq/array-path"] = run(eq, variant(path=np.array(["/", "/"])), tree())
    results["eq/array-url"] = run(eq, variant(url=np.array(["/", "/"])), tree())
    results["eq/array-url-but-other-path"] = run(
        eq, variant(url=np.array(["/", "/"]), path="/p"), tree()
    )
    results["eq/deep-array-attrs"] = run(
        eq, variant(sub__inner__attrs=dict(array_attrs)), variant(sub__inner__attrs=dict(array_attrs))
    )
    results["eq/variable-shape-mismatch"] = run(
        eq, with_entry([], "z", var([1, 2, 3], a=1)), with_entry([], "z", var([1, 2], a=1))
    )
    results["eq/broken-other-data"] = run(eq, tree(), variant(data=None))
    results["eq/broken-own-data"] = run(eq, variant(data=None), tree())
    results["eq/broken-own-data-other-path"] = run(eq, variant(data=None, path="/p"), tree())
    results["eq/broken-sub-data"] = run(eq, tree(), variant(sub__data=None))

    # order and short-circuiting of the element comparisons
    def logged_group(results_by_tag, path="/l", url="u", attrs=None, sub_results=None):
        data = {}
        for tag, result in results_by_tag.items():
            data[tag] = logged(tag, result)
            if tag == "v2":
                data["g1"] = Group(
                    None, None, {t: logged(t, r) for t, r in (sub_results or {"w1": True}).items()}, {}
                )
                data["leaf"] = Leaf("leaf")
        data["g2"] = Group(None, None, {"x1": logged("x1", True)}, {})
        return Group(path, url, data, attrs or {})

    scenarios = {
        "all-equal": ({"v1": True, "v2": True, "v3": True}, {}),
        "first-differs": ({"v1": False, "v2": True, "v3": True}, {}),
        "second-differs": ({"v1": True, "v2": False, "v3": True}, {}),
        "last-differs": ({"v1": True, "v2": True, "v3": False}, {}),
        "truthy-values": ({"v1": 1, "v2": "yes", "v3": np.bool_(True)}, {}),
        "falsy-int": ({"v1": 1, "v2": 0, "v3": True}, {}),
        "falsy-str": ({"v1": "", "v2": True, "v3": True}, {}),
        "falsy-none": ({"v1": True, "v2": True, "v3": None}, {}),
        "falsy-np": ({"v1": np.bool_(False), "v2": True, "v3": True}, {}),
        "ambiguous": ({"v1": True, "v2": np.array([True, False]), "v3": True}, {}),
        "not-implemented": ({"v1": NotImplemented, "v2": True, "v3": True}, {}),
        "sub-differs": ({"v1": True, "v2": True, "v3": True}, {"sub_results": {"w1": True, "w2": False, "w3": True}}),
        "var-and-sub-differ": ({"v1": True, "v2": True, "v3": False}, {"sub_results": {"w1": False}}),
        "other-path": ({"v1": False, "v2": True, "v3": True}, {"path": "/different"}),
        "other-url": ({"v1": False, "v2": True, "v3": True}, {"url": "different"}),
        "other-attrs": ({"v1": False, "v2": True, "v3": True}, {"attrs": {"x": 1}}),
    }
    reference = logged_group({"v1": True, "v2": True, "v3": True}, sub_results={"w1": True, "w2": True, "w3": True})
    short_reference = logged_group({"v1": True, "v2": True, "v3": True})
    for name, (flags, kwargs) in scenarios.items():
        left = logged_group(flags, **kwargs)
        other = reference if "sub_results" in kwargs and len(kwargs["sub_results"]) == 3 else short_reference
        take_log()
        results[f"eq-order/{name}"] = run(eq, left, other)
        results[f"eq-order/{name}/log"] = canon(take_log())
        results[f"eq-order/{name}/reflected"] = run(eq, other, left)
        results[f"eq-order/{name}/reflected-log"] = canon(take_log())

    # properties are evaluated on the current contents
    class CountingDict(dict):
        def items(self):
            LOG.append("items")
            return super().items()

        def values(self):
            LOG.append("values")
            return super().values()

        def keys(self):
            LOG.append("keys")
            return super().keys()

    counting = Group("/c", "u", {"v": var([1]), "g": Group(None, None, {}, {})}, {})
    counting.data = CountingDict(counting.data)
    take_log()
    results["views/groups"] = canon([list(counting.groups), take_log()])
    results["views/variables"] = canon([list(counting.variables), take_log()])
    results["views/len"] = canon([len(counting), take_log()])
    results["views/iter"] = canon([list(counting), take_log()])
    results["views/decouple"] = canon([list(counting.decouple()), take_log()])
    results["views/subtree"] = canon([[path for path, _ in counting.subtree], take_log()])
    results["views/setitem"] = canon([counting.__setitem__("n", var([2])), take_log()])

    # copies made with the copy module behave like the originals
    clone = copy.copy(tree())
    results["copy/shallow"] = canon([clone == tree(), clone.data is not tree().data, list(walk(clone))])
    clone = copy.deepcopy(tree())
    results["copy/deep"] = canon([clone == tree(), list(walk(clone))])

    return results


EXPECTED = None  # replaced below


def check():
    actual = collect()
    assert list(actual) == list(EXPECTED), "different set of cases"
    failures = [name for name in EXPECTED if actual[name] != EXPECTED[name]]
    for name in failures:
        print(f"MISMATCH {name}:\n  expected {EXPECTED[name]}\n  actual   {actual[name]}")
    assert not failures, failures
    return len(actual)


def test_equiv():
    check()


# EXPECTED-BEGIN
EXPECTED = {'init/tree': "Group(dict{str:'path': str:'/', str:'url': str:'s3://bucket/scene', str:'data': "
              "dict{str:'z': Variable(dict{str:'dims': list[str:'x'], str:'data': "
              "ndarray<int64,(2,)>:[1, 2], str:'attrs': dict{str:'a': int:1}}), str:'sub': "
              "Group(dict{str:'path': str:'/sub', str:'url': str:'s3://bucket/scene', str:'data': "
              "dict{str:'inner': Group(dict{str:'path': str:'/sub/inner', str:'url': str:'other', "
              "str:'data': dict{str:'t': Variable(dict{str:'dims': list[str:'x'], str:'data': "
              "ndarray<float64,(1,)>:[1.5], str:'attrs': dict{}}), str:'leafgroup': "
              "Group(dict{str:'path': str:'/sub/inner/leafgroup', str:'url': str:'other', "
              "str:'data': dict{}, str:'attrs': dict{str:'deep': bool:True}})}, str:'attrs': "
              "dict{str:'d': int:2}}), str:'v': Variable(dict{str:'dims': list[str:'r', str:'c'], "
              "str:'data': ndarray<int64,(2, 2)>:[[1, 2], [3, 4]], str:'attrs': dict{}}), "
              "str:'empty': Group(dict{str:'path': str:'/sub/empty', str:'url': "
              "str:'s3://bucket/scene', str:'data': dict{}, str:'attrs': dict{}})}, str:'attrs': "
              "dict{str:'d': int:1}}), str:'a': Variable(dict{str:'dims': list[str:'rows', "
              "str:'cols'], str:'data': Array('file', (4, 3), 'int16', 2), str:'attrs': "
              "dict{str:'b': int:1}}), str:'sub2': Group(dict{str:'path': str:'/sub2', str:'url': "
              "str:'s3://bucket/scene', str:'data': dict{str:'w': Variable(dict{str:'dims': "
              "list[str:'x'], str:'data': ndarray<int64,(1,)>:[3], str:'attrs': dict{}})}, "
              "str:'attrs': dict{str:'s': int:2}})}, str:'attrs': dict{str:'k': tuple[int:1, "
              'int:2]}})',
 'init/walk': "list[tuple[str:'/', str:'s3://bucket/scene', str:'Group', str:'dict', list[str:'z', "
              "str:'sub', str:'a', str:'sub2']], tuple[str:'/sub', str:'s3://bucket/scene', "
              "str:'Group', str:'dict', list[str:'inner', str:'v', str:'empty']], "
              "tuple[str:'/sub/inner', str:'other', str:'Group', str:'dict', list[str:'t', "
              "str:'leafgroup']], tuple[str:'/sub/inner/leafgroup', str:'other', str:'Group', "
              "str:'dict', list[]], tuple[str:'/sub/empty', str:'s3://bucket/scene', str:'Group', "
              "str:'dict', list[]], tuple[str:'/sub2', str:'s3://bucket/scene', str:'Group', "
              "str:'dict', list[str:'w']]]",
 'init/path-none': "Group(dict{str:'path': str:'/', str:'url': NoneType:None, str:'data': dict{}, "
                   "str:'attrs': dict{}})",
 'init/path-none/walk': "list[tuple[str:'/', NoneType:None, str:'Group', str:'dict', list[]]]",
 'init/path-given': "Group(dict{str:'path': str:'a/b', str:'url': str:'u', str:'data': "
                    "dict{str:'g': Group(dict{str:'path': str:'a/b/g', str:'url': str:'u', "
                    "str:'data': dict{}, str:'attrs': dict{}})}, str:'attrs': dict{}})",
 'init/path-given/walk': "list[tuple[str:'a/b', str:'u', str:'Group', str:'dict', list[str:'g']], "
                         "tuple[str:'a/b/g', str:'u', str:'Group', str:'dict', list[]]]",
 'init/path-trailing-slash': "Group(dict{str:'path': str:'/a/', str:'url': str:'u', str:'data': "
                             "dict{str:'g': Group(dict{str:'path': str:'/a/g', str:'url': str:'u', "
                             "str:'data': dict{}, str:'attrs': dict{}})}, str:'attrs': dict{}})",
 'init/path-trailing-slash/walk': "list[tuple[str:'/a/', str:'u', str:'Group', str:'dict', "
                                  "list[str:'g']], tuple[str:'/a/g', str:'u', str:'Group', "
                                  "str:'dict', list[]]]",
 'init/path-empty': "Group(dict{str:'path': str:'', str:'url': str:'u', str:'data': dict{str:'g': "
                    "Group(dict{str:'path': str:'g', str:'url': str:'u', str:'data': dict{}, "
                    "str:'attrs': dict{}})}, str:'attrs': dict{}})",
 'init/path-empty/walk': "list[tuple[str:'', str:'u', str:'Group', str:'dict', list[str:'g']], "
                         "tuple[str:'g', str:'u', str:'Group', str:'dict', list[]]]",
 'init/absolute-name': "Group(dict{str:'path': str:'/a', str:'url': str:'u', str:'data': "
                       "dict{str:'/abs': Group(dict{str:'path': str:'/abs', str:'url': str:'u', "
                       "str:'data': dict{}, str:'attrs': dict{}})}, str:'attrs': dict{}})",
 'init/absolute-name/walk': "list[tuple[str:'/a', str:'u', str:'Group', str:'dict', "
                            "list[str:'/abs']], tuple[str:'/abs', str:'u', str:'Group', "
                            "str:'dict', list[]]]",
 'init/nested-name': "Group(dict{str:'path': str:'/a', str:'url': str:'u', str:'data': "
                     "dict{str:'b/c': Group(dict{str:'path': str:'/a/b/c', str:'url': str:'u', "
                     "str:'data': dict{}, str:'attrs': dict{}})}, str:'attrs': dict{}})",
 'init/nested-name/walk': "list[tuple[str:'/a', str:'u', str:'Group', str:'dict', "
                          "list[str:'b/c']], tuple[str:'/a/b/c', str:'u', str:'Group', str:'dict', "
                          'list[]]]',
 'init/empty-name': "Group(dict{str:'path': str:'/a', str:'url': str:'u', str:'data': dict{str:'': "
                    "Group(dict{str:'path': str:'/a/', str:'url': str:'u', str:'data': dict{}, "
                    "str:'attrs': dict{}})}, str:'attrs': dict{}})",
 'init/empty-name/walk': "list[tuple[str:'/a', str:'u', str:'Group', str:'dict', list[str:'']], "
                         "tuple[str:'/a/', str:'u', str:'Group', str:'dict', list[]]]",
 'init/url-kept': "Group(dict{str:'path': str:'/', str:'url': str:'u', str:'data': dict{str:'g': "
                  "Group(dict{str:'path': str:'/g', str:'url': str:'own', str:'data': dict{}, "
                  "str:'attrs': dict{}})}, str:'attrs': dict{}})",
 'init/url-kept/walk': "list[tuple[str:'/', str:'u', str:'Group', str:'dict', list[str:'g']], "
                       "tuple[str:'/g', str:'own', str:'Group', str:'dict', list[]]]",
 'init/url-empty-string-kept': "Group(dict{str:'path': str:'/', str:'url': str:'u', str:'data': "
                               "dict{str:'g': Group(dict{str:'path': str:'/g', str:'url': str:'', "
                               "str:'data': dict{}, str:'attrs': dict{}})}, str:'attrs': dict{}})",
 'init/url-empty-string-kept/walk': "list[tuple[str:'/', str:'u', str:'Group', str:'dict', "
                                    "list[str:'g']], tuple[str:'/g', str:'', str:'Group', "
                                    "str:'dict', list[]]]",
 'init/url-none-everywhere': "Group(dict{str:'path': str:'/', str:'url': NoneType:None, "
                             "str:'data': dict{str:'g': Group(dict{str:'path': str:'/g', "
                             "str:'url': NoneType:None, str:'data': dict{}, str:'attrs': "
                             "dict{}})}, str:'attrs': dict{}})",
 'init/url-none-everywhere/walk': "list[tuple[str:'/', NoneType:None, str:'Group', str:'dict', "
                                  "list[str:'g']], tuple[str:'/g', NoneType:None, str:'Group', "
                                  "str:'dict', list[]]]",
 'init/url-through-levels': "Group(dict{str:'path': str:'/', str:'url': str:'top', str:'data': "
                            "dict{str:'g': Group(dict{str:'path': str:'/g', str:'url': str:'top', "
                            "str:'data': dict{str:'h': Group(dict{str:'path': str:'/g/h', "
                            "str:'url': str:'top', str:'data': dict{}, str:'attrs': dict{}})}, "
                            "str:'attrs': dict{}})}, str:'attrs': dict{}})",
 'init/url-through-levels/walk': "list[tuple[str:'/', str:'top', str:'Group', str:'dict', "
                                 "list[str:'g']], tuple[str:'/g', str:'top', str:'Group', "
                                 "str:'dict', list[str:'h']], tuple[str:'/g/h', str:'top', "
                                 "str:'Group', str:'dict', list[]]]",
 'init/url-middle': "Group(dict{str:'path': str:'/', str:'url': str:'top', str:'data': "
                    "dict{str:'g': Group(dict{str:'path': str:'/g', str:'url': str:'mid', "
                    "str:'data': dict{str:'h': Group(dict{str:'path': str:'/g/h', str:'url': "
                    "str:'mid', str:'data': dict{}, str:'attrs': dict{}})}, str:'attrs': "
                    "dict{}})}, str:'attrs': dict{}})",
 'init/url-middle/walk': "list[tuple[str:'/', str:'top', str:'Group', str:'dict', list[str:'g']], "
                         "tuple[str:'/g', str:'mid', str:'Group', str:'dict', list[str:'h']], "
                         "tuple[str:'/g/h', str:'mid', str:'Group', str:'dict', list[]]]",
 'init/int-name': 'raises TypeError: join() argument must be str, bytes, or os.PathLike object, '
                  "not 'int'",
 'init/int-name/walk': 'raises TypeError: join() argument must be str, bytes, or os.PathLike '
                       "object, not 'int'",
 'init/int-name-variable': "Group(dict{str:'path': str:'/', str:'url': str:'u', str:'data': "
                           "dict{int:1: Variable(dict{str:'dims': list[str:'x'], str:'data': "
                           "ndarray<int64,(1,)>:[1], str:'attrs': dict{}})}, str:'attrs': dict{}})",
 'init/int-name-variable/walk': "list[tuple[str:'/', str:'u', str:'Group', str:'dict', "
                                'list[int:1]]]',
 'init/int-path': 'raises TypeError: expected str, bytes or os.PathLike object, not int',
 'init/int-path/walk': 'raises TypeError: expected str, bytes or os.PathLike object, not int',
 'init/int-path-no-groups': "Group(dict{str:'path': int:5, str:'url': str:'u', str:'data': "
                            "dict{str:'v': Variable(dict{str:'dims': list[str:'x'], str:'data': "
                            "ndarray<int64,(1,)>:[1], str:'attrs': dict{}})}, str:'attrs': "
                            'dict{}})',
 'init/int-path-no-groups/walk': "list[tuple[int:5, str:'u', str:'Group', str:'dict', "
                                 "list[str:'v']]]",
 'init/bytes-path': "raises TypeError: Can't mix strings and bytes in path components",
 'init/bytes-path/walk': "raises TypeError: Can't mix strings and bytes in path components",
 'init/data-none': "raises AttributeError: 'NoneType' object has no attribute 'items'",
 'init/data-none/walk': "raises AttributeError: 'NoneType' object has no attribute 'items'",
 'init/data-list': "raises AttributeError: 'list' object has no attribute 'items'",
 'init/data-list/walk': "raises AttributeError: 'list' object has no attribute 'items'",
 'init/data-ordered': "Group(dict{str:'path': str:'/', str:'url': str:'u', str:'data': "
                      "dict{str:'b': Variable(dict{str:'dims': list[str:'x'], str:'data': "
                      "ndarray<int64,(1,)>:[1], str:'attrs': dict{}}), str:'a': "
                      "Group(dict{str:'path': str:'/a', str:'url': str:'u', str:'data': dict{}, "
                      "str:'attrs': dict{}})}, str:'attrs': dict{}})",
 'init/data-ordered/walk': "list[tuple[str:'/', str:'u', str:'Group', str:'dict', list[str:'b', "
                           "str:'a']], tuple[str:'/a', str:'u', str:'Group', str:'dict', list[]]]",
 'init/plain-entries': "Group(dict{str:'path': str:'/', str:'url': str:'u', str:'data': "
                       "dict{str:'n': int:1, str:'s': str:'text', str:'l': list[int:1], "
                       "str:'none': NoneType:None}, str:'attrs': dict{}})",
 'init/plain-entries/walk': "list[tuple[str:'/', str:'u', str:'Group', str:'dict', list[str:'n', "
                            "str:'s', str:'l', str:'none']]]",
 'init/uncopyable-entry': "raises TypeError: cannot pickle 'generator' object",
 'init/uncopyable-entry/walk': "raises TypeError: cannot pickle 'generator' object",
 'init/positional': "Group(dict{str:'path': str:'/p', str:'url': str:'u', str:'data': "
                    "dict{str:'v': Variable(dict{str:'dims': list[str:'x'], str:'data': "
                    "ndarray<int64,(1,)>:[1], str:'attrs': dict{}})}, str:'attrs': dict{str:'a': "
                    'int:1}})',
 'init/positional/walk': "list[tuple[str:'/p', str:'u', str:'Group', str:'dict', list[str:'v']]]",
 'init/missing-argument': 'raises TypeError: Group.__init__() missing 1 required positional '
                          "argument: 'attrs'",
 'init/missing-argument/walk': 'raises TypeError: Group.__init__() missing 1 required positional '
                               "argument: 'attrs'",
 'init/subclass-child': "Group(dict{str:'path': str:'/', str:'url': str:'u', str:'data': "
                        "dict{str:'g': TracingGroup(dict{str:'path': str:'/g', str:'url': str:'u', "
                        "str:'data': dict{}, str:'attrs': dict{}})}, str:'attrs': dict{}})",
 'init/subclass-child/walk': "list[tuple[str:'/', str:'u', str:'Group', str:'dict', "
                             "list[str:'g']], tuple[str:'/g', str:'u', str:'TracingGroup', "
                             "str:'dict', list[]]]",
 'init/copies': "dict{str:'data-dict-copied': bool:True, str:'attrs-shared': bool:True, "
                "str:'child-copied': bool:True, str:'child-attrs-shared': bool:True, "
                "str:'child-data-new': bool:True, str:'inner-copied': bool:True, "
                "str:'variable-copied': bool:True, str:'variable-data-shared': bool:True, "
                "str:'inner-variable-data-shared': bool:True, str:'original-child': list[str:'/', "
                "NoneType:None, str:'/inner', NoneType:None], str:'original-inner': list[str:'/', "
                "NoneType:None], str:'new-child': list[str:'/top/child', str:'url'], "
                "str:'new-inner': list[str:'/top/child/inner', str:'url']}",
 'hooks/init-log': "list[tuple[str:'adjust', str:'TracingGroup', str:'/', str:'l3', str:'Leaf'], "
                   "tuple[str:'copy-leaf', str:'l3'], tuple[str:'copy-leaf', str:'l2'], "
                   "tuple[str:'adjust', str:'TracingGroup', str:'/g2', str:'l3', str:'Leaf'], "
                   "tuple[str:'copy-leaf', str:'l3'], tuple[str:'copy-leaf', str:'l5'], "
                   "tuple[str:'adjust', str:'TracingGroup', str:'/r', str:'l1', str:'Leaf'], "
                   "tuple[str:'copy-leaf', str:'l1'], tuple[str:'adjust', str:'TracingGroup', "
                   "str:'/r', str:'g1', str:'CopyLoggingGroup'], tuple[str:'copy-group', str:'/', "
                   "NoneType:None], tuple[str:'copy-leaf', str:'l2'], tuple[str:'adjust', "
                   "str:'TracingGroup', str:'/r/g1/g2', str:'l3', str:'Leaf'], "
                   "tuple[str:'copy-leaf', str:'l3'], tuple[str:'adjust', str:'TracingGroup', "
                   "str:'/r', str:'l4', str:'Leaf'], tuple[str:'copy-leaf', str:'l4'], "
                   "tuple[str:'adjust', str:'TracingGroup', str:'/r', str:'g3', str:'Group'], "
                   "tuple[str:'copy-leaf', str:'l5']]",
 'hooks/init-walk': "list[tuple[str:'/r', str:'u', str:'TracingGroup', str:'dict', list[str:'l1', "
                    "str:'g1', str:'l4', str:'g3']], tuple[str:'/r/g1', str:'u', "
                    "str:'CopyLoggingGroup', str:'dict', list[str:'l2', str:'g2']], "
                    "tuple[str:'/r/g1/g2', str:'u', str:'TracingGroup', str:'dict', "
                    "list[str:'l3']], tuple[str:'/r/g3', str:'own', str:'Group', str:'dict', "
                    "list[str:'l5']]]",
 'hooks/setitem-log': "list[tuple[str:'copy-leaf', str:'l6'], tuple[str:'adjust', "
                      "str:'TracingGroup', str:'/r', str:'new', str:'CopyLoggingGroup'], "
                      "tuple[str:'copy-group', str:'/elsewhere', NoneType:None], "
                      "tuple[str:'copy-leaf', str:'l6'], tuple[str:'adjust', str:'TracingGroup', "
                      "str:'/r', str:'leaf', str:'Leaf'], tuple[str:'copy-leaf', str:'l7']]",
 'hooks/setitem-walk': "list[tuple[str:'/r', str:'u', str:'TracingGroup', str:'dict', "
                       "list[str:'l1', str:'g1', str:'l4', str:'g3', str:'new', str:'leaf']], "
                       "tuple[str:'/r/g1', str:'u', str:'CopyLoggingGroup', str:'dict', "
                       "list[str:'l2', str:'g2']], tuple[str:'/r/g1/g2', str:'u', "
                       "str:'TracingGroup', str:'dict', list[str:'l3']], tuple[str:'/r/g3', "
                       "str:'own', str:'Group', str:'dict', list[str:'l5']], tuple[str:'/r/new', "
                       "str:'u', str:'CopyLoggingGroup', str:'dict', list[str:'l6']]]",
 'hooks/subtree': "list[tuple[str:'/r', Group(dict{str:'path': str:'/r', str:'url': str:'u', "
                  "str:'data': dict{}, str:'attrs': dict{}})], tuple[str:'/r/g1', "
                  "Group(dict{str:'path': str:'/r/g1', str:'url': str:'u', str:'data': dict{}, "
                  "str:'attrs': dict{}})], tuple[str:'/r/g1/g2', Group(dict{str:'path': "
                  "str:'/r/g1/g2', str:'url': str:'u', str:'data': dict{}, str:'attrs': dict{}})], "
                  "tuple[str:'/r/g3', Group(dict{str:'path': str:'/r/g3', str:'url': str:'own', "
                  "str:'data': dict{}, str:'attrs': dict{}})], tuple[str:'/r/new', "
                  "Group(dict{str:'path': str:'/r/new', str:'url': str:'u', str:'data': dict{}, "
                  "str:'attrs': dict{}})]]",
 'hooks/subtree-log': "list[tuple[str:'decouple', str:'/r'], tuple[str:'decouple', "
                      "str:'/r/g1/g2']]",
 'hooks/decouple': "Group(dict{str:'path': str:'/r', str:'url': str:'u', str:'data': dict{}, "
                   "str:'attrs': dict{}})",
 'hooks/decouple-log': "list[tuple[str:'decouple', str:'/r']]",
 'setitem/walk': "list[tuple[str:'/', str:'s3://bucket/scene', str:'Group', str:'dict', "
                 "list[str:'z', str:'sub', str:'a', str:'sub2', str:'added', str:'var']], "
                 "tuple[str:'/z', str:'s3://bucket/scene', str:'Group', str:'dict', list[]], "
                 "tuple[str:'/sub', str:'s3://bucket/scene', str:'Group', str:'dict', "
                 "list[str:'inner', str:'v', str:'empty', str:'deeper']], tuple[str:'/sub/inner', "
                 "str:'other', str:'Group', str:'dict', list[str:'t', str:'leafgroup']], "
                 "tuple[str:'/sub/inner/leafgroup', str:'other', str:'Group', str:'dict', list[]], "
                 "tuple[str:'/sub/empty', str:'s3://bucket/scene', str:'Group', str:'dict', "
                 "list[]], tuple[str:'/sub/deeper', str:'s3://bucket/scene', str:'Group', "
                 "str:'dict', list[str:'x']], tuple[str:'/sub/deeper/x', str:'u2', str:'Group', "
                 "str:'dict', list[]], tuple[str:'/sub2', str:'s3://bucket/scene', str:'Group', "
                 "str:'dict', list[str:'w']], tuple[str:'/added', str:'s3://bucket/scene', "
                 "str:'Group', str:'dict', list[str:'g']], tuple[str:'/added/g', "
                 "str:'s3://bucket/scene', str:'Group', str:'dict', list[]]]",
 'setitem/tree': "Group(dict{str:'path': str:'/', str:'url': str:'s3://bucket/scene', str:'data': "
                 "dict{str:'z': Group(dict{str:'path': str:'/z', str:'url': "
                 "str:'s3://bucket/scene', str:'data': dict{}, str:'attrs': dict{str:'replaced': "
                 "bool:True}}), str:'sub': Group(dict{str:'path': str:'/sub', str:'url': "
                 "str:'s3://bucket/scene', str:'data': dict{str:'inner': Group(dict{str:'path': "
                 "str:'/sub/inner', str:'url': str:'other', str:'data': dict{str:'t': "
                 "Variable(dict{str:'dims': list[str:'x'], str:'data': "
                 "ndarray<float64,(1,)>:[1.5], str:'attrs': dict{}}), str:'leafgroup': "
                 "Group(dict{str:'path': str:'/sub/inner/leafgroup', str:'url': str:'other', "
                 "str:'data': dict{}, str:'attrs': dict{str:'deep': bool:True}})}, str:'attrs': "
                 "dict{str:'d': int:2}}), str:'v': Variable(dict{str:'dims': list[str:'r', "
                 "str:'c'], str:'data': ndarray<int64,(2, 2)>:[[1, 2], [3, 4]], str:'attrs': "
                 "dict{}}), str:'empty': Group(dict{str:'path': str:'/sub/empty', str:'url': "
                 "str:'s3://bucket/scene', str:'data': dict{}, str:'attrs': dict{}}), "
                 "str:'deeper': Group(dict{str:'path': str:'/sub/deeper', str:'url': "
                 "str:'s3://bucket/scene', str:'data': dict{str:'x': Group(dict{str:'path': "
                 "str:'/sub/deeper/x', str:'url': str:'u2', str:'data': dict{}, str:'attrs': "
                 "dict{}})}, str:'attrs': dict{}})}, str:'attrs': dict{str:'d': int:1}}), str:'a': "
                 "Variable(dict{str:'dims': list[str:'rows', str:'cols'], str:'data': "
                 "Array('file', (4, 3), 'int16', 2), str:'attrs': dict{str:'b': int:1}}), "
                 "str:'sub2': Group(dict{str:'path': str:'/sub2', str:'url': "
                 "str:'s3://bucket/scene', str:'data': dict{str:'w': Variable(dict{str:'dims': "
                 "list[str:'x'], str:'data': ndarray<int64,(1,)>:[3], str:'attrs': dict{}})}, "
                 "str:'attrs': dict{str:'s': int:2}}), str:'added': Group(dict{str:'path': "
                 "str:'/added', str:'url': str:'s3://bucket/scene', str:'data': dict{str:'g': "
                 "Group(dict{str:'path': str:'/added/g', str:'url': str:'s3://bucket/scene', "
                 "str:'data': dict{}, str:'attrs': dict{}})}, str:'attrs': dict{str:'n': int:1}}), "
                 "str:'var': Variable(dict{str:'dims': list[str:'x'], str:'data': "
                 "ndarray<int64,(1,)>:[9], str:'attrs': dict{}})}, str:'attrs': dict{str:'k': "
                 'tuple[int:1, int:2]}})',
 'setitem/plain': 'int:5',
 'setitem/unhashable': "raises TypeError: unhashable type: 'list'",
 'setitem/int-name-group': 'raises TypeError: join() argument must be str, bytes, or os.PathLike '
                           "object, not 'int'",
 'mapping/len': 'list[int:4, int:3, int:0]',
 'mapping/iter-type': "str:'generator'",
 'mapping/iter': "list[str:'z', str:'sub', str:'a', str:'sub2']",
 'mapping/keys': "list[str:'KeysView', list[str:'z', str:'sub', str:'a', str:'sub2']]",
 'mapping/items': "list[str:'z', str:'sub', str:'a', str:'sub2']",
 'mapping/contains': 'list[bool:True, bool:False, bool:False]',
 'mapping/get': "list[NoneType:None, int:3, str:'Group']",
 'mapping/getitem-missing': "raises KeyError: 'nope'",
 'mapping/getitem-unhashable': "raises TypeError: unhashable type: 'list'",
 'mapping/identity': 'bool:True',
 'mapping/hash': "raises TypeError: unhashable type: 'Group'",
 'mapping/repr': 'str:"Group(path=\'/p\', url=\'u\', data={\'g\': Group(path=\'/p/g\', url=\'u\', '
                 'data={}, attrs={\'a\': 1})}, attrs={})"',
 "name/'/'": "str:'/'",
 "name/'a'": "str:'a'",
 "name/'/a'": "str:'a'",
 "name/'/a/b'": "str:'b'",
 "name/'a/b'": "str:'b'",
 "name/'a/b/'": "str:''",
 "name/''": "str:''",
 "name/'//'": "str:''",
 "name/'/a//b'": "str:'b'",
 "name/'a/'": "str:''",
 "name/' / '": "str:' '",
 "name/'a\\\\b/c'": "str:'c'",
 'name/assigned-None': "raises TypeError: argument of type 'NoneType' is not iterable",
 'name/assigned-5': "raises TypeError: argument of type 'int' is not iterable",
 "name/assigned-b'/a/b'": "raises TypeError: a bytes-like object is required, not 'str'",
 "name/assigned-b'ab'": "raises TypeError: a bytes-like object is required, not 'str'",
 "name/assigned-('a', '/')": "raises AttributeError: 'tuple' object has no attribute 'rsplit'",
 "name/assigned-['/', 'a']": "raises AttributeError: 'list' object has no attribute 'rsplit'",
 "name/assigned-np.str_('/a/b')": "str:'b'",
 'name/tree': "list[tuple[str:'/', str:'/'], tuple[str:'/sub', str:'sub'], tuple[str:'/sub/inner', "
              "str:'inner'], tuple[str:'/sub/inner/leafgroup', str:'leafgroup'], "
              "tuple[str:'/sub/empty', str:'empty'], tuple[str:'/sub2', str:'sub2']]",
 'name/children': "dict{str:'inner': str:'inner', str:'empty': str:'empty'}",
 'name/type': "str:'str'",
 'groups/tree': "dict{str:'sub': Group(dict{str:'path': str:'/sub', str:'url': "
                "str:'s3://bucket/scene', str:'data': dict{str:'inner': Group(dict{str:'path': "
                "str:'/sub/inner', str:'url': str:'other', str:'data': dict{str:'t': "
                "Variable(dict{str:'dims': list[str:'x'], str:'data': ndarray<float64,(1,)>:[1.5], "
                "str:'attrs': dict{}}), str:'leafgroup': Group(dict{str:'path': "
                "str:'/sub/inner/leafgroup', str:'url': str:'other', str:'data': dict{}, "
                "str:'attrs': dict{str:'deep': bool:True}})}, str:'attrs': dict{str:'d': int:2}}), "
                "str:'v': Variable(dict{str:'dims': list[str:'r', str:'c'], str:'data': "
                "ndarray<int64,(2, 2)>:[[1, 2], [3, 4]], str:'attrs': dict{}}), str:'empty': "
                "Group(dict{str:'path': str:'/sub/empty', str:'url': str:'s3://bucket/scene', "
                "str:'data': dict{}, str:'attrs': dict{}})}, str:'attrs': dict{str:'d': int:1}}), "
                "str:'sub2': Group(dict{str:'path': str:'/sub2', str:'url': "
                "str:'s3://bucket/scene', str:'data': dict{str:'w': Variable(dict{str:'dims': "
                "list[str:'x'], str:'data': ndarray<int64,(1,)>:[3], str:'attrs': dict{}})}, "
                "str:'attrs': dict{str:'s': int:2}})}",
 'groups/tree/facts': "dict{str:'type': str:'dict', str:'names': list[str:'sub', str:'sub2'], "
                      "str:'same-objects': bool:True, str:'fresh': bool:True, str:'not-data': "
                      'bool:True}',
 'variables/tree': "dict{str:'z': Variable(dict{str:'dims': list[str:'x'], str:'data': "
                   "ndarray<int64,(2,)>:[1, 2], str:'attrs': dict{str:'a': int:1}}), str:'a': "
                   "Variable(dict{str:'dims': list[str:'rows', str:'cols'], str:'data': "
                   "Array('file', (4, 3), 'int16', 2), str:'attrs': dict{str:'b': int:1}})}",
 'variables/tree/facts': "dict{str:'type': str:'dict', str:'names': list[str:'z', str:'a'], "
                         "str:'same-objects': bool:True, str:'fresh': bool:True, str:'not-data': "
                         'bool:True}',
 'groups/sub': "dict{str:'inner': Group(dict{str:'path': str:'/sub/inner', str:'url': str:'other', "
               "str:'data': dict{str:'t': Variable(dict{str:'dims': list[str:'x'], str:'data': "
               "ndarray<float64,(1,)>:[1.5], str:'attrs': dict{}}), str:'leafgroup': "
               "Group(dict{str:'path': str:'/sub/inner/leafgroup', str:'url': str:'other', "
               "str:'data': dict{}, str:'attrs': dict{str:'deep': bool:True}})}, str:'attrs': "
               "dict{str:'d': int:2}}), str:'empty': Group(dict{str:'path': str:'/sub/empty', "
               "str:'url': str:'s3://bucket/scene', str:'data': dict{}, str:'attrs': dict{}})}",
 'groups/sub/facts': "dict{str:'type': str:'dict', str:'names': list[str:'inner', str:'empty'], "
                     "str:'same-objects': bool:True, str:'fresh': bool:True, str:'not-data': "
                     'bool:True}',
 'variables/sub': "dict{str:'v': Variable(dict{str:'dims': list[str:'r', str:'c'], str:'data': "
                  "ndarray<int64,(2, 2)>:[[1, 2], [3, 4]], str:'attrs': dict{}})}",
 'variables/sub/facts': "dict{str:'type': str:'dict', str:'names': list[str:'v'], "
                        "str:'same-objects': bool:True, str:'fresh': bool:True, str:'not-data': "
                        'bool:True}',
 'groups/mixed': "dict{str:'g1': Group(dict{str:'path': str:'/m/g1', str:'url': str:'u', "
                 "str:'data': dict{}, str:'attrs': dict{}}), str:'g2': "
                 "TracingGroup(dict{str:'path': str:'/m/g2', str:'url': str:'u', str:'data': "
                 "dict{}, str:'attrs': dict{}})}",
 'groups/mixed/facts': "dict{str:'type': str:'dict', str:'names': list[str:'g1', str:'g2'], "
                       "str:'same-objects': bool:True, str:'fresh': bool:True, str:'not-data': "
                       'bool:True}',
 'variables/mixed': "dict{str:'v1': Variable(dict{str:'dims': list[str:'x'], str:'data': "
                    "ndarray<int64,(1,)>:[1], str:'attrs': dict{}}), str:'v2': "
                    "MyVariable(dict{str:'dims': list[str:'x'], str:'data': "
                    "ndarray<int64,(1,)>:[2], str:'attrs': dict{}}), str:'v0': "
                    "Variable(dict{str:'dims': list[str:'x'], str:'data': ndarray<int64,(1,)>:[0], "
                    "str:'attrs': dict{}})}",
 'variables/mixed/facts': "dict{str:'type': str:'dict', str:'names': list[str:'v1', str:'v2', "
                          "str:'v0'], str:'same-objects': bool:True, str:'fresh': bool:True, "
                          "str:'not-data': bool:True}",
 'groups/empty': 'dict{}',
 'groups/empty/facts': "dict{str:'type': str:'dict', str:'names': list[], str:'same-objects': "
                       "bool:True, str:'fresh': bool:True, str:'not-data': bool:True}",
 'variables/empty': 'dict{}',
 'variables/empty/facts': "dict{str:'type': str:'dict', str:'names': list[], str:'same-objects': "
                          "bool:True, str:'fresh': bool:True, str:'not-data': bool:True}",
 'groups/ordered-data': "list[str:'dict', list[str:'g']]",
 'variables/ordered-data': "list[str:'dict', list[str:'b', str:'a']]",
 'groups/list-data': "raises AttributeError: 'list' object has no attribute 'items'",
 'variables/list-data': "raises AttributeError: 'list' object has no attribute 'items'",
 'groups/none-data': "raises AttributeError: 'NoneType' object has no attribute 'items'",
 'variables/none-data': "raises AttributeError: 'NoneType' object has no attribute 'items'",
 'variables/independent': "list[list[str:'v1', str:'v2', str:'v0'], list[str:'v1', str:'g1', "
                          "str:'leaf', str:'n', str:'v2', str:'g2', str:'none', str:'v0']]",
 'decouple/tree': "Group(dict{str:'path': str:'/', str:'url': str:'s3://bucket/scene', str:'data': "
                  "dict{str:'z': Variable(dict{str:'dims': list[str:'x'], str:'data': "
                  "ndarray<int64,(2,)>:[1, 2], str:'attrs': dict{str:'a': int:1}}), str:'a': "
                  "Variable(dict{str:'dims': list[str:'rows', str:'cols'], str:'data': "
                  "Array('file', (4, 3), 'int16', 2), str:'attrs': dict{str:'b': int:1}})}, "
                  "str:'attrs': dict{str:'k': tuple[int:1, int:2]}})",
 'decouple/tree/facts': "dict{str:'type': str:'Group', str:'attrs-shared': bool:True, "
                        "str:'variables-copied': bool:True}",
 'decouple/sub': "Group(dict{str:'path': str:'/sub', str:'url': str:'s3://bucket/scene', "
                 "str:'data': dict{str:'v': Variable(dict{str:'dims': list[str:'r', str:'c'], "
                 "str:'data': ndarray<int64,(2, 2)>:[[1, 2], [3, 4]], str:'attrs': dict{}})}, "
                 "str:'attrs': dict{str:'d': int:1}})",
 'decouple/sub/facts': "dict{str:'type': str:'Group', str:'attrs-shared': bool:True, "
                       "str:'variables-copied': bool:True}",
 'decouple/mixed': "Group(dict{str:'path': str:'/m', str:'url': str:'u', str:'data': "
                   "dict{str:'v1': Variable(dict{str:'dims': list[str:'x'], str:'data': "
                   "ndarray<int64,(1,)>:[1], str:'attrs': dict{}}), str:'v2': "
                   "MyVariable(dict{str:'dims': list[str:'x'], str:'data': "
                   "ndarray<int64,(1,)>:[2], str:'attrs': dict{}}), str:'v0': "
                   "Variable(dict{str:'dims': list[str:'x'], str:'data': ndarray<int64,(1,)>:[0], "
                   "str:'attrs': dict{}})}, str:'attrs': dict{}})",
 'decouple/mixed/facts': "dict{str:'type': str:'Group', str:'attrs-shared': bool:True, "
                         "str:'variables-copied': bool:True}",
 'decouple/subclass-type': "str:'Group'",
 'subtree/type': "str:'generator'",
 'subtree/tree': "list[tuple[str:'/', Group(dict{str:'path': str:'/', str:'url': "
                 "str:'s3://bucket/scene', str:'data': dict{str:'z': Variable(dict{str:'dims': "
                 "list[str:'x'], str:'data': ndarray<int64,(2,)>:[1, 2], str:'attrs': "
                 "dict{str:'a': int:1}}), str:'a': Variable(dict{str:'dims': list[str:'rows', "
                 "str:'cols'], str:'data': Array('file', (4, 3), 'int16', 2), str:'attrs': "
                 "dict{str:'b': int:1}})}, str:'attrs': dict{str:'k': tuple[int:1, int:2]}})], "
                 "tuple[str:'/sub', Group(dict{str:'path': str:'/sub', str:'url': "
                 "str:'s3://bucket/scene', str:'data': dict{str:'v': Variable(dict{str:'dims': "
                 "list[str:'r', str:'c'], str:'data': ndarray<int64,(2, 2)>:[[1, 2], [3, 4]], "
                 "str:'attrs': dict{}})}, str:'attrs': dict{str:'d': int:1}})], "
                 "tuple[str:'/sub/inner', Group(dict{str:'path': str:'/sub/inner', str:'url': "
                 "str:'other', str:'data': dict{str:'t': Variable(dict{str:'dims': list[str:'x'], "
                 "str:'data': ndarray<float64,(1,)>:[1.5], str:'attrs': dict{}})}, str:'attrs': "
                 "dict{str:'d': int:2}})], tuple[str:'/sub/inner/leafgroup', "
                 "Group(dict{str:'path': str:'/sub/inner/leafgroup', str:'url': str:'other', "
                 "str:'data': dict{}, str:'attrs': dict{str:'deep': bool:True}})], "
                 "tuple[str:'/sub/empty', Group(dict{str:'path': str:'/sub/empty', str:'url': "
                 "str:'s3://bucket/scene', str:'data': dict{}, str:'attrs': dict{}})], "
                 "tuple[str:'/sub2', Group(dict{str:'path': str:'/sub2', str:'url': "
                 "str:'s3://bucket/scene', str:'data': dict{str:'w': Variable(dict{str:'dims': "
                 "list[str:'x'], str:'data': ndarray<int64,(1,)>:[3], str:'attrs': dict{}})}, "
                 "str:'attrs': dict{str:'s': int:2}})]]",
 'subtree/exhausted': 'list[]',
 'subtree/paths': "list[str:'/', str:'/sub', str:'/sub/inner', str:'/sub/inner/leafgroup', "
                  "str:'/sub/empty', str:'/sub2']",
 'subtree/sub': "list[tuple[str:'/sub', Group(dict{str:'path': str:'/sub', str:'url': "
                "str:'s3://bucket/scene', str:'data': dict{str:'v': Variable(dict{str:'dims': "
                "list[str:'r', str:'c'], str:'data': ndarray<int64,(2, 2)>:[[1, 2], [3, 4]], "
                "str:'attrs': dict{}})}, str:'attrs': dict{str:'d': int:1}})], "
                "tuple[str:'/sub/inner', Group(dict{str:'path': str:'/sub/inner', str:'url': "
                "str:'other', str:'data': dict{str:'t': Variable(dict{str:'dims': list[str:'x'], "
                "str:'data': ndarray<float64,(1,)>:[1.5], str:'attrs': dict{}})}, str:'attrs': "
                "dict{str:'d': int:2}})], tuple[str:'/sub/inner/leafgroup', Group(dict{str:'path': "
                "str:'/sub/inner/leafgroup', str:'url': str:'other', str:'data': dict{}, "
                "str:'attrs': dict{str:'deep': bool:True}})], tuple[str:'/sub/empty', "
                "Group(dict{str:'path': str:'/sub/empty', str:'url': str:'s3://bucket/scene', "
                "str:'data': dict{}, str:'attrs': dict{}})]]",
 'subtree/leaf': "list[tuple[str:'/sub/inner/leafgroup', Group(dict{str:'path': "
                 "str:'/sub/inner/leafgroup', str:'url': str:'other', str:'data': dict{}, "
                 "str:'attrs': dict{str:'deep': bool:True}})]]",
 'subtree/empty': "list[tuple[str:'/', Group(dict{str:'path': str:'/', str:'url': NoneType:None, "
                  "str:'data': dict{}, str:'attrs': dict{}})]]",
 'subtree/only-variables': "list[tuple[str:'/v', Group(dict{str:'path': str:'/v', str:'url': "
                           "str:'u', str:'data': dict{str:'a': Variable(dict{str:'dims': "
                           "list[str:'x'], str:'data': ndarray<int64,(1,)>:[1], str:'attrs': "
                           "dict{}})}, str:'attrs': dict{}})]]",
 'subtree/mixed': "list[tuple[str:'/m', Group(dict{str:'path': str:'/m', str:'url': str:'u', "
                  "str:'data': dict{str:'v1': Variable(dict{str:'dims': list[str:'x'], str:'data': "
                  "ndarray<int64,(1,)>:[1], str:'attrs': dict{}}), str:'v2': "
                  "MyVariable(dict{str:'dims': list[str:'x'], str:'data': ndarray<int64,(1,)>:[2], "
                  "str:'attrs': dict{}}), str:'v0': Variable(dict{str:'dims': list[str:'x'], "
                  "str:'data': ndarray<int64,(1,)>:[0], str:'attrs': dict{}})}, str:'attrs': "
                  "dict{}})], tuple[str:'/m/g1', Group(dict{str:'path': str:'/m/g1', str:'url': "
                  "str:'u', str:'data': dict{}, str:'attrs': dict{}})], tuple[str:'/m/g2', "
                  "Group(dict{str:'path': str:'/m/g2', str:'url': str:'u', str:'data': dict{}, "
                  "str:'attrs': dict{}})]]",
 'subtree/dict': "dict{str:'/': Group(dict{str:'path': str:'/', str:'url': "
                 "str:'s3://bucket/scene', str:'data': dict{str:'z': Variable(dict{str:'dims': "
                 "list[str:'x'], str:'data': ndarray<int64,(2,)>:[1, 2], str:'attrs': "
                 "dict{str:'a': int:1}}), str:'a': Variable(dict{str:'dims': list[str:'rows', "
                 "str:'cols'], str:'data': Array('file', (4, 3), 'int16', 2), str:'attrs': "
                 "dict{str:'b': int:1}})}, str:'attrs': dict{str:'k': tuple[int:1, int:2]}}), "
                 "str:'/sub': Group(dict{str:'path': str:'/sub', str:'url': "
                 "str:'s3://bucket/scene', str:'data': dict{str:'v': Variable(dict{str:'dims': "
                 "list[str:'r', str:'c'], str:'data': ndarray<int64,(2, 2)>:[[1, 2], [3, 4]], "
                 "str:'attrs': dict{}})}, str:'attrs': dict{str:'d': int:1}}), str:'/sub/inner': "
                 "Group(dict{str:'path': str:'/sub/inner', str:'url': str:'other', str:'data': "
                 "dict{str:'t': Variable(dict{str:'dims': list[str:'x'], str:'data': "
                 "ndarray<float64,(1,)>:[1.5], str:'attrs': dict{}})}, str:'attrs': dict{str:'d': "
                 "int:2}}), str:'/sub/inner/leafgroup': Group(dict{str:'path': "
                 "str:'/sub/inner/leafgroup', str:'url': str:'other', str:'data': dict{}, "
                 "str:'attrs': dict{str:'deep': bool:True}}), str:'/sub/empty': "
                 "Group(dict{str:'path': str:'/sub/empty', str:'url': str:'s3://bucket/scene', "
                 "str:'data': dict{}, str:'attrs': dict{}}), str:'/sub2': Group(dict{str:'path': "
                 "str:'/sub2', str:'url': str:'s3://bucket/scene', str:'data': dict{str:'w': "
                 "Variable(dict{str:'dims': list[str:'x'], str:'data': ndarray<int64,(1,)>:[3], "
                 "str:'attrs': dict{}})}, str:'attrs': dict{str:'s': int:2}})}",
 'subtree/decoupled-are-new': 'list[bool:True, bool:True, bool:True, bool:True, bool:True, '
                              'bool:True]',
 'subtree/wide': "list[str:'/w', str:'/w/g0', str:'/w/g1', str:'/w/g1/h0', str:'/w/g2', "
                 "str:'/w/g2/h0', str:'/w/g2/h1', str:'/w/g3', str:'/w/g3/h0', str:'/w/g3/h1', "
                 "str:'/w/g3/h2']",
 'subtree/deep-chain': "list[tuple[str:'/', dict{str:'level': int:39}, list[str:'before']], "
                       "tuple[str:'/c', dict{str:'level': int:38}, list[str:'before']], "
                       "tuple[str:'/c/c', dict{str:'level': int:37}, list[str:'before']], "
                       "tuple[str:'/c/c/c', dict{str:'level': int:36}, list[str:'before']], "
                       "tuple[str:'/c/c/c/c', dict{str:'level': int:35}, list[str:'before']], "
                       "tuple[str:'/c/c/c/c/c', dict{str:'level': int:34}, list[str:'before']], "
                       "tuple[str:'/c/c/c/c/c/c', dict{str:'level': int:33}, list[str:'before']], "
                       "tuple[str:'/c/c/c/c/c/c/c', dict{str:'level': int:32}, "
                       "list[str:'before']], tuple[str:'/c/c/c/c/c/c/c/c', dict{str:'level': "
                       "int:31}, list[str:'before']], tuple[str:'/c/c/c/c/c/c/c/c/c', "
                       "dict{str:'level': int:30}, list[str:'before']], "
                       "tuple[str:'/c/c/c/c/c/c/c/c/c/c', dict{str:'level': int:29}, "
                       "list[str:'before']], tuple[str:'/c/c/c/c/c/c/c/c/c/c/c', dict{str:'level': "
                       "int:28}, list[str:'before']], tuple[str:'/c/c/c/c/c/c/c/c/c/c/c/c', "
                       "dict{str:'level': int:27}, list[str:'before']], "
                       "tuple[str:'/c/c/c/c/c/c/c/c/c/c/c/c/c', dict{str:'level': int:26}, "
                       "list[str:'before']], tuple[str:'/c/c/c/c/c/c/c/c/c/c/c/c/c/c', "
                       "dict{str:'level': int:25}, list[str:'before']], "
                       "tuple[str:'/c/c/c/c/c/c/c/c/c/c/c/c/c/c/c', dict{str:'level': int:24}, "
                       "list[str:'before']], tuple[str:'/c/c/c/c/c/c/c/c/c/c/c/c/c/c/c/c', "
                       "dict{str:'level': int:23}, list[str:'before']], "
                       "tuple[str:'/c/c/c/c/c/c/c/c/c/c/c/c/c/c/c/c/c', dict{str:'level': int:22}, "
                       "list[str:'before']], tuple[str:'/c/c/c/c/c/c/c/c/c/c/c/c/c/c/c/c/c/c', "
                       "dict{str:'level': int:21}, list[str:'before']], "
                       "tuple[str:'/c/c/c/c/c/c/c/c/c/c/c/c/c/c/c/c/c/c/c', dict{str:'level': "
                       "int:20}, list[str:'before']], "
                       "tuple[str:'/c/c/c/c/c/c/c/c/c/c/c/c/c/c/c/c/c/c/c/c', dict{str:'level': "
                       "int:19}, list[str:'before']], "
                       "tuple[str:'/c/c/c/c/c/c/c/c/c/c/c/c/c/c/c/c/c/c/c/c/c', dict{str:'level': "
                       "int:18}, list[str:'before']], "
                       "tuple[str:'/c/c/c/c/c/c/c/c/c/c/c/c/c/c/c/c/c/c/c/c/c/c', "
                       "dict{str:'level': int:17}, list[str:'before']], "
                       "tuple[str:'/c/c/c/c/c/c/c/c/c/c/c/c/c/c/c/c/c/c/c/c/c/c/c', "
                       "dict{str:'level': int:16}, list[str:'before']], "
                       "tuple[str:'/c/c/c/c/c/c/c/c/c/c/c/c/c/c/c/c/c/c/c/c/c/c/c/c', "
                       "dict{str:'level': int:15}, list[str:'before']], "
                       "tuple[str:'/c/c/c/c/c/c/c/c/c/c/c/c/c/c/c/c/c/c/c/c/c/c/c/c/c', "
                       "dict{str:'level': int:14}, list[str:'before']], "
                       "tuple[str:'/c/c/c/c/c/c/c/c/c/c/c/c/c/c/c/c/c/c/c/c/c/c/c/c/c/c', "
                       "dict{str:'level': int:13}, list[str:'before']], "
                       "tuple[str:'/c/c/c/c/c/c/c/c/c/c/c/c/c/c/c/c/c/c/c/c/c/c/c/c/c/c/c', "
                       "dict{str:'level': int:12}, list[str:'before']], "
                       "tuple[str:'/c/c/c/c/c/c/c/c/c/c/c/c/c/c/c/c/c/c/c/c/c/c/c/c/c/c/c/c', "
                       "dict{str:'level': int:11}, list[str:'before']], "
                       "tuple[str:'/c/c/c/c/c/c/c/c/c/c/c/c/c/c/c/c/c/c/c/c/c/c/c/c/c/c/c/c/c', "
                       "dict{str:'level': int:10}, list[str:'before']], "
                       "tuple[str:'/c/c/c/c/c/c/c/c/c/c/c/c/c/c/c/c/c/c/c/c/c/c/c/c/c/c/c/c/c/c', "
                       "dict{str:'level': int:9}, list[str:'before']], "
                       "tuple[str:'/c/c/c/c/c/c/c/c/c/c/c/c/c/c/c/c/c/c/c/c/c/c/c/c/c/c/c/c/c/c/c', "
                       "dict{str:'level': int:8}, list[str:'before']], "
                       "tuple[str:'/c/c/c/c/c/c/c/c/c/c/c/c/c/c/c/c/c/c/c/c/c/c/c/c/c/c/c/c/c/c/c/c', "
                       "dict{str:'level': int:7}, list[str:'before']], "
                       "tuple[str:'/c/c/c/c/c/c/c/c/c/c/c/c/c/c/c/c/c/c/c/c/c/c/c/c/c/c/c/c/c/c/c/c/c', "
                       "dict{str:'level': int:6}, list[str:'before']], "
                       "tuple[str:'/c/c/c/c/c/c/c/c/c/c/c/c/c/c/c/c/c/c/c/c/c/c/c/c/c/c/c/c/c/c/c/c/c/c', "
                       "dict{str:'level': int:5}, list[str:'before']], "
                       "tuple[str:'/c/c/c/c/c/c/c/c/c/c/c/c/c/c/c/c/c/c/c/c/c/c/c/c/c/c/c/c/c/c/c/c/c/c/c', "
                       "dict{str:'level': int:4}, list[str:'before']], "
                       "tuple[str:'/c/c/c/c/c/c/c/c/c/c/c/c/c/c/c/c/c/c/c/c/c/c/c/c/c/c/c/c/c/c/c/c/c/c/c/c', "
                       "dict{str:'level': int:3}, list[str:'before']], "
                       "tuple[str:'/c/c/c/c/c/c/c/c/c/c/c/c/c/c/c/c/c/c/c/c/c/c/c/c/c/c/c/c/c/c/c/c/c/c/c/c/c', "
                       "dict{str:'level': int:2}, list[str:'before']], "
                       "tuple[str:'/c/c/c/c/c/c/c/c/c/c/c/c/c/c/c/c/c/c/c/c/c/c/c/c/c/c/c/c/c/c/c/c/c/c/c/c/c/c', "
                       "dict{str:'level': int:1}, list[str:'before']], "
                       "tuple[str:'/c/c/c/c/c/c/c/c/c/c/c/c/c/c/c/c/c/c/c/c/c/c/c/c/c/c/c/c/c/c/c/c/c/c/c/c/c/c/c', "
                       "dict{str:'level': int:0}, list[str:'v']], "
                       "tuple[str:'/c/c/c/c/c/c/c/c/c/c/c/c/c/c/c/c/c/c/c/c/c/c/c/c/c/c/c/c/c/c/c/c/c/c/c/c/c/c/after', "
                       'dict{}, list[]], '
                       "tuple[str:'/c/c/c/c/c/c/c/c/c/c/c/c/c/c/c/c/c/c/c/c/c/c/c/c/c/c/c/c/c/c/c/c/c/c/c/c/c/after', "
                       'dict{}, list[]], '
                       "tuple[str:'/c/c/c/c/c/c/c/c/c/c/c/c/c/c/c/c/c/c/c/c/c/c/c/c/c/c/c/c/c/c/c/c/c/c/c/c/after', "
                       'dict{}, list[]], '
                       "tuple[str:'/c/c/c/c/c/c/c/c/c/c/c/c/c/c/c/c/c/c/c/c/c/c/c/c/c/c/c/c/c/c/c/c/c/c/c/after', "
                       'dict{}, list[]], '
                       "tuple[str:'/c/c/c/c/c/c/c/c/c/c/c/c/c/c/c/c/c/c/c/c/c/c/c/c/c/c/c/c/c/c/c/c/c/c/after', "
                       'dict{}, list[]], '
                       "tuple[str:'/c/c/c/c/c/c/c/c/c/c/c/c/c/c/c/c/c/c/c/c/c/c/c/c/c/c/c/c/c/c/c/c/c/after', "
                       'dict{}, list[]], '
                       "tuple[str:'/c/c/c/c/c/c/c/c/c/c/c/c/c/c/c/c/c/c/c/c/c/c/c/c/c/c/c/c/c/c/c/c/after', "
                       'dict{}, list[]], '
                       "tuple[str:'/c/c/c/c/c/c/c/c/c/c/c/c/c/c/c/c/c/c/c/c/c/c/c/c/c/c/c/c/c/c/c/after', "
                       'dict{}, list[]], '
                       "tuple[str:'/c/c/c/c/c/c/c/c/c/c/c/c/c/c/c/c/c/c/c/c/c/c/c/c/c/c/c/c/c/c/after', "
                       'dict{}, list[]], '
                       "tuple[str:'/c/c/c/c/c/c/c/c/c/c/c/c/c/c/c/c/c/c/c/c/c/c/c/c/c/c/c/c/c/after', "
                       'dict{}, list[]], '
                       "tuple[str:'/c/c/c/c/c/c/c/c/c/c/c/c/c/c/c/c/c/c/c/c/c/c/c/c/c/c/c/c/after', "
                       'dict{}, list[]], '
                       "tuple[str:'/c/c/c/c/c/c/c/c/c/c/c/c/c/c/c/c/c/c/c/c/c/c/c/c/c/c/c/after', "
                       'dict{}, list[]], '
                       "tuple[str:'/c/c/c/c/c/c/c/c/c/c/c/c/c/c/c/c/c/c/c/c/c/c/c/c/c/c/after', "
                       'dict{}, list[]], '
                       "tuple[str:'/c/c/c/c/c/c/c/c/c/c/c/c/c/c/c/c/c/c/c/c/c/c/c/c/c/after', "
                       'dict{}, list[]], '
                       "tuple[str:'/c/c/c/c/c/c/c/c/c/c/c/c/c/c/c/c/c/c/c/c/c/c/c/c/after', "
                       'dict{}, list[]], '
                       "tuple[str:'/c/c/c/c/c/c/c/c/c/c/c/c/c/c/c/c/c/c/c/c/c/c/c/after', dict{}, "
                       "list[]], tuple[str:'/c/c/c/c/c/c/c/c/c/c/c/c/c/c/c/c/c/c/c/c/c/c/after', "
                       'dict{}, list[]], '
                       "tuple[str:'/c/c/c/c/c/c/c/c/c/c/c/c/c/c/c/c/c/c/c/c/c/after', dict{}, "
                       "list[]], tuple[str:'/c/c/c/c/c/c/c/c/c/c/c/c/c/c/c/c/c/c/c/c/after', "
                       "dict{}, list[]], tuple[str:'/c/c/c/c/c/c/c/c/c/c/c/c/c/c/c/c/c/c/c/after', "
                       "dict{}, list[]], tuple[str:'/c/c/c/c/c/c/c/c/c/c/c/c/c/c/c/c/c/c/after', "
                       "dict{}, list[]], tuple[str:'/c/c/c/c/c/c/c/c/c/c/c/c/c/c/c/c/c/after', "
                       "dict{}, list[]], tuple[str:'/c/c/c/c/c/c/c/c/c/c/c/c/c/c/c/c/after', "
                       "dict{}, list[]], tuple[str:'/c/c/c/c/c/c/c/c/c/c/c/c/c/c/c/after', dict{}, "
                       "list[]], tuple[str:'/c/c/c/c/c/c/c/c/c/c/c/c/c/c/after', dict{}, list[]], "
                       "tuple[str:'/c/c/c/c/c/c/c/c/c/c/c/c/c/after', dict{}, list[]], "
                       "tuple[str:'/c/c/c/c/c/c/c/c/c/c/c/c/after', dict{}, list[]], "
                       "tuple[str:'/c/c/c/c/c/c/c/c/c/c/c/after', dict{}, list[]], "
                       "tuple[str:'/c/c/c/c/c/c/c/c/c/c/after', dict{}, list[]], "
                       "tuple[str:'/c/c/c/c/c/c/c/c/c/after', dict{}, list[]], "
                       "tuple[str:'/c/c/c/c/c/c/c/c/after', dict{}, list[]], "
                       "tuple[str:'/c/c/c/c/c/c/c/after', dict{}, list[]], "
                       "tuple[str:'/c/c/c/c/c/c/after', dict{}, list[]], "
                       "tuple[str:'/c/c/c/c/c/after', dict{}, list[]], tuple[str:'/c/c/c/c/after', "
                       "dict{}, list[]], tuple[str:'/c/c/c/after', dict{}, list[]], "
                       "tuple[str:'/c/c/after', dict{}, list[]], tuple[str:'/c/after', dict{}, "
                       "list[]], tuple[str:'/after', dict{}, list[]]]",
 'subtree/odd-paths': "list[str:'/', str:'/renamed', str:'/', str:'/sub/inner/leafgroup', "
                      "str:'/sub/empty', str:'/sub2']",
 'subtree/duplicate-paths-dict': "list[str:'/', str:'/renamed', str:'/sub/inner/leafgroup', "
                                 "str:'/sub/empty', str:'/sub2']",
 'subtree/mutate_before_start': "list[str:'/', str:'/sub', str:'/sub/inner', "
                                "str:'/sub/inner/leafgroup', str:'/sub/empty', str:'/sub2', "
                                "str:'/late']",
 'subtree/mutate_after_first': "list[str:'/', str:'/sub', str:'/sub/inner', "
                               "str:'/sub/inner/leafgroup', str:'/sub/empty', str:'/sub2', "
                               "str:'/late']",
 'subtree/mutate_after_second': "list[str:'/', str:'/sub', str:'/sub/inner', "
                                "str:'/sub/inner/leafgroup', str:'/sub/empty', str:'RuntimeError: "
                                "dictionary changed size during iteration']",
 'subtree/mutate_child_after_its_yield': "list[str:'/', str:'/sub', str:'/sub/empty', "
                                         "str:'/sub/late', str:'/sub2']",
 'subtree/mutate_grandchild_during_walk': "list[str:'/', str:'/sub', str:'/sub/inner', "
                                          "str:'/swapped', str:'/swapped/g', str:'/sub2']",
 'subtree/replace_later_sibling': "list[str:'/', str:'/sub', str:'/sub/inner', "
                                  "str:'/sub/inner/leafgroup', str:'/sub/empty', "
                                  "str:'/a-now-group']",
 'subtree/shrink_parent_during_child': "list[str:'/', str:'/sub', str:'/sub/inner', "
                                       "str:'/sub/inner/leafgroup', str:'/sub/empty', "
                                       "str:'RuntimeError: dictionary changed size during "
                                       "iteration']",
 'subtree/data_swapped_before_resume': "list[str:'/', str:'/only']",
 'subtree/closed_early': "list[str:'/', str:'/sub']",
 'subtree/failing_decouple': "list[tuple[str:'/', str:'/'], tuple[str:'/sub', str:'/sub'], "
                             "tuple[int:5, int:5], tuple[NoneType:None, str:'/'], "
                             "tuple[str:'/sub/empty', str:'/sub/empty'], tuple[str:'/sub2', "
                             "str:'/sub2']]",
 'subtree/none-data-child': "raises AttributeError: 'NoneType' object has no attribute 'items'",
 'subtree/none-data': "raises AttributeError: 'NoneType' object has no attribute 'items'",
 'eq/base-vs-same': "list[str:'bool', bool:True]",
 'eq/same-vs-base': "list[str:'bool', bool:True]",
 'ne/base-vs-same': "list[str:'bool', bool:False]",
 'eq/base-vs-path': "list[str:'bool', bool:False]",
 'eq/path-vs-base': "list[str:'bool', bool:False]",
 'ne/base-vs-path': "list[str:'bool', bool:True]",
 'eq/base-vs-url': "list[str:'bool', bool:False]",
 'eq/url-vs-base': "list[str:'bool', bool:False]",
 'ne/base-vs-url': "list[str:'bool', bool:True]",
 'eq/base-vs-attrs': "list[str:'bool', bool:False]",
 'eq/attrs-vs-base': "list[str:'bool', bool:False]",
 'ne/base-vs-attrs': "list[str:'bool', bool:True]",
 'eq/base-vs-attrs-list-vs-tuple': "list[str:'bool', bool:False]",
 'eq/attrs-list-vs-tuple-vs-base': "list[str:'bool', bool:False]",
 'ne/base-vs-attrs-list-vs-tuple': "list[str:'bool', bool:True]",
 'eq/base-vs-sub-path': "list[str:'bool', bool:False]",
 'eq/sub-path-vs-base': "list[str:'bool', bool:False]",
 'ne/base-vs-sub-path': "list[str:'bool', bool:True]",
 'eq/base-vs-sub-url': "list[str:'bool', bool:False]",
 'eq/sub-url-vs-base': "list[str:'bool', bool:False]",
 'ne/base-vs-sub-url': "list[str:'bool', bool:True]",
 'eq/base-vs-sub-attrs': "list[str:'bool', bool:False]",
 'eq/sub-attrs-vs-base': "list[str:'bool', bool:False]",
 'ne/base-vs-sub-attrs': "list[str:'bool', bool:True]",
 'eq/base-vs-inner-attrs': "list[str:'bool', bool:False]",
 'eq/inner-attrs-vs-base': "list[str:'bool', bool:False]",
 'ne/base-vs-inner-attrs': "list[str:'bool', bool:True]",
 'eq/base-vs-deep-attrs': "list[str:'bool', bool:False]",
 'eq/deep-attrs-vs-base': "list[str:'bool', bool:False]",
 'ne/base-vs-deep-attrs': "list[str:'bool', bool:True]",
 'eq/base-vs-variable-values': "list[str:'bool', bool:False]",
 'eq/variable-values-vs-base': "list[str:'bool', bool:False]",
 'ne/base-vs-variable-values': "list[str:'bool', bool:True]",
 'eq/base-vs-variable-attrs': "list[str:'bool', bool:False]",
 'eq/variable-attrs-vs-base': "list[str:'bool', bool:False]",
 'ne/base-vs-variable-attrs': "list[str:'bool', bool:True]",
 'eq/base-vs-variable-dims': "list[str:'bool', bool:False]",
 'eq/variable-dims-vs-base': "list[str:'bool', bool:False]",
 'ne/base-vs-variable-dims': "list[str:'bool', bool:True]",
 'eq/base-vs-variable-dtype': "list[str:'bool', bool:True]",
 'eq/variable-dtype-vs-base': "list[str:'bool', bool:True]",
 'ne/base-vs-variable-dtype': "list[str:'bool', bool:False]",
 'eq/base-vs-variable-list-data': "list[str:'bool', bool:False]",
 'eq/variable-list-data-vs-base': "list[str:'bool', bool:False]",
 'ne/base-vs-variable-list-data': "list[str:'bool', bool:True]",
 'eq/base-vs-variable-shape': 'raises ValueError: operands could not be broadcast together with '
                              'shapes (2,) (3,) ',
 'eq/variable-shape-vs-base': 'raises ValueError: operands could not be broadcast together with '
                              'shapes (3,) (2,) ',
 'ne/base-vs-variable-shape': 'raises ValueError: operands could not be broadcast together with '
                              'shapes (2,) (3,) ',
 'eq/base-vs-variable-subclass': "list[str:'bool', bool:True]",
 'eq/variable-subclass-vs-base': "list[str:'bool', bool:True]",
 'ne/base-vs-variable-subclass': "list[str:'bool', bool:False]",
 'eq/base-vs-backend-rpc': "list[str:'bool', bool:False]",
 'eq/backend-rpc-vs-base': "list[str:'bool', bool:False]",
 'ne/base-vs-backend-rpc': "list[str:'bool', bool:True]",
 'eq/base-vs-backend-vs-numpy': "list[str:'bool', bool:False]",
 'eq/backend-vs-numpy-vs-base': "list[str:'bool', bool:False]",
 'ne/base-vs-backend-vs-numpy': "list[str:'bool', bool:True]",
 'eq/base-vs-deep-variable': "list[str:'bool', bool:False]",
 'eq/deep-variable-vs-base': "list[str:'bool', bool:False]",
 'ne/base-vs-deep-variable': "list[str:'bool', bool:True]",
 'eq/base-vs-extra-variable': "list[str:'bool', bool:False]",
 'eq/extra-variable-vs-base': "list[str:'bool', bool:False]",
 'ne/base-vs-extra-variable': "list[str:'bool', bool:True]",
 'eq/base-vs-extra-group': "list[str:'bool', bool:False]",
 'eq/extra-group-vs-base': "list[str:'bool', bool:False]",
 'ne/base-vs-extra-group': "list[str:'bool', bool:True]",
 'eq/base-vs-extra-deep-group': "list[str:'bool', bool:False]",
 'eq/extra-deep-group-vs-base': "list[str:'bool', bool:False]",
 'ne/base-vs-extra-deep-group': "list[str:'bool', bool:True]",
 'eq/base-vs-extra-plain-entry': "list[str:'bool', bool:True]",
 'eq/extra-plain-entry-vs-base': "list[str:'bool', bool:True]",
 'ne/base-vs-extra-plain-entry': "list[str:'bool', bool:False]",
 'eq/base-vs-extra-leaf-entry': "list[str:'bool', bool:True]",
 'eq/extra-leaf-entry-vs-base': "list[str:'bool', bool:True]",
 'ne/base-vs-extra-leaf-entry': "list[str:'bool', bool:False]",
 'eq/base-vs-missing-variable': "list[str:'bool', bool:False]",
 'eq/missing-variable-vs-base': "list[str:'bool', bool:False]",
 'ne/base-vs-missing-variable': "list[str:'bool', bool:True]",
 'eq/base-vs-missing-group': "list[str:'bool', bool:False]",
 'eq/missing-group-vs-base': "list[str:'bool', bool:False]",
 'ne/base-vs-missing-group': "list[str:'bool', bool:True]",
 'eq/base-vs-missing-deep-group': "list[str:'bool', bool:False]",
 'eq/missing-deep-group-vs-base': "list[str:'bool', bool:False]",
 'ne/base-vs-missing-deep-group': "list[str:'bool', bool:True]",
 'eq/base-vs-variable-becomes-group': "list[str:'bool', bool:False]",
 'eq/variable-becomes-group-vs-base': "list[str:'bool', bool:False]",
 'ne/base-vs-variable-becomes-group': "list[str:'bool', bool:True]",
 'eq/base-vs-group-becomes-variable': "list[str:'bool', bool:False]",
 'eq/group-becomes-variable-vs-base': "list[str:'bool', bool:False]",
 'ne/base-vs-group-becomes-variable': "list[str:'bool', bool:True]",
 'eq/base-vs-variable-becomes-plain': "list[str:'bool', bool:False]",
 'eq/variable-becomes-plain-vs-base': "list[str:'bool', bool:False]",
 'ne/base-vs-variable-becomes-plain': "list[str:'bool', bool:True]",
 'eq/base-vs-reordered-root': "list[str:'bool', bool:False]",
 'eq/reordered-root-vs-base': "list[str:'bool', bool:False]",
 'ne/base-vs-reordered-root': "list[str:'bool', bool:True]",
 'eq/base-vs-reordered-sub': "list[str:'bool', bool:False]",
 'eq/reordered-sub-vs-base': "list[str:'bool', bool:False]",
 'ne/base-vs-reordered-sub': "list[str:'bool', bool:True]",
 'eq/base-vs-subclass': "list[str:'bool', bool:True]",
 'eq/subclass-vs-base': "list[str:'bool', bool:True]",
 'ne/base-vs-subclass': "list[str:'bool', bool:False]",
 'eq/self': "list[str:'bool', bool:True]",
 'eq/sub-vs-sub': "list[str:'bool', bool:True]",
 'eq/sub-vs-sub2': "list[str:'bool', bool:False]",
 'eq/empty-groups': "list[str:'bool', bool:True]",
 'eq/non-group-none': "list[str:'bool', bool:False]",
 'eq/non-group-none/reflected': "list[str:'bool', bool:False]",
 'ne/non-group-none': "list[str:'bool', bool:True]",
 'eq/non-group-int': "list[str:'bool', bool:False]",
 'eq/non-group-int/reflected': "list[str:'bool', bool:False]",
 'ne/non-group-int': "list[str:'bool', bool:True]",
 'eq/non-group-dict': "list[str:'bool', bool:False]",
 'eq/non-group-dict/reflected': "list[str:'bool', bool:False]",
 'ne/non-group-dict': "list[str:'bool', bool:True]",
 'eq/non-group-variable': "list[str:'bool', bool:False]",
 'eq/non-group-variable/reflected': "list[str:'bool', bool:False]",
 'ne/non-group-variable': "list[str:'bool', bool:True]",
 'eq/non-group-str': "list[str:'bool', bool:False]",
 'eq/non-group-str/reflected': "list[str:'bool', bool:False]",
 'ne/non-group-str': "list[str:'bool', bool:True]",
 'eq/non-group-list': "list[str:'bool', bool:False]",
 'eq/non-group-list/reflected': "list[str:'bool', bool:False]",
 'ne/non-group-list': "list[str:'bool', bool:True]",
 'eq/plain-entries-ignored': "list[str:'bool', bool:True]",
 'eq/plain-entries-ignored/log': 'list[]',
 'eq/leaf-entries-ignored': "list[str:'bool', bool:True]",
 'eq/leaf-entries-ignored/log': 'list[]',
 'eq/array-attrs': "list[str:'bool', bool:True]",
 'eq/array-attrs-same-object': "list[str:'bool', bool:True]",
 'eq/array-attrs-but-other-path': "list[str:'bool', bool:False]",
 'eq/array-attrs-but-other-groups': "list[str:'bool', bool:False]",
 'eq/array-path': 'raises ValueError: The truth value of an array with more than one element is '
                  'ambiguous. Use a.any() or a.all()',
 'eq/array-url': 'raises ValueError: The truth value of an array with more than one element is '
                 'ambiguous. Use a.any() or a.all()',
 'eq/array-url-but-other-path': "list[str:'bool', bool:False]",
 'eq/deep-array-attrs': "list[str:'bool', bool:True]",
 'eq/variable-shape-mismatch': 'raises ValueError: operands could not be broadcast together with '
                               'shapes (3,) (2,) ',
 'eq/broken-other-data': "raises AttributeError: 'NoneType' object has no attribute 'items'",
 'eq/broken-own-data': "raises AttributeError: 'NoneType' object has no attribute 'items'",
 'eq/broken-own-data-other-path': "list[str:'bool', bool:False]",
 'eq/broken-sub-data': "raises AttributeError: 'NoneType' object has no attribute 'items'",
 'eq-order/all-equal': "list[str:'bool', bool:True]",
 'eq-order/all-equal/log': "list[tuple[str:'eq-var', str:'v1', str:'v1'], tuple[str:'eq-var', "
                           "str:'v2', str:'v2'], tuple[str:'eq-var', str:'v3', str:'v3'], "
                           "tuple[str:'eq-var', str:'w1', str:'w1'], tuple[str:'eq-var', str:'x1', "
                           "str:'x1']]",
 'eq-order/all-equal/reflected': "list[str:'bool', bool:True]",
 'eq-order/all-equal/reflected-log': "list[tuple[str:'eq-var', str:'v1', str:'v1'], "
                                     "tuple[str:'eq-var', str:'v2', str:'v2'], tuple[str:'eq-var', "
                                     "str:'v3', str:'v3'], tuple[str:'eq-var', str:'w1', "
                                     "str:'w1'], tuple[str:'eq-var', str:'x1', str:'x1']]",
 'eq-order/first-differs': "list[str:'bool', bool:False]",
 'eq-order/first-differs/log': "list[tuple[str:'eq-var', str:'v1', str:'v1']]",
 'eq-order/first-differs/reflected': "list[str:'bool', bool:True]",
 'eq-order/first-differs/reflected-log': "list[tuple[str:'eq-var', str:'v1', str:'v1'], "
                                         "tuple[str:'eq-var', str:'v2', str:'v2'], "
                                         "tuple[str:'eq-var', str:'v3', str:'v3'], "
                                         "tuple[str:'eq-var', str:'w1', str:'w1'], "
                                         "tuple[str:'eq-var', str:'x1', str:'x1']]",
 'eq-order/second-differs': "list[str:'bool', bool:False]",
 'eq-order/second-differs/log': "list[tuple[str:'eq-var', str:'v1', str:'v1'], tuple[str:'eq-var', "
                                "str:'v2', str:'v2']]",
 'eq-order/second-differs/reflected': "list[str:'bool', bool:True]",
 'eq-order/second-differs/reflected-log': "list[tuple[str:'eq-var', str:'v1', str:'v1'], "
                                          "tuple[str:'eq-var', str:'v2', str:'v2'], "
                                          "tuple[str:'eq-var', str:'v3', str:'v3'], "
                                          "tuple[str:'eq-var', str:'w1', str:'w1'], "
                                          "tuple[str:'eq-var', str:'x1', str:'x1']]",
 'eq-order/last-differs': "list[str:'bool', bool:False]",
 'eq-order/last-differs/log': "list[tuple[str:'eq-var', str:'v1', str:'v1'], tuple[str:'eq-var', "
                              "str:'v2', str:'v2'], tuple[str:'eq-var', str:'v3', str:'v3']]",
 'eq-order/last-differs/reflected': "list[str:'bool', bool:True]",
 'eq-order/last-differs/reflected-log': "list[tuple[str:'eq-var', str:'v1', str:'v1'], "
                                        "tuple[str:'eq-var', str:'v2', str:'v2'], "
                                        "tuple[str:'eq-var', str:'v3', str:'v3'], "
                                        "tuple[str:'eq-var', str:'w1', str:'w1'], "
                                        "tuple[str:'eq-var', str:'x1', str:'x1']]",
 'eq-order/truthy-values': "list[str:'bool', bool:True]",
 'eq-order/truthy-values/log': "list[tuple[str:'eq-var', str:'v1', str:'v1'], tuple[str:'eq-var', "
                               "str:'v2', str:'v2'], tuple[str:'eq-var', str:'v3', str:'v3'], "
                               "tuple[str:'eq-var', str:'w1', str:'w1'], tuple[str:'eq-var', "
                               "str:'x1', str:'x1']]",
 'eq-order/truthy-values/reflected': "list[str:'bool', bool:True]",
 'eq-order/truthy-values/reflected-log': "list[tuple[str:'eq-var', str:'v1', str:'v1'], "
                                         "tuple[str:'eq-var', str:'v2', str:'v2'], "
                                         "tuple[str:'eq-var', str:'v3', str:'v3'], "
                                         "tuple[str:'eq-var', str:'w1', str:'w1'], "
                                         "tuple[str:'eq-var', str:'x1', str:'x1']]",
 'eq-order/falsy-int': "list[str:'bool', bool:False]",
 'eq-order/falsy-int/log': "list[tuple[str:'eq-var', str:'v1', str:'v1'], tuple[str:'eq-var', "
                           "str:'v2', str:'v2']]",
 'eq-order/falsy-int/reflected': "list[str:'bool', bool:True]",
 'eq-order/falsy-int/reflected-log': "list[tuple[str:'eq-var', str:'v1', str:'v1'], "
                                     "tuple[str:'eq-var', str:'v2', str:'v2'], tuple[str:'eq-var', "
                                     "str:'v3', str:'v3'], tuple[str:'eq-var', str:'w1', "
                                     "str:'w1'], tuple[str:'eq-var', str:'x1', str:'x1']]",
 'eq-order/falsy-str': "list[str:'bool', bool:False]",
 'eq-order/falsy-str/log': "list[tuple[str:'eq-var', str:'v1', str:'v1']]",
 'eq-order/falsy-str/reflected': "list[str:'bool', bool:True]",
 'eq-order/falsy-str/reflected-log': "list[tuple[str:'eq-var', str:'v1', str:'v1'], "
                                     "tuple[str:'eq-var', str:'v2', str:'v2'], tuple[str:'eq-var', "
                                     "str:'v3', str:'v3'], tuple[str:'eq-var', str:'w1', "
                                     "str:'w1'], tuple[str:'eq-var', str:'x1', str:'x1']]",
 'eq-order/falsy-none': "list[str:'bool', bool:False]",
 'eq-order/falsy-none/log': "list[tuple[str:'eq-var', str:'v1', str:'v1'], tuple[str:'eq-var', "
                            "str:'v2', str:'v2'], tuple[str:'eq-var', str:'v3', str:'v3']]",
 'eq-order/falsy-none/reflected': "list[str:'bool', bool:True]",
 'eq-order/falsy-none/reflected-log': "list[tuple[str:'eq-var', str:'v1', str:'v1'], "
                                      "tuple[str:'eq-var', str:'v2', str:'v2'], "
                                      "tuple[str:'eq-var', str:'v3', str:'v3'], "
                                      "tuple[str:'eq-var', str:'w1', str:'w1'], "
                                      "tuple[str:'eq-var', str:'x1', str:'x1']]",
 'eq-order/falsy-np': "list[str:'bool', bool:False]",
 'eq-order/falsy-np/log': "list[tuple[str:'eq-var', str:'v1', str:'v1']]",
 'eq-order/falsy-np/reflected': "list[str:'bool', bool:True]",
 'eq-order/falsy-np/reflected-log': "list[tuple[str:'eq-var', str:'v1', str:'v1'], "
                                    "tuple[str:'eq-var', str:'v2', str:'v2'], tuple[str:'eq-var', "
                                    "str:'v3', str:'v3'], tuple[str:'eq-var', str:'w1', str:'w1'], "
                                    "tuple[str:'eq-var', str:'x1', str:'x1']]",
 'eq-order/ambiguous': 'raises ValueError: The truth value of an array with more than one element '
                       'is ambiguous. Use a.any() or a.all()',
 'eq-order/ambiguous/log': "list[tuple[str:'eq-var', str:'v1', str:'v1'], tuple[str:'eq-var', "
                           "str:'v2', str:'v2']]",
 'eq-order/ambiguous/reflected': "list[str:'bool', bool:True]",
 'eq-order/ambiguous/reflected-log': "list[tuple[str:'eq-var', str:'v1', str:'v1'], "
                                     "tuple[str:'eq-var', str:'v2', str:'v2'], tuple[str:'eq-var', "
                                     "str:'v3', str:'v3'], tuple[str:'eq-var', str:'w1', "
                                     "str:'w1'], tuple[str:'eq-var', str:'x1', str:'x1']]",
 'eq-order/not-implemented': "list[str:'bool', bool:True]",
 'eq-order/not-implemented/log': "list[tuple[str:'eq-var', str:'v1', str:'v1'], "
                                 "tuple[str:'eq-var', str:'v1', str:'v1'], tuple[str:'eq-var', "
                                 "str:'v2', str:'v2'], tuple[str:'eq-var', str:'v3', str:'v3'], "
                                 "tuple[str:'eq-var', str:'w1', str:'w1'], tuple[str:'eq-var', "
                                 "str:'x1', str:'x1']]",
 'eq-order/not-implemented/reflected': "list[str:'bool', bool:True]",
 'eq-order/not-implemented/reflected-log': "list[tuple[str:'eq-var', str:'v1', str:'v1'], "
                                           "tuple[str:'eq-var', str:'v2', str:'v2'], "
                                           "tuple[str:'eq-var', str:'v3', str:'v3'], "
                                           "tuple[str:'eq-var', str:'w1', str:'w1'], "
                                           "tuple[str:'eq-var', str:'x1', str:'x1']]",
 'eq-order/sub-differs': "list[str:'bool', bool:False]",
 'eq-order/sub-differs/log': "list[tuple[str:'eq-var', str:'v1', str:'v1'], tuple[str:'eq-var', "
                             "str:'v2', str:'v2'], tuple[str:'eq-var', str:'v3', str:'v3'], "
                             "tuple[str:'eq-var', str:'w1', str:'w1'], tuple[str:'eq-var', "
                             "str:'w2', str:'w2']]",
 'eq-order/sub-differs/reflected': "list[str:'bool', bool:True]",
 'eq-order/sub-differs/reflected-log': "list[tuple[str:'eq-var', str:'v1', str:'v1'], "
                                       "tuple[str:'eq-var', str:'v2', str:'v2'], "
                                       "tuple[str:'eq-var', str:'v3', str:'v3'], "
                                       "tuple[str:'eq-var', str:'w1', str:'w1'], "
                                       "tuple[str:'eq-var', str:'w2', str:'w2'], "
                                       "tuple[str:'eq-var', str:'w3', str:'w3'], "
                                       "tuple[str:'eq-var', str:'x1', str:'x1']]",
 'eq-order/var-and-sub-differ': "list[str:'bool', bool:False]",
 'eq-order/var-and-sub-differ/log': "list[tuple[str:'eq-var', str:'v1', str:'v1'], "
                                    "tuple[str:'eq-var', str:'v2', str:'v2'], tuple[str:'eq-var', "
                                    "str:'v3', str:'v3']]",
 'eq-order/var-and-sub-differ/reflected': "list[str:'bool', bool:True]",
 'eq-order/var-and-sub-differ/reflected-log': "list[tuple[str:'eq-var', str:'v1', str:'v1'], "
                                              "tuple[str:'eq-var', str:'v2', str:'v2'], "
                                              "tuple[str:'eq-var', str:'v3', str:'v3'], "
                                              "tuple[str:'eq-var', str:'w1', str:'w1'], "
                                              "tuple[str:'eq-var', str:'x1', str:'x1']]",
 'eq-order/other-path': "list[str:'bool', bool:False]",
 'eq-order/other-path/log': 'list[]',
 'eq-order/other-path/reflected': "list[str:'bool', bool:False]",
 'eq-order/other-path/reflected-log': 'list[]',
 'eq-order/other-url': "list[str:'bool', bool:False]",
 'eq-order/other-url/log': 'list[]',
 'eq-order/other-url/reflected': "list[str:'bool', bool:False]",
 'eq-order/other-url/reflected-log': 'list[]',
 'eq-order/other-attrs': "list[str:'bool', bool:False]",
 'eq-order/other-attrs/log': 'list[]',
 'eq-order/other-attrs/reflected': "list[str:'bool', bool:False]",
 'eq-order/other-attrs/reflected-log': 'list[]',
 'views/groups': "list[list[str:'g'], list[str:'items']]",
 'views/variables': "list[list[str:'v'], list[str:'items']]",
 'views/len': "list[int:2, list[str:'keys']]",
 'views/iter': "list[list[str:'v', str:'g'], list[str:'keys', str:'keys']]",
 'views/decouple': "list[list[str:'v'], list[str:'items']]",
 'views/subtree': "list[list[str:'/c', str:'/c/g'], list[str:'items', str:'values']]",
 'views/setitem': 'list[NoneType:None, list[]]',
 'copy/shallow': "list[bool:True, bool:True, list[tuple[str:'/', str:'s3://bucket/scene', "
                 "str:'Group', str:'dict', list[str:'z', str:'sub', str:'a', str:'sub2']], "
                 "tuple[str:'/sub', str:'s3://bucket/scene', str:'Group', str:'dict', "
                 "list[str:'inner', str:'v', str:'empty']], tuple[str:'/sub/inner', str:'other', "
                 "str:'Group', str:'dict', list[str:'t', str:'leafgroup']], "
                 "tuple[str:'/sub/inner/leafgroup', str:'other', str:'Group', str:'dict', list[]], "
                 "tuple[str:'/sub/empty', str:'s3://bucket/scene', str:'Group', str:'dict', "
                 "list[]], tuple[str:'/sub2', str:'s3://bucket/scene', str:'Group', str:'dict', "
                 "list[str:'w']]]]",
 'copy/deep': "list[bool:True, list[tuple[str:'/', str:'s3://bucket/scene', str:'Group', "
              "str:'dict', list[str:'z', str:'sub', str:'a', str:'sub2']], tuple[str:'/sub', "
              "str:'s3://bucket/scene', str:'Group', str:'dict', list[str:'inner', str:'v', "
              "str:'empty']], tuple[str:'/sub/inner', str:'other', str:'Group', str:'dict', "
              "list[str:'t', str:'leafgroup']], tuple[str:'/sub/inner/leafgroup', str:'other', "
              "str:'Group', str:'dict', list[]], tuple[str:'/sub/empty', str:'s3://bucket/scene', "
              "str:'Group', str:'dict', list[]], tuple[str:'/sub2', str:'s3://bucket/scene', "
              "str:'Group', str:'dict', list[str:'w']]]]"}
# EXPECTED-END

if __name__ == "__main__":
    if "--record" in sys.argv:
        print("EXPECTED = " + pprint.pformat(collect(), width=100, sort_dicts=False))
    else:
        n = check()
        print(f"ok: {n} cases identical to the recorded results")
