"""Equivalence check for refactoring 3 (sar_leader/platform_position.py).

Run as

    cd /tmp/wt5/e35 && PYTHONPATH=/tmp/wt5/e35 /venv/bin/python _eq/3/equiv.py

(or through pytest). EXPECTED at the bottom of this file was recorded with the
UNCHANGED code (``--record`` prints the snapshots).
"""

import collections
import json
import struct
import sys

import numpy as np

from ceos_alos2.hierarchy import Group, Variable
from ceos_alos2.sar_leader import platform_position
from ceos_alos2.utils import to_dict


def snap(obj):
    """canonical, order- and type-preserving description of a result"""
    if isinstance(obj, Group):
        return {
            "Group": [obj.path, obj.url, snap(obj.data), snap(obj.attrs)],
        }
    if isinstance(obj, Variable):
        return {"Variable": [snap(obj.dims), snap(obj.data), snap(obj.attrs)]}
    if isinstance(obj, dict):
        return {type(obj).__name__: [[snap(k), snap(v)] for k, v in obj.items()]}
    if isinstance(obj, (list, tuple)):
        return {type(obj).__name__: [snap(v) for v in obj]}
    if isinstance(obj, np.ndarray):
        return {"ndarray": [str(obj.dtype), list(obj.shape), repr(obj.tolist())]}
    return {type(obj).__name__: repr(obj)}


def run(func, *args):
    try:
        result = func(*args)
    except BaseException as e:  # noqa: B902
        return {"raises": [type(e).__name__, str(e)]}
    return {"returns": snap(result)}


def orbit_point(index, with_attrs=True):
    def value(number, units):
        return (number, {"units": units}) if with_attrs else number

    return {
        "position": {
            "x": value(1000.0 + index, "m"),
            "y": value(-2000.5 * index, "m"),
            "z": value(float(index) ** 2, "m"),
        },
        "velocity": {
            "x": value(7.5, "m/s"),
            "y": value(-0.25 * index, "m/s"),
            "z": value(1e-3 * index, "m/s"),
        },
    }


def positions_cases():
    points = [orbit_point(i) for i in range(5)]
    bare = [orbit_point(i, with_attrs=False) for i in range(3)]
    shared_units = {"units": "m"}
    return {
        "five_points": (points,),
        "one_point": (points[:1],),
        "two_points_tuple": (tuple(points[:2]),),
        "generator": (iter(points[:3]),),
        "no_attrs": (bare,),
        "mixed_attrs": ([points[0], bare[1]],),
        "empty": ([],),
        "empty_tuple": ((),),
        "uneven_sections": ([points[0], {"position": points[1]["position"]}],),
        "uneven_components": (
            [points[0], {"position": {"x": (1.0, shared_units)}, "velocity": {}}],
        ),
        "reordered": (
            [
                {"velocity": {"z": (1, {}), "x": (2, {})}, "position": {"y": (3, {})}},
                {"position": {"y": (4, {}), "w": (5, {})}, "velocity": {"x": (6, {})}},
            ],
        ),
        "different_attrs": (
            [
                {"position": {"x": (1, {"units": "m"})}},
                {"position": {"x": (2, {"units": "km"})}},
            ],
        ),
        "extra_sections": ([p | {"acceleration": {"x": (i, {})}} for i, p in enumerate(points)],),
        "empty_sections": ([{"position": {}, "velocity": {}}, {"position": {}, "velocity": {}}],),
        "ordered_dicts": (
            [collections.OrderedDict(position=collections.OrderedDict(x=(1, {"a": 1})))],
        ),
        # toolz.merge_with unpacks a single non-mapping argument
        "single_nested_list": ([points[:2]],),
        "single_nested_empty_list": ([[]],),
        "three_tuple_entries": ([{"position": {"x": (1, {}, "extra")}}],),
        # garbage
        "bad:int_element": ([5],),
        "bad:two_int_elements": ([5, 6],),
        "bad:none_element": ([None],),
        "bad:str_element": (["ab"],),
        "bad:section_not_mapping": ([{"position": 1}],),
        "bad:section_none": ([{"position": None}, {"position": None}],),
        "bad:section_str": ([{"position": "xy"}],),
        "bad:section_mixed": ([{"position": {"x": (1, {})}}, {"position": 2}],),
        "bad:elements_none": (None,),
        "bad:elements_int": (3,),
        "bad:elements_mapping": ({"position": {"x": (1, {})}},),
        "bad:entries_uneven": ([{"position": {"x": (1, {})}}, {"position": {"x": (2,)}}],),
        "bad:entries_empty_tuple": ([{"position": {"x": ()}}],),
    }


def datetime_cases():
    return {
        "plain": ({"date": "2020 10 11", "day_of_year": 285, "seconds_of_day": 62497.74},),
        "padded": ({"date": "2019  1  2", "day_of_year": 2, "seconds_of_day": 0.0},),
        "over_a_day": ({"date": "2019 12 31", "day_of_year": 365, "seconds_of_day": 86400.5},),
        "negative": ({"date": "2019 1 1", "seconds_of_day": -1},),
        "microseconds": ({"date": "2000 2 29", "seconds_of_day": 1.000001},),
        "bad:format": ({"date": "20201011", "seconds_of_day": 0},),
        "bad:empty_date": ({"date": "", "seconds_of_day": 0},),
        "bad:nan": ({"date": "2020 10 11", "seconds_of_day": float("nan")},),
        "bad:seconds_str": ({"date": "2020 10 11", "seconds_of_day": "1"},),
        "bad:missing_date": ({"seconds_of_day": 1},),
        "bad:missing_seconds": ({"date": "2020 10 11"},),
    }


def full_mapping(n_points=4):
    def vector(names, units, offset):
        return {name: (offset + i, {"units": units}) for i, name in enumerate(names)}

    xyz = ("x", "y", "z")
    tracks = ("along_track", "across_track", "radial")
    return {
        "preamble": {"record_sequence_number": 3, "record_length": 4680},
        "orbital_elements_designator": "high_precision",
        "orbital_elements": {
            "position": vector(xyz, "m", 1.5),
            "velocity": vector(xyz, "m/s", -2.5),
        },
        "number_of_data_points": n_points,
        "datetime_of_first_point": {
            "date": "2020 10 11",
            "day_of_year": 285,
            "seconds_of_day": 62437.0,
        },
        "time_interval_between_data_points": (60.0, {"units": "s"}),
        "reference_coordinate_system": "ECR",
        "greenwich_mean_hour_angle": (float("nan"), {"units": "deg"}),
        "nominal_error": {
            "position": vector(tracks, "m", 0.0),
            "velocity": vector(tracks, "m/s", 0.5),
        },
        "positions": [orbit_point(i) for i in range(n_points)],
        "blanks1": "",
        "occurrence_flag_of_a_leap_second": 0,
        "blanks2": "",
    }


def platform_position_cases():
    full = full_mapping()
    reordered = dict(reversed(list(full.items())))
    return {
        "full": (full,),
        "full_one_point": (full_mapping(1),),
        "reordered": (reordered,),
        "leap_second": (full | {"occurrence_flag_of_a_leap_second": 1},),
        "leap_second_missing_value": (full | {"occurrence_flag_of_a_leap_second": -1},),
        "empty": ({},),
        "only_ignored": ({"preamble": 1, "number_of_data_points": 2, "blanks1": "", "spare": ""},),
        "no_designator": ({k: v for k, v in full.items() if k != "orbital_elements_designator"},),
        "no_orbital_elements": ({k: v for k, v in full.items() if k != "orbital_elements"},),
        "designator_only": ({"orbital_elements_designator": "decision"},),
        "orbital_elements_with_type": (
            {"orbital_elements": {"type": "old", "a": 1}, "orbital_elements_designator": "new"},
        ),
        "translated_name_clash": (
            {"leap_second": "first", "occurrence_flag_of_a_leap_second": 2, "sampling_frequency": 1},
        ),
        "spares_in_subgroups": (
            {
                "nominal_error": {"blanks": "", "spare1": "", "spare_kept": 1, "position": {"spare": 1}},
                "positions": [{"position": {"x": (1.0, {}), "blanks3": ""}, "spare2": {}}],
            },
        ),
        "unknown_fields": ({"extra": 1, "extra_var": (2, {"u": "v"}), "extra_group": {"a": 1}},),
        "bad:mapping_none": (None,),
        "bad:mapping_list": ([("a", 1)],),
        "bad:datetime_missing_date": ({"datetime_of_first_point": {"seconds_of_day": 1.0}},),
        "bad:datetime_seconds_str": (
            {"datetime_of_first_point": {"date": "2020 1 1", "seconds_of_day": "a"}},
        ),
        "bad:datetime_none": ({"datetime_of_first_point": None},),
        "bad:positions_none": ({"positions": None},),
        "bad:positions_ints": ({"positions": [1, 2]},),
        "bad:positions_one_int": ({"positions": [1]},),
        "bad:orbital_elements_not_mapping": (
            {"orbital_elements": 1, "orbital_elements_designator": "x"},
        ),
        "bad:variable_1tuple": ({"v": (1,)},),
        "bad:first_error_wins": (
            {"positions": None, "datetime_of_first_point": None, "v": (1,)},
        ),
    }


def fixed(value, width):
    text = str(value)
    assert len(text) <= width, (text, width)
    return text.rjust(width).encode("ascii")


def number(value, width):
    return fixed(f"{value:.7E}", width)


def encode_record(designator="2", leap="1", blank_points=0, date="2020 10 11"):
    record_length = 4680
    fields = [
        struct.pack(">IBBBBI", 3, 18, 30, 18, 20, record_length),
        designator.ljust(32).encode("ascii"),
    ]
    fields.extend(number(100.0 * (i + 1), 16) for i in range(6))
    fields.append(fixed(28, 4))
    fields.extend([date.ljust(12).encode("ascii"), fixed(285, 4), number(62437.5, 22)])
    fields.append(number(60.0, 22))
    fields.append("ECR".ljust(64).encode("ascii"))
    fields.append(b" " * 22)
    fields.extend(number(0.25 * i, 16) for i in range(6))
    for index in range(28):
        if index >= 28 - blank_points:
            fields.append(b" " * (6 * 22))
            continue
        fields.extend(number((-1) ** c * (1000.0 * index + c), 22) for c in range(6))
    fields.append(b" " * 18)
    fields.append(leap.encode("ascii"))
    fields.append(b" " * 579)
    data = b"".join(fields)
    assert len(data) == record_length, len(data)
    return data


def parsed_cases():
    return {
        "high_precision": encode_record(),
        "preliminary_no_leap": encode_record(designator="0", leap="0"),
        "decision_blank_leap": encode_record(designator="1", leap=" "),
        "unknown_designator": encode_record(designator="7"),
        "blank_points": encode_record(blank_points=5),
        "bad:blank_date": encode_record(date=""),
    }


def parse_and_transform(data):
    record = platform_position.platform_position_record.parse(data)

    return platform_position.transform_platform_position(to_dict(record))


def collect():
    results = {}
    for name, args in positions_cases().items():
        results[f"transform_positions/{name}"] = run(platform_position.transform_positions, *args)
    for name, args in datetime_cases().items():
        results[f"transform_composite_datetime/{name}"] = run(
            platform_position.transform_composite_datetime, *args
        )
    for name, args in platform_position_cases().items():
        results[f"transform_platform_position/{name}"] = run(
            platform_position.transform_platform_position, *args
        )
    for name, data in parsed_cases().items():
        results[f"parsed/{name}"] = run(parse_and_transform, data)

    # inputs are left alone, repeated calls give the same result
    elements = [orbit_point(i) for i in range(3)]
    before = json.dumps(snap(elements))
    first = platform_position.transform_positions(elements)
    second = platform_position.transform_positions(elements)
    results["transform_positions/input_unchanged"] = before == json.dumps(snap(elements))
    results["transform_positions/repeatable"] = snap(first) == snap(second)

    mapping = full_mapping()
    before = json.dumps(snap(mapping))
    first_group = platform_position.transform_platform_position(mapping)
    second_group = platform_position.transform_platform_position(mapping)
    results["transform_platform_position/input_unchanged"] = before == json.dumps(snap(mapping))
    results["transform_platform_position/repeatable"] = snap(first_group) == snap(second_group)

    # object identity: which objects are shared between the produced variables
    units = {"units": "m"}
    elements = [{"position": {"x": (1.0, units), "y": (2.0, units)}, "velocity": {"x": (3.0, units)}}]
    out = platform_position.transform_positions(elements)
    other = platform_position.transform_positions(elements)
    results["transform_positions/identity"] = [
        out["position"]["x"][0] is out["position"]["y"][0],
        out["position"]["x"][0] is out["velocity"]["x"][0],
        out["position"]["x"][0] is other["position"]["x"][0],
        out["position"]["x"][2] is units,
        type(out["position"]["x"]).__name__,
        type(out["position"]["x"][0]).__name__,
        type(out["position"]["x"][1]).__name__,
        type(out).__name__,
        type(out["position"]).__name__,
    ]

    return results


def test_equivalence():
    actual = collect()
    expected = json.loads(EXPECTED)
    assert list(actual) == list(expected)
    for name in expected:
        assert actual[name] == expected[name], name


EXPECTED = r"""
{
 "transform_positions/five_points": {
  "returns": {
   "dict": [
    [
     {
      "str": "'position'"
     },
     {
      "dict": [
       [
        {
         "str": "'x'"
        },
        {
         "tuple": [
          {
           "list": [
            {
             "str": "'positions'"
            }
           ]
          },
          {
           "list": [
            {
             "float": "1000.0"
            },
            {
             "float": "1001.0"
            },
            {
             "float": "1002.0"
            },
            {
             "float": "1003.0"
            },
            {
             "float": "1004.0"
            }
           ]
          },
          {
           "dict": [
            [
             {
              "str": "'units'"
             },
             {
              "str": "'m'"
             }
            ]
           ]
          }
         ]
        }
       ],
       [
        {
         "str": "'y'"
        },
        {
         "tuple": [
          {
           "list": [
            {
             "str": "'positions'"
            }
           ]
          },
          {
           "list": [
            {
             "float": "-0.0"
            },
            {
             "float": "-2000.5"
            },
            {
             "float": "-4001.0"
            },
            {
             "float": "-6001.5"
            },
            {
             "float": "-8002.0"
            }
           ]
          },
          {
           "dict": [
            [
             {
              "str": "'units'"
             },
             {
              "str": "'m'"
             }
            ]
           ]
          }
         ]
        }
       ],
       [
        {
         "str": "'z'"
        },
        {
         "tuple": [
          {
           "list": [
            {
             "str": "'positions'"
            }
           ]
          },
          {
           "list": [
            {
             "float": "0.0"
            },
            {
             "float": "1.0"
            },
            {
             "float": "4.0"
            },
            {
             "float": "9.0"
            },
            {
             "float": "16.0"
            }
           ]
          },
          {
           "dict": [
            [
             {
              "str": "'units'"
             },
             {
              "str": "'m'"
             }
            ]
           ]
          }
         ]
        }
       ]
      ]
     }
    ],
    [
     {
      "str": "'velocity'"
     },
     {
      "dict": [
       [
        {
         "str": "'x'"
        },
        {
         "tuple": [
          {
           "list": [
            {
             "str": "'positions'"
            }
           ]
          },
          {
           "list": [
            {
             "float": "7.5"
            },
            {
             "float": "7.5"
            },
            {
             "float": "7.5"
            },
            {
             "float": "7.5"
            },
            {
             "float": "7.5"
            }
           ]
          },
          {
           "dict": [
            [
             {
              "str": "'units'"
             },
             {
              "str": "'m/s'"
             }
            ]
           ]
          }
         ]
        }
       ],
       [
        {
         "str": "'y'"
        },
        {
         "tuple": [
          {
           "list": [
            {
             "str": "'positions'"
            }
           ]
          },
          {
           "list": [
            {
             "float": "-0.0"
            },
            {
             "float": "-0.25"
            },
            {
             "float": "-0.5"
            },
            {
             "float": "-0.75"
            },
            {
             "float": "-1.0"
            }
           ]
          },
          {
           "dict": [
            [
             {
              "str": "'units'"
             },
             {
              "str": "'m/s'"
             }
            ]
           ]
          }
         ]
        }
       ],
       [
        {
         "str": "'z'"
        },
        {
         "tuple": [
          {
           "list": [
            {
             "str": "'positions'"
            }
           ]
          },
          {
           "list": [
            {
             "float": "0.0"
            },
            {
             "float": "0.001"
            },
            {
             "float": "0.002"
            },
            {
             "float": "0.003"
            },
            {
             "float": "0.004"
            }
           ]
          },
          {
           "dict": [
            [
             {
              "str": "'units'"
             },
             {
              "str": "'m/s'"
             }
            ]
           ]
          }
         ]
        }
       ]
      ]
     }
    ]
   ]
  }
 },
 "transform_positions/one_point": {
  "returns": {
   "dict": [
    [
     {
      "str": "'position'"
     },
     {
      "dict": [
       [
        {
         "str": "'x'"
        },
        {
         "tuple": [
          {
           "list": [
            {
             "str": "'positions'"
            }
           ]
          },
          {
           "list": [
            {
             "float": "1000.0"
            }
           ]
          },
          {
           "dict": [
            [
             {
              "str": "'units'"
             },
             {
              "str": "'m'"
             }
            ]
           ]
          }
         ]
        }
       ],
       [
        {
         "str": "'y'"
        },
        {
         "tuple": [
          {
           "list": [
            {
             "str": "'positions'"
            }
           ]
          },
          {
           "list": [
            {
             "float": "-0.0"
            }
           ]
          },
          {
           "dict": [
            [
             {
              "str": "'units'"
             },
             {
              "str": "'m'"
             }
            ]
           ]
          }
         ]
        }
       ],
       [
        {
         "str": "'z'"
        },
        {
         "tuple": [
          {
           "list": [
            {
             "str": "'positions'"
            }
           ]
          },
          {
           "list": [
            {
             "float": "0.0"
            }
           ]
          },
          {
           "dict": [
            [
             {
              "str": "'units'"
             },
             {
              "str": "'m'"
             }
            ]
           ]
          }
         ]
        }
       ]
      ]
     }
    ],
    [
     {
      "str": "'velocity'"
     },
     {
      "dict": [
       [
        {
         "str": "'x'"
        },
        {
         "tuple": [
          {
           "list": [
            {
             "str": "'positions'"
            }
           ]
          },
          {
           "list": [
            {
             "float": "7.5"
            }
           ]
          },
          {
           "dict": [
            [
             {
              "str": "'units'"
             },
             {
              "str": "'m/s'"
             }
            ]
           ]
          }
         ]
        }
       ],
       [
        {
         "str": "'y'"
        },
        {
         "tuple": [
          {
           "list": [
            {
             "str": "'positions'"
            }
           ]
          },
          {
           "list": [
            {
             "float": "-0.0"
            }
           ]
          },
          {
           "dict": [
            [
             {
              "str": "'units'"
             },
             {
              "str": "'m/s'"
             }
            ]
           ]
          }
         ]
        }
       ],
       [
        {
         "str": "'z'"
        },
        {
         "tuple": [
          {
           "list": [
            {
             "str": "'positions'"
            }
           ]
          },
          {
           "list": [
            {
             "float": "0.0"
            }
           ]
          },
          {
           "dict": [
            [
             {
              "str": "'units'"
             },
             {
              "str": "'m/s'"
             }
            ]
           ]
          }
         ]
        }
       ]
      ]
     }
    ]
   ]
  }
 },
 "transform_positions/two_points_tuple": {
  "returns": {
   "dict": [
    [
     {
      "str": "'position'"
     },
     {
      "dict": [
       [
        {
         "str": "'x'"
        },
        {
         "tuple": [
          {
           "list": [
            {
             "str": "'positions'"
            }
           ]
          },
          {
           "list": [
            {
             "float": "1000.0"
            },
            {
             "float": "1001.0"
            }
           ]
          },
          {
           "dict": [
            [
             {
              "str": "'units'"
             },
             {
              "str": "'m'"
             }
            ]
           ]
          }
         ]
        }
       ],
       [
        {
         "str": "'y'"
        },
        {
         "tuple": [
          {
           "list": [
            {
             "str": "'positions'"
            }
           ]
          },
          {
           "list": [
            {
             "float": "-0.0"
            },
            {
             "float": "-2000.5"
            }
           ]
          },
          {
           "dict": [
            [
             {
              "str": "'units'"
             },
             {
              "str": "'m'"
             }
            ]
           ]
          }
         ]
        }
       ],
       [
        {
         "str": "'z'"
        },
        {
         "tuple": [
          {
           "list": [
            {
             "str": "'positions'"
            }
           ]
          },
          {
           "list": [
            {
             "float": "0.0"
            },
            {
             "float": "1.0"
            }
           ]
          },
          {
           "dict": [
            [
             {
              "str": "'units'"
             },
             {
              "str": "'m'"
             }
            ]
           ]
          }
         ]
        }
       ]
      ]
     }
    ],
    [
     {
      "str": "'velocity'"
     },
     {
      "dict": [
       [
        {
         "str": "'x'"
        },
        {
         "tuple": [
          {
           "list": [
            {
             "str": "'positions'"
            }
           ]
          },
          {
           "list": [
            {
             "float": "7.5"
            },
            {
             "float": "7.5"
            }
           ]
          },
          {
           "dict": [
            [
             {
              "str": "'units'"
             },
             {
              "str": "'m/s'"
             }
            ]
           ]
          }
         ]
        }
       ],
       [
        {
         "str": "'y'"
        },
        {
         "tuple": [
          {
           "list": [
            {
             "str": "'positions'"
            }
           ]
          },
          {
           "list": [
            {
             "float": "-0.0"
            },
            {
             "float": "-0.25"
            }
           ]
          },
          {
           "dict": [
            [
             {
              "str": "'units'"
             },
             {
              "str": "'m/s'"
             }
            ]
           ]
          }
         ]
        }
       ],
       [
        {
         "str": "'z'"
        },
        {
         "tuple": [
          {
           "list": [
            {
             "str": "'positions'"
            }
           ]
          },
          {
           "list": [
            {
             "float": "0.0"
            },
            {
             "float": "0.001"
            }
           ]
          },
          {
           "dict": [
            [
             {
              "str": "'units'"
             },
             {
              "str": "'m/s'"
             }
            ]
           ]
          }
         ]
        }
       ]
      ]
     }
    ]
   ]
  }
 },
 "transform_positions/generator": {
  "returns": {
   "dict": [
    [
     {
      "str": "'position'"
     },
     {
      "dict": [
       [
        {
         "str": "'x'"
        },
        {
         "tuple": [
          {
           "list": [
            {
             "str": "'positions'"
            }
           ]
          },
          {
           "list": [
            {
             "float": "1000.0"
            },
            {
             "float": "1001.0"
            },
            {
             "float": "1002.0"
            }
           ]
          },
          {
           "dict": [
            [
             {
              "str": "'units'"
             },
             {
              "str": "'m'"
             }
            ]
           ]
          }
         ]
        }
       ],
       [
        {
         "str": "'y'"
        },
        {
         "tuple": [
          {
           "list": [
            {
             "str": "'positions'"
            }
           ]
          },
          {
           "list": [
            {
             "float": "-0.0"
            },
            {
             "float": "-2000.5"
            },
            {
             "float": "-4001.0"
            }
           ]
          },
          {
           "dict": [
            [
             {
              "str": "'units'"
             },
             {
              "str": "'m'"
             }
            ]
           ]
          }
         ]
        }
       ],
       [
        {
         "str": "'z'"
        },
        {
         "tuple": [
          {
           "list": [
            {
             "str": "'positions'"
            }
           ]
          },
          {
           "list": [
            {
             "float": "0.0"
            },
            {
             "float": "1.0"
            },
            {
             "float": "4.0"
            }
           ]
          },
          {
           "dict": [
            [
             {
              "str": "'units'"
             },
             {
              "str": "'m'"
             }
            ]
           ]
          }
         ]
        }
       ]
      ]
     }
    ],
    [
     {
      "str": "'velocity'"
     },
     {
      "dict": [
       [
        {
         "str": "'x'"
        },
        {
         "tuple": [
          {
           "list": [
            {
             "str": "'positions'"
            }
           ]
          },
          {
           "list": [
            {
             "float": "7.5"
            },
            {
             "float": "7.5"
            },
            {
             "float": "7.5"
            }
           ]
          },
          {
           "dict": [
            [
             {
              "str": "'units'"
             },
             {
              "str": "'m/s'"
             }
            ]
           ]
          }
         ]
        }
       ],
       [
        {
         "str": "'y'"
        },
        {
         "tuple": [
          {
           "list": [
            {
             "str": "'positions'"
            }
           ]
          },
          {
           "list": [
            {
             "float": "-0.0"
            },
            {
             "float": "-0.25"
            },
            {
             "float": "-0.5"
            }
           ]
          },
          {
           "dict": [
            [
             {
              "str": "'units'"
             },
             {
              "str": "'m/s'"
             }
            ]
           ]
          }
         ]
        }
       ],
       [
        {
         "str": "'z'"
        },
        {
         "tuple": [
          {
           "list": [
            {
             "str": "'positions'"
            }
           ]
          },
          {
           "list": [
            {
             "float": "0.0"
            },
            {
             "float": "0.001"
            },
            {
             "float": "0.002"
            }
           ]
          },
          {
           "dict": [
            [
             {
              "str": "'units'"
             },
             {
              "str": "'m/s'"
             }
            ]
           ]
          }
         ]
        }
       ]
      ]
     }
    ]
   ]
  }
 },
 "transform_positions/no_attrs": {
  "returns": {
   "dict": [
    [
     {
      "str": "'position'"
     },
     {
      "dict": [
       [
        {
         "str": "'x'"
        },
        {
         "tuple": [
          {
           "list": [
            {
             "str": "'positions'"
            }
           ]
          },
          {
           "list": [
            {
             "float": "1000.0"
            },
            {
             "float": "1001.0"
            },
            {
             "float": "1002.0"
            }
           ]
          },
          {
           "dict": []
          }
         ]
        }
       ],
       [
        {
         "str": "'y'"
        },
        {
         "tuple": [
          {
           "list": [
            {
             "str": "'positions'"
            }
           ]
          },
          {
           "list": [
            {
             "float": "-0.0"
            },
            {
             "float": "-2000.5"
            },
            {
             "float": "-4001.0"
            }
           ]
          },
          {
           "dict": []
          }
         ]
        }
       ],
       [
        {
         "str": "'z'"
        },
        {
         "tuple": [
          {
           "list": [
            {
             "str": "'positions'"
            }
           ]
          },
          {
           "list": [
            {
             "float": "0.0"
            },
            {
             "float": "1.0"
            },
            {
             "float": "4.0"
            }
           ]
          },
          {
           "dict": []
          }
         ]
        }
       ]
      ]
     }
    ],
    [
     {
      "str": "'velocity'"
     },
     {
      "dict": [
       [
        {
         "str": "'x'"
        },
        {
         "tuple": [
          {
           "list": [
            {
             "str": "'positions'"
            }
           ]
          },
          {
           "list": [
            {
             "float": "7.5"
            },
            {
             "float": "7.5"
            },
            {
             "float": "7.5"
            }
           ]
          },
          {
           "dict": []
          }
         ]
        }
       ],
       [
        {
         "str": "'y'"
        },
        {
         "tuple": [
          {
           "list": [
            {
             "str": "'positions'"
            }
           ]
          },
          {
           "list": [
            {
             "float": "-0.0"
            },
            {
             "float": "-0.25"
            },
            {
             "float": "-0.5"
            }
           ]
          },
          {
           "dict": []
          }
         ]
        }
       ],
       [
        {
         "str": "'z'"
        },
        {
         "tuple": [
          {
           "list": [
            {
             "str": "'positions'"
            }
           ]
          },
          {
           "list": [
            {
             "float": "0.0"
            },
            {
             "float": "0.001"
            },
            {
             "float": "0.002"
            }
           ]
          },
          {
           "dict": []
          }
         ]
        }
       ]
      ]
     }
    ]
   ]
  }
 },
 "transform_positions/mixed_attrs": {
  "raises": [
   "TypeError",
   "'float' object is not iterable"
  ]
 },
 "transform_positions/empty": {
  "returns": {
   "dict": []
  }
 },
 "transform_positions/empty_tuple": {
  "returns": {
   "dict": []
  }
 },
 "transform_positions/uneven_sections": {
  "returns": {
   "dict": [
    [
     {
      "str": "'position'"
     },
     {
      "dict": [
       [
        {
         "str": "'x'"
        },
        {
         "tuple": [
          {
           "list": [
            {
             "str": "'positions'"
            }
           ]
          },
          {
           "list": [
            {
             "float": "1000.0"
            },
            {
             "float": "1001.0"
            }
           ]
          },
          {
           "dict": [
            [
             {
              "str": "'units'"
             },
             {
              "str": "'m'"
             }
            ]
           ]
          }
         ]
        }
       ],
       [
        {
         "str": "'y'"
        },
        {
         "tuple": [
          {
           "list": [
            {
             "str": "'positions'"
            }
           ]
          },
          {
           "list": [
            {
             "float": "-0.0"
            },
            {
             "float": "-2000.5"
            }
           ]
          },
          {
           "dict": [
            [
             {
              "str": "'units'"
             },
             {
              "str": "'m'"
             }
            ]
           ]
          }
         ]
        }
       ],
       [
        {
         "str": "'z'"
        },
        {
         "tuple": [
          {
           "list": [
            {
             "str": "'positions'"
            }
           ]
          },
          {
           "list": [
            {
             "float": "0.0"
            },
            {
             "float": "1.0"
            }
           ]
          },
          {
           "dict": [
            [
             {
              "str": "'units'"
             },
             {
              "str": "'m'"
             }
            ]
           ]
          }
         ]
        }
       ]
      ]
     }
    ],
    [
     {
      "str": "'velocity'"
     },
     {
      "dict": [
       [
        {
         "str": "'x'"
        },
        {
         "tuple": [
          {
           "list": [
            {
             "str": "'positions'"
            }
           ]
          },
          {
           "list": [
            {
             "float": "7.5"
            }
           ]
          },
          {
           "dict": [
            [
             {
              "str": "'units'"
             },
             {
              "str": "'m/s'"
             }
            ]
           ]
          }
         ]
        }
       ],
       [
        {
         "str": "'y'"
        },
        {
         "tuple": [
          {
           "list": [
            {
             "str": "'positions'"
            }
           ]
          },
          {
           "list": [
            {
             "float": "-0.0"
            }
           ]
          },
          {
           "dict": [
            [
             {
              "str": "'units'"
             },
             {
              "str": "'m/s'"
             }
            ]
           ]
          }
         ]
        }
       ],
       [
        {
         "str": "'z'"
        },
        {
         "tuple": [
          {
           "list": [
            {
             "str": "'positions'"
            }
           ]
          },
          {
           "list": [
            {
             "float": "0.0"
            }
           ]
          },
          {
           "dict": [
            [
             {
              "str": "'units'"
             },
             {
              "str": "'m/s'"
             }
            ]
           ]
          }
         ]
        }
       ]
      ]
     }
    ]
   ]
  }
 },
 "transform_positions/uneven_components": {
  "returns": {
   "dict": [
    [
     {
      "str": "'position'"
     },
     {
      "dict": [
       [
        {
         "str": "'x'"
        },
        {
         "tuple": [
          {
           "list": [
            {
             "str": "'positions'"
            }
           ]
          },
          {
           "list": [
            {
             "float": "1000.0"
            },
            {
             "float": "1.0"
            }
           ]
          },
          {
           "dict": [
            [
             {
              "str": "'units'"
             },
             {
              "str": "'m'"
             }
            ]
           ]
          }
         ]
        }
       ],
       [
        {
         "str": "'y'"
        },
        {
         "tuple": [
          {
           "list": [
            {
             "str": "'positions'"
            }
           ]
          },
          {
           "list": [
            {
             "float": "-0.0"
            }
           ]
          },
          {
           "dict": [
            [
             {
              "str": "'units'"
             },
             {
              "str": "'m'"
             }
            ]
           ]
          }
         ]
        }
       ],
       [
        {
         "str": "'z'"
        },
        {
         "tuple": [
          {
           "list": [
            {
             "str": "'positions'"
            }
           ]
          },
          {
           "list": [
            {
             "float": "0.0"
            }
           ]
          },
          {
           "dict": [
            [
             {
              "str": "'units'"
             },
             {
              "str": "'m'"
             }
            ]
           ]
          }
         ]
        }
       ]
      ]
     }
    ],
    [
     {
      "str": "'velocity'"
     },
     {
      "dict": [
       [
        {
         "str": "'x'"
        },
        {
         "tuple": [
          {
           "list": [
            {
             "str": "'positions'"
            }
           ]
          },
          {
           "list": [
            {
             "float": "7.5"
            }
           ]
          },
          {
           "dict": [
            [
             {
              "str": "'units'"
             },
             {
              "str": "'m/s'"
             }
            ]
           ]
          }
         ]
        }
       ],
       [
        {
         "str": "'y'"
        },
        {
         "tuple": [
          {
           "list": [
            {
             "str": "'positions'"
            }
           ]
          },
          {
           "list": [
            {
             "float": "-0.0"
            }
           ]
          },
          {
           "dict": [
            [
             {
              "str": "'units'"
             },
             {
              "str": "'m/s'"
             }
            ]
           ]
          }
         ]
        }
       ],
       [
        {
         "str": "'z'"
        },
        {
         "tuple": [
          {
           "list": [
            {
             "str": "'positions'"
            }
           ]
          },
          {
           "list": [
            {
             "float": "0.0"
            }
           ]
          },
          {
           "dict": [
            [
             {
              "str": "'units'"
             },
             {
              "str": "'m/s'"
             }
            ]
           ]
          }
         ]
        }
       ]
      ]
     }
    ]
   ]
  }
 },
 "transform_positions/reordered": {
  "returns": {
   "dict": [
    [
     {
      "str": "'velocity'"
     },
     {
      "dict": [
       [
        {
         "str": "'z'"
        },
        {
         "tuple": [
          {
           "list": [
            {
             "str": "'positions'"
            }
           ]
          },
          {
           "list": [
            {
             "int": "1"
            }
           ]
          },
          {
           "dict": []
          }
         ]
        }
       ],
       [
        {
         "str": "'x'"
        },
        {
         "tuple": [
          {
           "list": [
            {
             "str": "'positions'"
            }
           ]
          },
          {
           "list": [
            {
             "int": "2"
            },
            {
             "int": "6"
            }
           ]
          },
          {
           "dict": []
          }
         ]
        }
       ]
      ]
     }
    ],
    [
     {
      "str": "'position'"
     },
     {
      "dict": [
       [
        {
         "str": "'y'"
        },
        {
         "tuple": [
          {
           "list": [
            {
             "str": "'positions'"
            }
           ]
          },
          {
           "list": [
            {
             "int": "3"
            },
            {
             "int": "4"
            }
           ]
          },
          {
           "dict": []
          }
         ]
        }
       ],
       [
        {
         "str": "'w'"
        },
        {
         "tuple": [
          {
           "list": [
            {
             "str": "'positions'"
            }
           ]
          },
          {
           "list": [
            {
             "int": "5"
            }
           ]
          },
          {
           "dict": []
          }
         ]
        }
       ]
      ]
     }
    ]
   ]
  }
 },
 "transform_positions/different_attrs": {
  "returns": {
   "dict": [
    [
     {
      "str": "'position'"
     },
     {
      "dict": [
       [
        {
         "str": "'x'"
        },
        {
         "tuple": [
          {
           "list": [
            {
             "str": "'positions'"
            }
           ]
          },
          {
           "list": [
            {
             "int": "1"
            },
            {
             "int": "2"
            }
           ]
          },
          {
           "dict": [
            [
             {
              "str": "'units'"
             },
             {
              "str": "'m'"
             }
            ]
           ]
          }
         ]
        }
       ]
      ]
     }
    ]
   ]
  }
 },
 "transform_positions/extra_sections": {
  "returns": {
   "dict": [
    [
     {
      "str": "'position'"
     },
     {
      "dict": [
       [
        {
         "str": "'x'"
        },
        {
         "tuple": [
          {
           "list": [
            {
             "str": "'positions'"
            }
           ]
          },
          {
           "list": [
            {
             "float": "1000.0"
            },
            {
             "float": "1001.0"
            },
            {
             "float": "1002.0"
            },
            {
             "float": "1003.0"
            },
            {
             "float": "1004.0"
            }
           ]
          },
          {
           "dict": [
            [
             {
              "str": "'units'"
             },
             {
              "str": "'m'"
             }
            ]
           ]
          }
         ]
        }
       ],
       [
        {
         "str": "'y'"
        },
        {
         "tuple": [
          {
           "list": [
            {
             "str": "'positions'"
            }
           ]
          },
          {
           "list": [
            {
             "float": "-0.0"
            },
            {
             "float": "-2000.5"
            },
            {
             "float": "-4001.0"
            },
            {
             "float": "-6001.5"
            },
            {
             "float": "-8002.0"
            }
           ]
          },
          {
           "dict": [
            [
             {
              "str": "'units'"
             },
             {
              "str": "'m'"
             }
            ]
           ]
          }
         ]
        }
       ],
       [
        {
         "str": "'z'"
        },
        {
         "tuple": [
          {
           "list": [
            {
             "str": "'positions'"
            }
           ]
          },
          {
           "list": [
            {
             "float": "0.0"
            },
            {
             "float": "1.0"
            },
            {
             "float": "4.0"
            },
            {
             "float": "9.0"
            },
            {
             "float": "16.0"
            }
           ]
          },
          {
           "dict": [
            [
             {
              "str": "'units'"
             },
             {
              "str": "'m'"
             }
            ]
           ]
          }
         ]
        }
       ]
      ]
     }
    ],
    [
     {
      "str": "'velocity'"
     },
     {
      "dict": [
       [
        {
         "str": "'x'"
        },
        {
         "tuple": [
          {
           "list": [
            {
             "str": "'positions'"
            }
           ]
          },
          {
           "list": [
            {
             "float": "7.5"
            },
            {
             "float": "7.5"
            },
            {
             "float": "7.5"
            },
            {
             "float": "7.5"
            },
            {
             "float": "7.5"
            }
           ]
          },
          {
           "dict": [
            [
             {
              "str": "'units'"
             },
             {
              "str": "'m/s'"
             }
            ]
           ]
          }
         ]
        }
       ],
       [
        {
         "str": "'y'"
        },
        {
         "tuple": [
          {
           "list": [
            {
             "str": "'positions'"
            }
           ]
          },
          {
           "list": [
            {
             "float": "-0.0"
            },
            {
             "float": "-0.25"
            },
            {
             "float": "-0.5"
            },
            {
             "float": "-0.75"
            },
            {
             "float": "-1.0"
            }
           ]
          },
          {
           "dict": [
            [
             {
              "str": "'units'"
             },
             {
              "str": "'m/s'"
             }
            ]
           ]
          }
         ]
        }
       ],
       [
        {
         "str": "'z'"
        },
        {
         "tuple": [
          {
           "list": [
            {
             "str": "'positions'"
            }
           ]
          },
          {
           "list": [
            {
             "float": "0.0"
            },
            {
             "float": "0.001"
            },
            {
             "float": "0.002"
            },
            {
             "float": "0.003"
            },
            {
             "float": "0.004"
            }
           ]
          },
          {
           "dict": [
            [
             {
              "str": "'units'"
             },
             {
              "str": "'m/s'"
             }
            ]
           ]
          }
         ]
        }
       ]
      ]
     }
    ],
    [
     {
      "str": "'acceleration'"
     },
     {
      "dict": [
       [
        {
         "str": "'x'"
        },
        {
         "tuple": [
          {
           "list": [
            {
             "str": "'positions'"
            }
           ]
          },
          {
           "list": [
            {
             "int": "0"
            },
            {
             "int": "1"
            },
            {
             "int": "2"
            },
            {
             "int": "3"
            },
            {
             "int": "4"
            }
           ]
          },
          {
           "dict": []
          }
         ]
        }
       ]
      ]
     }
    ]
   ]
  }
 },
 "transform_positions/empty_sections": {
  "returns": {
   "dict": [
    [
     {
      "str": "'position'"
     },
     {
      "dict": []
     }
    ],
    [
     {
      "str": "'velocity'"
     },
     {
      "dict": []
     }
    ]
   ]
  }
 },
 "transform_positions/ordered_dicts": {
  "returns": {
   "dict": [
    [
     {
      "str": "'position'"
     },
     {
      "dict": [
       [
        {
         "str": "'x'"
        },
        {
         "tuple": [
          {
           "list": [
            {
             "str": "'positions'"
            }
           ]
          },
          {
           "list": [
            {
             "int": "1"
            }
           ]
          },
          {
           "dict": [
            [
             {
              "str": "'a'"
             },
             {
              "int": "1"
             }
            ]
           ]
          }
         ]
        }
       ]
      ]
     }
    ]
   ]
  }
 },
 "transform_positions/single_nested_list": {
  "returns": {
   "dict": [
    [
     {
      "str": "'position'"
     },
     {
      "dict": [
       [
        {
         "str": "'x'"
        },
        {
         "tuple": [
          {
           "list": [
            {
             "str": "'positions'"
            }
           ]
          },
          {
           "list": [
            {
             "float": "1000.0"
            },
            {
             "float": "1001.0"
            }
           ]
          },
          {
           "dict": [
            [
             {
              "str": "'units'"
             },
             {
              "str": "'m'"
             }
            ]
           ]
          }
         ]
        }
       ],
       [
        {
         "str": "'y'"
        },
        {
         "tuple": [
          {
           "list": [
            {
             "str": "'positions'"
            }
           ]
          },
          {
           "list": [
            {
             "float": "-0.0"
            },
            {
             "float": "-2000.5"
            }
           ]
          },
          {
           "dict": [
            [
             {
              "str": "'units'"
             },
             {
              "str": "'m'"
             }
            ]
           ]
          }
         ]
        }
       ],
       [
        {
         "str": "'z'"
        },
        {
         "tuple": [
          {
           "list": [
            {
             "str": "'positions'"
            }
           ]
          },
          {
           "list": [
            {
             "float": "0.0"
            },
            {
             "float": "1.0"
            }
           ]
          },
          {
           "dict": [
            [
             {
              "str": "'units'"
             },
             {
              "str": "'m'"
             }
            ]
           ]
          }
         ]
        }
       ]
      ]
     }
    ],
    [
     {
      "str": "'velocity'"
     },
     {
      "dict": [
       [
        {
         "str": "'x'"
        },
        {
         "tuple": [
          {
           "list": [
            {
             "str": "'positions'"
            }
           ]
          },
          {
           "list": [
            {
             "float": "7.5"
            },
            {
             "float": "7.5"
            }
           ]
          },
          {
           "dict": [
            [
             {
              "str": "'units'"
             },
             {
              "str": "'m/s'"
             }
            ]
           ]
          }
         ]
        }
       ],
       [
        {
         "str": "'y'"
        },
        {
         "tuple": [
          {
           "list": [
            {
             "str": "'positions'"
            }
           ]
          },
          {
           "list": [
            {
             "float": "-0.0"
            },
            {
             "float": "-0.25"
            }
           ]
          },
          {
           "dict": [
            [
             {
              "str": "'units'"
             },
             {
              "str": "'m/s'"
             }
            ]
           ]
          }
         ]
        }
       ],
       [
        {
         "str": "'z'"
        },
        {
         "tuple": [
          {
           "list": [
            {
             "str": "'positions'"
            }
           ]
          },
          {
           "list": [
            {
             "float": "0.0"
            },
            {
             "float": "0.001"
            }
           ]
          },
          {
           "dict": [
            [
             {
              "str": "'units'"
             },
             {
              "str": "'m/s'"
             }
            ]
           ]
          }
         ]
        }
       ]
      ]
     }
    ]
   ]
  }
 },
 "transform_positions/single_nested_empty_list": {
  "returns": {
   "dict": []
  }
 },
 "transform_positions/three_tuple_entries": {
  "raises": [
   "ValueError",
   "too many values to unpack (expected 2)"
  ]
 },
 "transform_positions/bad:int_element": {
  "raises": [
   "AttributeError",
   "'curry' object has no attribute 'keys'"
  ]
 },
 "transform_positions/bad:two_int_elements": {
  "raises": [
   "AttributeError",
   "'int' object has no attribute 'items'"
  ]
 },
 "transform_positions/bad:none_element": {
  "raises": [
   "AttributeError",
   "'curry' object has no attribute 'keys'"
  ]
 },
 "transform_positions/bad:str_element": {
  "raises": [
   "AttributeError",
   "'str' object has no attribute 'items'"
  ]
 },
 "transform_positions/bad:section_not_mapping": {
  "raises": [
   "AttributeError",
   "'curry' object has no attribute 'keys'"
  ]
 },
 "transform_positions/bad:section_none": {
  "raises": [
   "AttributeError",
   "'NoneType' object has no attribute 'items'"
  ]
 },
 "transform_positions/bad:section_str": {
  "raises": [
   "AttributeError",
   "'str' object has no attribute 'items'"
  ]
 },
 "transform_positions/bad:section_mixed": {
  "raises": [
   "AttributeError",
   "'int' object has no attribute 'items'"
  ]
 },
 "transform_positions/bad:elements_none": {
  "raises": [
   "TypeError",
   "toolz.dicttoolz.merge_with() argument after * must be an iterable, not NoneType"
  ]
 },
 "transform_positions/bad:elements_int": {
  "raises": [
   "TypeError",
   "toolz.dicttoolz.merge_with() argument after * must be an iterable, not int"
  ]
 },
 "transform_positions/bad:elements_mapping": {
  "raises": [
   "AttributeError",
   "'str' object has no attribute 'items'"
  ]
 },
 "transform_positions/bad:entries_uneven": {
  "raises": [
   "ValueError",
   "not enough values to unpack (expected 2, got 1)"
  ]
 },
 "transform_positions/bad:entries_empty_tuple": {
  "raises": [
   "ValueError",
   "not enough values to unpack (expected 2, got 0)"
  ]
 },
 "transform_composite_datetime/plain": {
  "returns": {
   "str": "'2020-10-11T17:21:37.740000'"
  }
 },
 "transform_composite_datetime/padded": {
  "returns": {
   "str": "'2019-01-02T00:00:00'"
  }
 },
 "transform_composite_datetime/over_a_day": {
  "returns": {
   "str": "'2020-01-01T00:00:00.500000'"
  }
 },
 "transform_composite_datetime/negative": {
  "returns": {
   "str": "'2018-12-31T23:59:59'"
  }
 },
 "transform_composite_datetime/microseconds": {
  "returns": {
   "str": "'2000-02-29T00:00:01.000001'"
  }
 },
 "transform_composite_datetime/bad:format": {
  "raises": [
   "ValueError",
   "time data '20201011' does not match format '%Y-%m-%d'"
  ]
 },
 "transform_composite_datetime/bad:empty_date": {
  "raises": [
   "ValueError",
   "time data '' does not match format '%Y-%m-%d'"
  ]
 },
 "transform_composite_datetime/bad:nan": {
  "raises": [
   "ValueError",
   "cannot convert float NaN to integer"
  ]
 },
 "transform_composite_datetime/bad:seconds_str": {
  "raises": [
   "TypeError",
   "unsupported type for timedelta seconds component: str"
  ]
 },
 "transform_composite_datetime/bad:missing_date": {
  "raises": [
   "KeyError",
   "'date'"
  ]
 },
 "transform_composite_datetime/bad:missing_seconds": {
  "raises": [
   "KeyError",
   "'seconds_of_day'"
  ]
 },
 "transform_platform_position/full": {
  "returns": {
   "Group": [
    "/",
    null,
    {
     "dict": [
      [
       {
        "str": "'sampling_frequency'"
       },
       {
        "Variable": [
         {
          "tuple": []
         },
         {
          "float": "60.0"
         },
         {
          "dict": [
           [
            {
             "str": "'units'"
            },
            {
             "str": "'s'"
            }
           ]
          ]
         }
        ]
       }
      ],
      [
       {
        "str": "'orbital_elements'"
       },
       {
        "Group": [
         "/orbital_elements",
         null,
         {
          "dict": [
           [
            {
             "str": "'position'"
            },
            {
             "Group": [
              "/orbital_elements/position",
              null,
              {
               "dict": [
                [
                 {
                  "str": "'x'"
                 },
                 {
                  "Variable": [
                   {
                    "tuple": []
                   },
                   {
                    "float": "1.5"
                   },
                   {
                    "dict": [
                     [
                      {
                       "str": "'units'"
                      },
                      {
                       "str": "'m'"
                      }
                     ]
                    ]
                   }
                  ]
                 }
                ],
                [
                 {
                  "str": "'y'"
                 },
                 {
                  "Variable": [
                   {
                    "tuple": []
                   },
                   {
                    "float": "2.5"
                   },
                   {
                    "dict": [
                     [
                      {
                       "str": "'units'"
                      },
                      {
                       "str": "'m'"
                      }
                     ]
                    ]
                   }
                  ]
                 }
                ],
                [
                 {
                  "str": "'z'"
                 },
                 {
                  "Variable": [
                   {
                    "tuple": []
                   },
                   {
                    "float": "3.5"
                   },
                   {
                    "dict": [
                     [
                      {
                       "str": "'units'"
                      },
                      {
                       "str": "'m'"
                      }
                     ]
                    ]
                   }
                  ]
                 }
                ]
               ]
              },
              {
               "dict": []
              }
             ]
            }
           ],
           [
            {
             "str": "'velocity'"
            },
            {
             "Group": [
              "/orbital_elements/velocity",
              null,
              {
               "dict": [
                [
                 {
                  "str": "'x'"
                 },
                 {
                  "Variable": [
                   {
                    "tuple": []
                   },
                   {
                    "float": "-2.5"
                   },
                   {
                    "dict": [
                     [
                      {
                       "str": "'units'"
                      },
                      {
                       "str": "'m/s'"
                      }
                     ]
                    ]
                   }
                  ]
                 }
                ],
                [
                 {
                  "str": "'y'"
                 },
                 {
                  "Variable": [
                   {
                    "tuple": []
                   },
                   {
                    "float": "-1.5"
                   },
                   {
                    "dict": [
                     [
                      {
                       "str": "'units'"
                      },
                      {
                       "str": "'m/s'"
                      }
                     ]
                    ]
                   }
                  ]
                 }
                ],
                [
                 {
                  "str": "'z'"
                 },
                 {
                  "Variable": [
                   {
                    "tuple": []
                   },
                   {
                    "float": "-0.5"
                   },
                   {
                    "dict": [
                     [
                      {
                       "str": "'units'"
                      },
                      {
                       "str": "'m/s'"
                      }
                     ]
                    ]
                   }
                  ]
                 }
                ]
               ]
              },
              {
               "dict": []
              }
             ]
            }
           ]
          ]
         },
         {
          "dict": [
           [
            {
             "str": "'type'"
            },
            {
             "str": "'high_precision'"
            }
           ]
          ]
         }
        ]
       }
      ],
      [
       {
        "str": "'nominal_error'"
       },
       {
        "Group": [
         "/nominal_error",
         null,
         {
          "dict": [
           [
            {
             "str": "'position'"
            },
            {
             "Group": [
              "/nominal_error/position",
              null,
              {
               "dict": [
                [
                 {
                  "str": "'along_track'"
                 },
                 {
                  "Variable": [
                   {
                    "tuple": []
                   },
                   {
                    "float": "0.0"
                   },
                   {
                    "dict": [
                     [
                      {
                       "str": "'units'"
                      },
                      {
                       "str": "'m'"
                      }
                     ]
                    ]
                   }
                  ]
                 }
                ],
                [
                 {
                  "str": "'across_track'"
                 },
                 {
                  "Variable": [
                   {
                    "tuple": []
                   },
                   {
                    "float": "1.0"
                   },
                   {
                    "dict": [
                     [
                      {
                       "str": "'units'"
                      },
                      {
                       "str": "'m'"
                      }
                     ]
                    ]
                   }
                  ]
                 }
                ],
                [
                 {
                  "str": "'radial'"
                 },
                 {
                  "Variable": [
                   {
                    "tuple": []
                   },
                   {
                    "float": "2.0"
                   },
                   {
                    "dict": [
                     [
                      {
                       "str": "'units'"
                      },
                      {
                       "str": "'m'"
                      }
                     ]
                    ]
                   }
                  ]
                 }
                ]
               ]
              },
              {
               "dict": []
              }
             ]
            }
           ],
           [
            {
             "str": "'velocity'"
            },
            {
             "Group": [
              "/nominal_error/velocity",
              null,
              {
               "dict": [
                [
                 {
                  "str": "'along_track'"
                 },
                 {
                  "Variable": [
                   {
                    "tuple": []
                   },
                   {
                    "float": "0.5"
                   },
                   {
                    "dict": [
                     [
                      {
                       "str": "'units'"
                      },
                      {
                       "str": "'m/s'"
                      }
                     ]
                    ]
                   }
                  ]
                 }
                ],
                [
                 {
                  "str": "'across_track'"
                 },
                 {
                  "Variable": [
                   {
                    "tuple": []
                   },
                   {
                    "float": "1.5"
                   },
                   {
                    "dict": [
                     [
                      {
                       "str": "'units'"
                      },
                      {
                       "str": "'m/s'"
                      }
                     ]
                    ]
                   }
                  ]
                 }
                ],
                [
                 {
                  "str": "'radial'"
                 },
                 {
                  "Variable": [
                   {
                    "tuple": []
                   },
                   {
                    "float": "2.5"
                   },
                   {
                    "dict": [
                     [
                      {
                       "str": "'units'"
                      },
                      {
                       "str": "'m/s'"
                      }
                     ]
                    ]
                   }
                  ]
                 }
                ]
               ]
              },
              {
               "dict": []
              }
             ]
            }
           ]
          ]
         },
         {
          "dict": []
         }
        ]
       }
      ],
      [
       {
        "str": "'positions'"
       },
       {
        "Group": [
         "/positions",
         null,
         {
          "dict": [
           [
            {
             "str": "'position'"
            },
            {
             "Group": [
              "/positions/position",
              null,
              {
               "dict": [
                [
                 {
                  "str": "'x'"
                 },
                 {
                  "Variable": [
                   {
                    "list": [
                     {
                      "str": "'positions'"
                     }
                    ]
                   },
                   {
                    "list": [
                     {
                      "float": "1000.0"
                     },
                     {
                      "float": "1001.0"
                     },
                     {
                      "float": "1002.0"
                     },
                     {
                      "float": "1003.0"
                     }
                    ]
                   },
                   {
                    "dict": [
                     [
                      {
                       "str": "'units'"
                      },
                      {
                       "str": "'m'"
                      }
                     ]
                    ]
                   }
                  ]
                 }
                ],
                [
                 {
                  "str": "'y'"
                 },
                 {
                  "Variable": [
                   {
                    "list": [
                     {
                      "str": "'positions'"
                     }
                    ]
                   },
                   {
                    "list": [
                     {
                      "float": "-0.0"
                     },
                     {
                      "float": "-2000.5"
                     },
                     {
                      "float": "-4001.0"
                     },
                     {
                      "float": "-6001.5"
                     }
                    ]
                   },
                   {
                    "dict": [
                     [
                      {
                       "str": "'units'"
                      },
                      {
                       "str": "'m'"
                      }
                     ]
                    ]
                   }
                  ]
                 }
                ],
                [
                 {
                  "str": "'z'"
                 },
                 {
                  "Variable": [
                   {
                    "list": [
                     {
                      "str": "'positions'"
                     }
                    ]
                   },
                   {
                    "list": [
                     {
                      "float": "0.0"
                     },
                     {
                      "float": "1.0"
                     },
                     {
                      "float": "4.0"
                     },
                     {
                      "float": "9.0"
                     }
                    ]
                   },
                   {
                    "dict": [
                     [
                      {
                       "str": "'units'"
                      },
                      {
                       "str": "'m'"
                      }
                     ]
                    ]
                   }
                  ]
                 }
                ]
               ]
              },
              {
               "dict": []
              }
             ]
            }
           ],
           [
            {
             "str": "'velocity'"
            },
            {
             "Group": [
              "/positions/velocity",
              null,
              {
               "dict": [
                [
                 {
                  "str": "'x'"
                 },
                 {
                  "Variable": [
                   {
                    "list": [
                     {
                      "str": "'positions'"
                     }
                    ]
                   },
                   {
                    "list": [
                     {
                      "float": "7.5"
                     },
                     {
                      "float": "7.5"
                     },
                     {
                      "float": "7.5"
                     },
                     {
                      "float": "7.5"
                     }
                    ]
                   },
                   {
                    "dict": [
                     [
                      {
                       "str": "'units'"
                      },
                      {
                       "str": "'m/s'"
                      }
                     ]
                    ]
                   }
                  ]
                 }
                ],
                [
                 {
                  "str": "'y'"
                 },
                 {
                  "Variable": [
                   {
                    "list": [
                     {
                      "str": "'positions'"
                     }
                    ]
                   },
                   {
                    "list": [
                     {
                      "float": "-0.0"
                     },
                     {
                      "float": "-0.25"
                     },
                     {
                      "float": "-0.5"
                     },
                     {
                      "float": "-0.75"
                     }
                    ]
                   },
                   {
                    "dict": [
                     [
                      {
                       "str": "'units'"
                      },
                      {
                       "str": "'m/s'"
                      }
                     ]
                    ]
                   }
                  ]
                 }
                ],
                [
                 {
                  "str": "'z'"
                 },
                 {
                  "Variable": [
                   {
                    "list": [
                     {
                      "str": "'positions'"
                     }
                    ]
                   },
                   {
                    "list": [
                     {
                      "float": "0.0"
                     },
                     {
                      "float": "0.001"
                     },
                     {
                      "float": "0.002"
                     },
                     {
                      "float": "0.003"
                     }
                    ]
                   },
                   {
                    "dict": [
                     [
                      {
                       "str": "'units'"
                      },
                      {
                       "str": "'m/s'"
                      }
                     ]
                    ]
                   }
                  ]
                 }
                ]
               ]
              },
              {
               "dict": []
              }
             ]
            }
           ]
          ]
         },
         {
          "dict": []
         }
        ]
       }
      ]
     ]
    },
    {
     "dict": [
      [
       {
        "str": "'datetime_of_first_point'"
       },
       {
        "str": "'2020-10-11T17:20:37'"
       }
      ],
      [
       {
        "str": "'reference_coordinate_system'"
       },
       {
        "str": "'ECR'"
       }
      ],
      [
       {
        "str": "'leap_second'"
       },
       {
        "bool": "False"
       }
      ]
     ]
    }
   ]
  }
 },
 "transform_platform_position/full_one_point": {
  "returns": {
   "Group": [
    "/",
    null,
    {
     "dict": [
      [
       {
        "str": "'sampling_frequency'"
       },
       {
        "Variable": [
         {
          "tuple": []
         },
         {
          "float": "60.0"
         },
         {
          "dict": [
           [
            {
             "str": "'units'"
            },
            {
             "str": "'s'"
            }
           ]
          ]
         }
        ]
       }
      ],
      [
       {
        "str": "'orbital_elements'"
       },
       {
        "Group": [
         "/orbital_elements",
         null,
         {
          "dict": [
           [
            {
             "str": "'position'"
            },
            {
             "Group": [
              "/orbital_elements/position",
              null,
              {
               "dict": [
                [
                 {
                  "str": "'x'"
                 },
                 {
                  "Variable": [
                   {
                    "tuple": []
                   },
                   {
                    "float": "1.5"
                   },
                   {
                    "dict": [
                     [
                      {
                       "str": "'units'"
                      },
                      {
                       "str": "'m'"
                      }
                     ]
                    ]
                   }
                  ]
                 }
                ],
                [
                 {
                  "str": "'y'"
                 },
                 {
                  "Variable": [
                   {
                    "tuple": []
                   },
                   {
                    "float": "2.5"
                   },
                   {
                    "dict": [
                     [
                      {
                       "str": "'units'"
                      },
                      {
                       "str": "'m'"
                      }
                     ]
                    ]
                   }
                  ]
                 }
                ],
                [
                 {
                  "str": "'z'"
                 },
                 {
                  "Variable": [
                   {
                    "tuple": []
                   },
                   {
                    "float": "3.5"
                   },
                   {
                    "dict": [
                     [
                      {
                       "str": "'units'"
                      },
                      {
                       "str": "'m'"
                      }
                     ]
                    ]
                   }
                  ]
                 }
                ]
               ]
              },
              {
               "dict": []
              }
             ]
            }
           ],
           [
            {
             "str": "'velocity'"
            },
            {
             "Group": [
              "/orbital_elements/velocity",
              null,
              {
               "dict": [
                [
                 {
                  "str": "'x'"
                 },
                 {
                  "Variable": [
                   {
                    "tuple": []
                   },
                   {
                    "float": "-2.5"
                   },
                   {
                    "dict": [
                     [
                      {
                       "str": "'units'"
                      },
                      {
                       "str": "'m/s'"
                      }
                     ]
                    ]
                   }
                  ]
                 }
                ],
                [
                 {
                  "str": "'y'"
                 },
                 {
                  "Variable": [
                   {
                    "tuple": []
                   },
                   {
                    "float": "-1.5"
                   },
                   {
                    "dict": [
                     [
                      {
                       "str": "'units'"
                      },
                      {
                       "str": "'m/s'"
                      }
                     ]
                    ]
                   }
                  ]
                 }
                ],
                [
                 {
                  "str": "'z'"
                 },
                 {
                  "Variable": [
                   {
                    "tuple": []
                   },
                   {
                    "float": "-0.5"
                   },
                   {
                    "dict": [
                     [
                      {
                       "str": "'units'"
                      },
                      {
                       "str": "'m/s'"
                      }
                     ]
                    ]
                   }
                  ]
                 }
                ]
               ]
              },
              {
               "dict": []
              }
             ]
            }
           ]
          ]
         },
         {
          "dict": [
           [
            {
             "str": "'type'"
            },
            {
             "str": "'high_precision'"
            }
           ]
          ]
         }
        ]
       }
      ],
      [
       {
        "str": "'nominal_error'"
       },
       {
        "Group": [
         "/nominal_error",
         null,
         {
          "dict": [
           [
            {
             "str": "'position'"
            },
            {
             "Group": [
              "/nominal_error/position",
              null,
              {
               "dict": [
                [
                 {
                  "str": "'along_track'"
                 },
                 {
                  "Variable": [
                   {
                    "tuple": []
                   },
                   {
                    "float": "0.0"
                   },
                   {
                    "dict": [
                     [
                      {
                       "str": "'units'"
                      },
                      {
                       "str": "'m'"
                      }
                     ]
                    ]
                   }
                  ]
                 }
                ],
                [
                 {
                  "str": "'across_track'"
                 },
                 {
                  "Variable": [
                   {
                    "tuple": []
                   },
                   {
                    "float": "1.0"
                   },
                   {
                    "dict": [
                     [
                      {
                       "str": "'units'"
                      },
                      {
                       "str": "'m'"
                      }
                     ]
                    ]
                   }
                  ]
                 }
                ],
                [
                 {
                  "str": "'radial'"
                 },
                 {
                  "Variable": [
                   {
                    "tuple": []
                   },
                   {
                    "float": "2.0"
                   },
                   {
                    "dict": [
                     [
                      {
                       "str": "'units'"
                      },
                      {
                       "str": "'m'"
                      }
                     ]
                    ]
                   }
                  ]
                 }
                ]
               ]
              },
              {
               "dict": []
              }
             ]
            }
           ],
           [
            {
             "str": "'velocity'"
            },
            {
             "Group": [
              "/nominal_error/velocity",
              null,
              {
               "dict": [
                [
                 {
                  "str": "'along_track'"
                 },
                 {
                  "Variable": [
                   {
                    "tuple": []
                   },
                   {
                    "float": "0.5"
                   },
                   {
                    "dict": [
                     [
                      {
                       "str": "'units'"
                      },
                      {
                       "str": "'m/s'"
                      }
                     ]
                    ]
                   }
                  ]
                 }
                ],
                [
                 {
                  "str": "'across_track'"
                 },
                 {
                  "Variable": [
                   {
                    "tuple": []
                   },
                   {
                    "float": "1.5"
                   },
                   {
                    "dict": [
                     [
                      {
                       "str": "'units'"
                      },
                      {
                       "str": "'m/s'"
                      }
                     ]
                    ]
                   }
                  ]
                 }
                ],
                [
                 {
                  "str": "'radial'"
                 },
                 {
                  "Variable": [
                   {
                    "tuple": []
                   },
                   {
                    "float": "2.5"
                   },
                   {
                    "dict": [
                     [
                      {
                       "str": "'units'"
                      },
                      {
                       "str": "'m/s'"
                      }
                     ]
                    ]
                   }
                  ]
                 }
                ]
               ]
              },
              {
               "dict": []
              }
             ]
            }
           ]
          ]
         },
         {
          "dict": []
         }
        ]
       }
      ],
      [
       {
        "str": "'positions'"
       },
       {
        "Group": [
         "/positions",
         null,
         {
          "dict": [
           [
            {
             "str": "'position'"
            },
            {
             "Group": [
              "/positions/position",
              null,
              {
               "dict": [
                [
                 {
                  "str": "'x'"
                 },
                 {
                  "Variable": [
                   {
                    "list": [
                     {
                      "str": "'positions'"
                     }
                    ]
                   },
                   {
                    "list": [
                     {
                      "float": "1000.0"
                     }
                    ]
                   },
                   {
                    "dict": [
                     [
                      {
                       "str": "'units'"
                      },
                      {
                       "str": "'m'"
                      }
                     ]
                    ]
                   }
                  ]
                 }
                ],
                [
                 {
                  "str": "'y'"
                 },
                 {
                  "Variable": [
                   {
                    "list": [
                     {
                      "str": "'positions'"
                     }
                    ]
                   },
                   {
                    "list": [
                     {
                      "float": "-0.0"
                     }
                    ]
                   },
                   {
                    "dict": [
                     [
                      {
                       "str": "'units'"
                      },
                      {
                       "str": "'m'"
                      }
                     ]
                    ]
                   }
                  ]
                 }
                ],
                [
                 {
                  "str": "'z'"
                 },
                 {
                  "Variable": [
                   {
                    "list": [
                     {
                      "str": "'positions'"
                     }
                    ]
                   },
                   {
                    "list": [
                     {
                      "float": "0.0"
                     }
                    ]
                   },
                   {
                    "dict": [
                     [
                      {
                       "str": "'units'"
                      },
                      {
                       "str": "'m'"
                      }
                     ]
                    ]
                   }
                  ]
                 }
                ]
               ]
              },
              {
               "dict": []
              }
             ]
            }
           ],
           [
            {
             "str": "'velocity'"
            },
            {
             "Group": [
              "/positions/velocity",
              null,
              {
               "dict": [
                [
                 {
                  "str": "'x'"
                 },
                 {
                  "Variable": [
                   {
                    "list": [
                     {
                      "str": "'positions'"
                     }
                    ]
                   },
                   {
                    "list": [
                     {
                      "float": "7.5"
                     }
                    ]
                   },
                   {
                    "dict": [
                     [
                      {
                       "str": "'units'"
                      },
                      {
                       "str": "'m/s'"
                      }
                     ]
                    ]
                   }
                  ]
                 }
                ],
                [
                 {
                  "str": "'y'"
                 },
                 {
                  "Variable": [
                   {
                    "list": [
                     {
                      "str": "'positions'"
                     }
                    ]
                   },
                   {
                    "list": [
                     {
                      "float": "-0.0"
                     }
                    ]
                   },
                   {
                    "dict": [
                     [
                      {
                       "str": "'units'"
                      },
                      {
                       "str": "'m/s'"
                      }
                     ]
                    ]
                   }
                  ]
                 }
                ],
                [
                 {
                  "str": "'z'"
                 },
                 {
                  "Variable": [
                   {
                    "list": [
                     {
                      "str": "'positions'"
                     }
                    ]
                   },
                   {
                    "list": [
                     {
                      "float": "0.0"
                     }
                    ]
                   },
                   {
                    "dict": [
                     [
                      {
                       "str": "'units'"
                      },
                      {
                       "str": "'m/s'"
                      }
                     ]
                    ]
                   }
                  ]
                 }
                ]
               ]
              },
              {
               "dict": []
              }
             ]
            }
           ]
          ]
         },
         {
          "dict": []
         }
        ]
       }
      ]
     ]
    },
    {
     "dict": [
      [
       {
        "str": "'datetime_of_first_point'"
       },
       {
        "str": "'2020-10-11T17:20:37'"
       }
      ],
      [
       {
        "str": "'reference_coordinate_system'"
       },
       {
        "str": "'ECR'"
       }
      ],
      [
       {
        "str": "'leap_second'"
       },
       {
        "bool": "False"
       }
      ]
     ]
    }
   ]
  }
 },
 "transform_platform_position/reordered": {
  "returns": {
   "Group": [
    "/",
    null,
    {
     "dict": [
      [
       {
        "str": "'sampling_frequency'"
       },
       {
        "Variable": [
         {
          "tuple": []
         },
         {
          "float": "60.0"
         },
         {
          "dict": [
           [
            {
             "str": "'units'"
            },
            {
             "str": "'s'"
            }
           ]
          ]
         }
        ]
       }
      ],
      [
       {
        "str": "'positions'"
       },
       {
        "Group": [
         "/positions",
         null,
         {
          "dict": [
           [
            {
             "str": "'position'"
            },
            {
             "Group": [
              "/positions/position",
              null,
              {
               "dict": [
                [
                 {
                  "str": "'x'"
                 },
                 {
                  "Variable": [
                   {
                    "list": [
                     {
                      "str": "'positions'"
                     }
                    ]
                   },
                   {
                    "list": [
                     {
                      "float": "1000.0"
                     },
                     {
                      "float": "1001.0"
                     },
                     {
                      "float": "1002.0"
                     },
                     {
                      "float": "1003.0"
                     }
                    ]
                   },
                   {
                    "dict": [
                     [
                      {
                       "str": "'units'"
                      },
                      {
                       "str": "'m'"
                      }
                     ]
                    ]
                   }
                  ]
                 }
                ],
                [
                 {
                  "str": "'y'"
                 },
                 {
                  "Variable": [
                   {
                    "list": [
                     {
                      "str": "'positions'"
                     }
                    ]
                   },
                   {
                    "list": [
                     {
                      "float": "-0.0"
                     },
                     {
                      "float": "-2000.5"
                     },
                     {
                      "float": "-4001.0"
                     },
                     {
                      "float": "-6001.5"
                     }
                    ]
                   },
                   {
                    "dict": [
                     [
                      {
                       "str": "'units'"
                      },
                      {
                       "str": "'m'"
                      }
                     ]
                    ]
                   }
                  ]
                 }
                ],
                [
                 {
                  "str": "'z'"
                 },
                 {
                  "Variable": [
                   {
                    "list": [
                     {
                      "str": "'positions'"
                     }
                    ]
                   },
                   {
                    "list": [
                     {
                      "float": "0.0"
                     },
                     {
                      "float": "1.0"
                     },
                     {
                      "float": "4.0"
                     },
                     {
                      "float": "9.0"
                     }
                    ]
                   },
                   {
                    "dict": [
                     [
                      {
                       "str": "'units'"
                      },
                      {
                       "str": "'m'"
                      }
                     ]
                    ]
                   }
                  ]
                 }
                ]
               ]
              },
              {
               "dict": []
              }
             ]
            }
           ],
           [
            {
             "str": "'velocity'"
            },
            {
             "Group": [
              "/positions/velocity",
              null,
              {
               "dict": [
                [
                 {
                  "str": "'x'"
                 },
                 {
                  "Variable": [
                   {
                    "list": [
                     {
                      "str": "'positions'"
                     }
                    ]
                   },
                   {
                    "list": [
                     {
                      "float": "7.5"
                     },
                     {
                      "float": "7.5"
                     },
                     {
                      "float": "7.5"
                     },
                     {
                      "float": "7.5"
                     }
                    ]
                   },
                   {
                    "dict": [
                     [
                      {
                       "str": "'units'"
                      },
                      {
                       "str": "'m/s'"
                      }
                     ]
                    ]
                   }
                  ]
                 }
                ],
                [
                 {
                  "str": "'y'"
                 },
                 {
                  "Variable": [
                   {
                    "list": [
                     {
                      "str": "'positions'"
                     }
                    ]
                   },
                   {
                    "list": [
                     {
                      "float": "-0.0"
                     },
                     {
                      "float": "-0.25"
                     },
                     {
                      "float": "-0.5"
                     },
                     {
                      "float": "-0.75"
                     }
                    ]
                   },
                   {
                    "dict": [
                     [
                      {
                       "str": "'units'"
                      },
                      {
                       "str": "'m/s'"
                      }
                     ]
                    ]
                   }
                  ]
                 }
                ],
                [
                 {
                  "str": "'z'"
                 },
                 {
                  "Variable": [
                   {
                    "list": [
                     {
                      "str": "'positions'"
                     }
                    ]
                   },
                   {
                    "list": [
                     {
                      "float": "0.0"
                     },
                     {
                      "float": "0.001"
                     },
                     {
                      "float": "0.002"
                     },
                     {
                      "float": "0.003"
                     }
                    ]
                   },
                   {
                    "dict": [
                     [
                      {
                       "str": "'units'"
                      },
                      {
                       "str": "'m/s'"
                      }
                     ]
                    ]
                   }
                  ]
                 }
                ]
               ]
              },
              {
               "dict": []
              }
             ]
            }
           ]
          ]
         },
         {
          "dict": []
         }
        ]
       }
      ],
      [
       {
        "str": "'nominal_error'"
       },
       {
        "Group": [
         "/nominal_error",
         null,
         {
          "dict": [
           [
            {
             "str": "'position'"
            },
            {
             "Group": [
              "/nominal_error/position",
              null,
              {
               "dict": [
                [
                 {
                  "str": "'along_track'"
                 },
                 {
                  "Variable": [
                   {
                    "tuple": []
                   },
                   {
                    "float": "0.0"
                   },
                   {
                    "dict": [
                     [
                      {
                       "str": "'units'"
                      },
                      {
                       "str": "'m'"
                      }
                     ]
                    ]
                   }
                  ]
                 }
                ],
                [
                 {
                  "str": "'across_track'"
                 },
                 {
                  "Variable": [
                   {
                    "tuple": []
                   },
                   {
                    "float": "1.0"
                   },
                   {
                    "dict": [
                     [
                      {
                       "str": "'units'"
                      },
                      {
                       "str": "'m'"
                      }
                     ]
                    ]
                   }
                  ]
                 }
                ],
                [
                 {
                  "str": "'radial'"
                 },
                 {
                  "Variable": [
                   {
                    "tuple": []
                   },
                   {
                    "float": "2.0"
                   },
                   {
                    "dict": [
                     [
                      {
                       "str": "'units'"
                      },
                      {
                       "str": "'m'"
                      }
                     ]
                    ]
                   }
                  ]
                 }
                ]
               ]
              },
              {
               "dict": []
              }
             ]
            }
           ],
           [
            {
             "str": "'velocity'"
            },
            {
             "Group": [
              "/nominal_error/velocity",
              null,
              {
               "dict": [
                [
                 {
                  "str": "'along_track'"
                 },
                 {
                  "Variable": [
                   {
                    "tuple": []
                   },
                   {
                    "float": "0.5"
                   },
                   {
                    "dict": [
                     [
                      {
                       "str": "'units'"
                      },
                      {
                       "str": "'m/s'"
                      }
                     ]
                    ]
                   }
                  ]
                 }
                ],
                [
                 {
                  "str": "'across_track'"
                 },
                 {
                  "Variable": [
                   {
                    "tuple": []
                   },
                   {
                    "float": "1.5"
                   },
                   {
                    "dict": [
                     [
                      {
                       "str": "'units'"
                      },
                      {
                       "str": "'m/s'"
                      }
                     ]
                    ]
                   }
                  ]
                 }
                ],
                [
                 {
                  "str": "'radial'"
                 },
                 {
                  "Variable": [
                   {
                    "tuple": []
                   },
                   {
                    "float": "2.5"
                   },
                   {
                    "dict": [
                     [
                      {
                       "str": "'units'"
                      },
                      {
                       "str": "'m/s'"
                      }
                     ]
                    ]
                   }
                  ]
                 }
                ]
               ]
              },
              {
               "dict": []
              }
             ]
            }
           ]
          ]
         },
         {
          "dict": []
         }
        ]
       }
      ],
      [
       {
        "str": "'orbital_elements'"
       },
       {
        "Group": [
         "/orbital_elements",
         null,
         {
          "dict": [
           [
            {
             "str": "'position'"
            },
            {
             "Group": [
              "/orbital_elements/position",
              null,
              {
               "dict": [
                [
                 {
                  "str": "'x'"
                 },
                 {
                  "Variable": [
                   {
                    "tuple": []
                   },
                   {
                    "float": "1.5"
                   },
                   {
                    "dict": [
                     [
                      {
                       "str": "'units'"
                      },
                      {
                       "str": "'m'"
                      }
                     ]
                    ]
                   }
                  ]
                 }
                ],
                [
                 {
                  "str": "'y'"
                 },
                 {
                  "Variable": [
                   {
                    "tuple": []
                   },
                   {
                    "float": "2.5"
                   },
                   {
                    "dict": [
                     [
                      {
                       "str": "'units'"
                      },
                      {
                       "str": "'m'"
                      }
                     ]
                    ]
                   }
                  ]
                 }
                ],
                [
                 {
                  "str": "'z'"
                 },
                 {
                  "Variable": [
                   {
                    "tuple": []
                   },
                   {
                    "float": "3.5"
                   },
                   {
                    "dict": [
                     [
                      {
                       "str": "'units'"
                      },
                      {
                       "str": "'m'"
                      }
                     ]
                    ]
                   }
                  ]
                 }
                ]
               ]
              },
              {
               "dict": []
              }
             ]
            }
           ],
           [
            {
             "str": "'velocity'"
            },
            {
             "Group": [
              "/orbital_elements/velocity",
              null,
              {
               "dict": [
                [
                 {
                  "str": "'x'"
                 },
                 {
                  "Variable": [
                   {
                    "tuple": []
                   },
                   {
                    "float": "-2.5"
                   },
                   {
                    "dict": [
                     [
                      {
                       "str": "'units'"
                      },
                      {
                       "str": "'m/s'"
                      }
                     ]
                    ]
                   }
                  ]
                 }
                ],
                [
                 {
                  "str": "'y'"
                 },
                 {
                  "Variable": [
                   {
                    "tuple": []
                   },
                   {
                    "float": "-1.5"
                   },
                   {
                    "dict": [
                     [
                      {
                       "str": "'units'"
                      },
                      {
                       "str": "'m/s'"
                      }
                     ]
                    ]
                   }
                  ]
                 }
                ],
                [
                 {
                  "str": "'z'"
                 },
                 {
                  "Variable": [
                   {
                    "tuple": []
                   },
                   {
                    "float": "-0.5"
                   },
                   {
                    "dict": [
                     [
                      {
                       "str": "'units'"
                      },
                      {
                       "str": "'m/s'"
                      }
                     ]
                    ]
                   }
                  ]
                 }
                ]
               ]
              },
              {
               "dict": []
              }
             ]
            }
           ]
          ]
         },
         {
          "dict": [
           [
            {
             "str": "'type'"
            },
            {
             "str": "'high_precision'"
            }
           ]
          ]
         }
        ]
       }
      ]
     ]
    },
    {
     "dict": [
      [
       {
        "str": "'leap_second'"
       },
       {
        "bool": "False"
       }
      ],
      [
       {
        "str": "'reference_coordinate_system'"
       },
       {
        "str": "'ECR'"
       }
      ],
      [
       {
        "str": "'datetime_of_first_point'"
       },
       {
        "str": "'2020-10-11T17:20:37'"
       }
      ]
     ]
    }
   ]
  }
 },
 "transform_platform_position/leap_second": {
  "returns": {
   "Group": [
    "/",
    null,
    {
     "dict": [
      [
       {
        "str": "'sampling_frequency'"
       },
       {
        "Variable": [
         {
          "tuple": []
         },
         {
          "float": "60.0"
         },
         {
          "dict": [
           [
            {
             "str": "'units'"
            },
            {
             "str": "'s'"
            }
           ]
          ]
         }
        ]
       }
      ],
      [
       {
        "str": "'orbital_elements'"
       },
       {
        "Group": [
         "/orbital_elements",
         null,
         {
          "dict": [
           [
            {
             "str": "'position'"
            },
            {
             "Group": [
              "/orbital_elements/position",
              null,
              {
               "dict": [
                [
                 {
                  "str": "'x'"
                 },
                 {
                  "Variable": [
                   {
                    "tuple": []
                   },
                   {
                    "float": "1.5"
                   },
                   {
                    "dict": [
                     [
                      {
                       "str": "'units'"
                      },
                      {
                       "str": "'m'"
                      }
                     ]
                    ]
                   }
                  ]
                 }
                ],
                [
                 {
                  "str": "'y'"
                 },
                 {
                  "Variable": [
                   {
                    "tuple": []
                   },
                   {
                    "float": "2.5"
                   },
                   {
                    "dict": [
                     [
                      {
                       "str": "'units'"
                      },
                      {
                       "str": "'m'"
                      }
                     ]
                    ]
                   }
                  ]
                 }
                ],
                [
                 {
                  "str": "'z'"
                 },
                 {
                  "Variable": [
                   {
                    "tuple": []
                   },
                   {
                    "float": "3.5"
                   },
                   {
                    "dict": [
                     [
                      {
                       "str": "'units'"
                      },
                      {
                       "str": "'m'"
                      }
                     ]
                    ]
                   }
                  ]
                 }
                ]
               ]
              },
              {
               "dict": []
              }
             ]
            }
           ],
           [
            {
             "str": "'velocity'"
            },
            {
             "Group": [
              "/orbital_elements/velocity",
              null,
              {
               "dict": [
                [
                 {
                  "str": "'x'"
                 },
                 {
                  "Variable": [
                   {
                    "tuple": []
                   },
                   {
                    "float": "-2.5"
                   },
                   {
                    "dict": [
                     [
                      {
                       "str": "'units'"
                      },
                      {
                       "str": "'m/s'"
                      }
                     ]
                    ]
                   }
                  ]
                 }
                ],
                [
                 {
                  "str": "'y'"
                 },
                 {
                  "Variable": [
                   {
                    "tuple": []
                   },
                   {
                    "float": "-1.5"
                   },
                   {
                    "dict": [
                     [
                      {
                       "str": "'units'"
                      },
                      {
                       "str": "'m/s'"
                      }
                     ]
                    ]
                   }
                  ]
                 }
                ],
                [
                 {
                  "str": "'z'"
                 },
                 {
                  "Variable": [
                   {
                    "tuple": []
                   },
                   {
                    "float": "-0.5"
                   },
                   {
                    "dict": [
                     [
                      {
                       "str": "'units'"
                      },
                      {
                       "str": "'m/s'"
                      }
                     ]
                    ]
                   }
                  ]
                 }
                ]
               ]
              },
              {
               "dict": []
              }
             ]
            }
           ]
          ]
         },
         {
          "dict": [
           [
            {
             "str": "'type'"
            },
            {
             "str": "'high_precision'"
            }
           ]
          ]
         }
        ]
       }
      ],
      [
       {
        "str": "'nominal_error'"
       },
       {
        "Group": [
         "/nominal_error",
         null,
         {
          "dict": [
           [
            {
             "str": "'position'"
            },
            {
             "Group": [
              "/nominal_error/position",
              null,
              {
               "dict": [
                [
                 {
                  "str": "'along_track'"
                 },
                 {
                  "Variable": [
                   {
                    "tuple": []
                   },
                   {
                    "float": "0.0"
                   },
                   {
                    "dict": [
                     [
                      {
                       "str": "'units'"
                      },
                      {
                       "str": "'m'"
                      }
                     ]
                    ]
                   }
                  ]
                 }
                ],
                [
                 {
                  "str": "'across_track'"
                 },
                 {
                  "Variable": [
                   {
                    "tuple": []
                   },
                   {
                    "float": "1.0"
                   },
                   {
                    "dict": [
                     [
                      {
                       "str": "'units'"
                      },
                      {
                       "str": "'m'"
                      }
                     ]
                    ]
                   }
                  ]
                 }
                ],
                [
                 {
                  "str": "'radial'"
                 },
                 {
                  "Variable": [
                   {
                    "tuple": []
                   },
                   {
                    "float": "2.0"
                   },
                   {
                    "dict": [
                     [
                      {
                       "str": "'units'"
                      },
                      {
                       "str": "'m'"
                      }
                     ]
                    ]
                   }
                  ]
                 }
                ]
               ]
              },
              {
               "dict": []
              }
             ]
            }
           ],
           [
            {
             "str": "'velocity'"
            },
            {
             "Group": [
              "/nominal_error/velocity",
              null,
              {
               "dict": [
                [
                 {
                  "str": "'along_track'"
                 },
                 {
                  "Variable": [
                   {
                    "tuple": []
                   },
                   {
                    "float": "0.5"
                   },
                   {
                    "dict": [
                     [
                      {
                       "str": "'units'"
                      },
                      {
                       "str": "'m/s'"
                      }
                     ]
                    ]
                   }
                  ]
                 }
                ],
                [
                 {
                  "str": "'across_track'"
                 },
                 {
                  "Variable": [
                   {
                    "tuple": []
                   },
                   {
                    "float": "1.5"
                   },
                   {
                    "dict": [
                     [
                      {
                       "str": "'units'"
                      },
                      {
                       "str": "'m/s'"
                      }
                     ]
                    ]
                   }
                  ]
                 }
                ],
                [
                 {
                  "str": "'radial'"
                 },
                 {
                  "Variable": [
                   {
                    "tuple": []
                   },
                   {
                    "float": "2.5"
                   },
                   {
                    "dict": [
                     [
                      {
                       "str": "'units'"
                      },
                      {
                       "str": "'m/s'"
                      }
                     ]
                    ]
                   }
                  ]
                 }
                ]
               ]
              },
              {
               "dict": []
              }
             ]
            }
           ]
          ]
         },
         {
          "dict": []
         }
        ]
       }
      ],
      [
       {
        "str": "'positions'"
       },
       {
        "Group": [
         "/positions",
         null,
         {
          "dict": [
           [
            {
             "str": "'position'"
            },
            {
             "Group": [
              "/positions/position",
              null,
              {
               "dict": [
                [
                 {
                  "str": "'x'"
                 },
                 {
                  "Variable": [
                   {
                    "list": [
                     {
                      "str": "'positions'"
                     }
                    ]
                   },
                   {
                    "list": [
                     {
                      "float": "1000.0"
                     },
                     {
                      "float": "1001.0"
                     },
                     {
                      "float": "1002.0"
                     },
                     {
                      "float": "1003.0"
                     }
                    ]
                   },
                   {
                    "dict": [
                     [
                      {
                       "str": "'units'"
                      },
                      {
                       "str": "'m'"
                      }
                     ]
                    ]
                   }
                  ]
                 }
                ],
                [
                 {
                  "str": "'y'"
                 },
                 {
                  "Variable": [
                   {
                    "list": [
                     {
                      "str": "'positions'"
                     }
                    ]
                   },
                   {
                    "list": [
                     {
                      "float": "-0.0"
                     },
                     {
                      "float": "-2000.5"
                     },
                     {
                      "float": "-4001.0"
                     },
                     {
                      "float": "-6001.5"
                     }
                    ]
                   },
                   {
                    "dict": [
                     [
                      {
                       "str": "'units'"
                      },
                      {
                       "str": "'m'"
                      }
                     ]
                    ]
                   }
                  ]
                 }
                ],
                [
                 {
                  "str": "'z'"
                 },
                 {
                  "Variable": [
                   {
                    "list": [
                     {
                      "str": "'positions'"
                     }
                    ]
                   },
                   {
                    "list": [
                     {
                      "float": "0.0"
                     },
                     {
                      "float": "1.0"
                     },
                     {
                      "float": "4.0"
                     },
                     {
                      "float": "9.0"
                     }
                    ]
                   },
                   {
                    "dict": [
                     [
                      {
                       "str": "'units'"
                      },
                      {
                       "str": "'m'"
                      }
                     ]
                    ]
                   }
                  ]
                 }
                ]
               ]
              },
              {
               "dict": []
              }
             ]
            }
           ],
           [
            {
             "str": "'velocity'"
            },
            {
             "Group": [
              "/positions/velocity",
              null,
              {
               "dict": [
                [
                 {
                  "str": "'x'"
                 },
                 {
                  "Variable": [
                   {
                    "list": [
                     {
                      "str": "'positions'"
                     }
                    ]
                   },
                   {
                    "list": [
                     {
                      "float": "7.5"
                     },
                     {
                      "float": "7.5"
                     },
                     {
                      "float": "7.5"
                     },
                     {
                      "float": "7.5"
                     }
                    ]
                   },
                   {
                    "dict": [
                     [
                      {
                       "str": "'units'"
                      },
                      {
                       "str": "'m/s'"
                      }
                     ]
                    ]
                   }
                  ]
                 }
                ],
                [
                 {
                  "str": "'y'"
                 },
                 {
                  "Variable": [
                   {
                    "list": [
                     {
                      "str": "'positions'"
                     }
                    ]
                   },
                   {
                    "list": [
                     {
                      "float": "-0.0"
                     },
                     {
                      "float": "-0.25"
                     },
                     {
                      "float": "-0.5"
                     },
                     {
                      "float": "-0.75"
                     }
                    ]
                   },
                   {
                    "dict": [
                     [
                      {
                       "str": "'units'"
                      },
                      {
                       "str": "'m/s'"
                      }
                     ]
                    ]
                   }
                  ]
                 }
                ],
                [
                 {
                  "str": "'z'"
                 },
                 {
                  "Variable": [
                   {
                    "list": [
                     {
                      "str": "'positions'"
                     }
                    ]
                   },
                   {
                    "list": [
                     {
                      "float": "0.0"
                     },
                     {
                      "float": "0.001"
                     },
                     {
                      "float": "0.002"
                     },
                     {
                      "float": "0.003"
                     }
                    ]
                   },
                   {
                    "dict": [
                     [
                      {
                       "str": "'units'"
                      },
                      {
                       "str": "'m/s'"
                      }
                     ]
                    ]
                   }
                  ]
                 }
                ]
               ]
              },
              {
               "dict": []
              }
             ]
            }
           ]
          ]
         },
         {
          "dict": []
         }
        ]
       }
      ]
     ]
    },
    {
     "dict": [
      [
       {
        "str": "'datetime_of_first_point'"
       },
       {
        "str": "'2020-10-11T17:20:37'"
       }
      ],
      [
       {
        "str": "'reference_coordinate_system'"
       },
       {
        "str": "'ECR'"
       }
      ],
      [
       {
        "str": "'leap_second'"
       },
       {
        "bool": "True"
       }
      ]
     ]
    }
   ]
  }
 },
 "transform_platform_position/leap_second_missing_value": {
  "returns": {
   "Group": [
    "/",
    null,
    {
     "dict": [
      [
       {
        "str": "'sampling_frequency'"
       },
       {
        "Variable": [
         {
          "tuple": []
         },
         {
          "float": "60.0"
         },
         {
          "dict": [
           [
            {
             "str": "'units'"
            },
            {
             "str": "'s'"
            }
           ]
          ]
         }
        ]
       }
      ],
      [
       {
        "str": "'orbital_elements'"
       },
       {
        "Group": [
         "/orbital_elements",
         null,
         {
          "dict": [
           [
            {
             "str": "'position'"
            },
            {
             "Group": [
              "/orbital_elements/position",
              null,
              {
               "dict": [
                [
                 {
                  "str": "'x'"
                 },
                 {
                  "Variable": [
                   {
                    "tuple": []
                   },
                   {
                    "float": "1.5"
                   },
                   {
                    "dict": [
                     [
                      {
                       "str": "'units'"
                      },
                      {
                       "str": "'m'"
                      }
                     ]
                    ]
                   }
                  ]
                 }
                ],
                [
                 {
                  "str": "'y'"
                 },
                 {
                  "Variable": [
                   {
                    "tuple": []
                   },
                   {
                    "float": "2.5"
                   },
                   {
                    "dict": [
                     [
                      {
                       "str": "'units'"
                      },
                      {
                       "str": "'m'"
                      }
                     ]
                    ]
                   }
                  ]
                 }
                ],
                [
                 {
                  "str": "'z'"
                 },
                 {
                  "Variable": [
                   {
                    "tuple": []
                   },
                   {
                    "float": "3.5"
                   },
                   {
                    "dict": [
                     [
                      {
                       "str": "'units'"
                      },
                      {
                       "str": "'m'"
                      }
                     ]
                    ]
                   }
                  ]
                 }
                ]
               ]
              },
              {
               "dict": []
              }
             ]
            }
           ],
           [
            {
             "str": "'velocity'"
            },
            {
             "Group": [
              "/orbital_elements/velocity",
              null,
              {
               "dict": [
                [
                 {
                  "str": "'x'"
                 },
                 {
                  "Variable": [
                   {
                    "tuple": []
                   },
                   {
                    "float": "-2.5"
                   },
                   {
                    "dict": [
                     [
                      {
                       "str": "'units'"
                      },
                      {
                       "str": "'m/s'"
                      }
                     ]
                    ]
                   }
                  ]
                 }
                ],
                [
                 {
                  "str": "'y'"
                 },
                 {
                  "Variable": [
                   {
                    "tuple": []
                   },
                   {
                    "float": "-1.5"
                   },
                   {
                    "dict": [
                     [
                      {
                       "str": "'units'"
                      },
                      {
                       "str": "'m/s'"
                      }
                     ]
                    ]
                   }
                  ]
                 }
                ],
                [
                 {
                  "str": "'z'"
                 },
                 {
                  "Variable": [
                   {
                    "tuple": []
                   },
                   {
                    "float": "-0.5"
                   },
                   {
                    "dict": [
                     [
                      {
                       "str": "'units'"
                      },
                      {
                       "str": "'m/s'"
                      }
                     ]
                    ]
                   }
                  ]
                 }
                ]
               ]
              },
              {
               "dict": []
              }
             ]
            }
           ]
          ]
         },
         {
          "dict": [
           [
            {
             "str": "'type'"
            },
            {
             "str": "'high_precision'"
            }
           ]
          ]
         }
        ]
       }
      ],
      [
       {
        "str": "'nominal_error'"
       },
       {
        "Group": [
         "/nominal_error",
         null,
         {
          "dict": [
           [
            {
             "str": "'position'"
            },
            {
             "Group": [
              "/nominal_error/position",
              null,
              {
               "dict": [
                [
                 {
                  "str": "'along_track'"
                 },
                 {
                  "Variable": [
                   {
                    "tuple": []
                   },
                   {
                    "float": "0.0"
                   },
                   {
                    "dict": [
                     [
                      {
                       "str": "'units'"
                      },
                      {
                       "str": "'m'"
                      }
                     ]
                    ]
                   }
                  ]
                 }
                ],
                [
                 {
                  "str": "'across_track'"
                 },
                 {
                  "Variable": [
                   {
                    "tuple": []
                   },
                   {
                    "float": "1.0"
                   },
                   {
                    "dict": [
                     [
                      {
                       "str": "'units'"
                      },
                      {
                       "str": "'m'"
                      }
                     ]
                    ]
                   }
                  ]
                 }
                ],
                [
                 {
                  "str": "'radial'"
                 },
                 {
                  "Variable": [
                   {
                    "tuple": []
                   },
                   {
                    "float": "2.0"
                   },
                   {
                    "dict": [
                     [
                      {
                       "str": "'units'"
                      },
                      {
                       "str": "'m'"
                      }
                     ]
                    ]
                   }
                  ]
                 }
                ]
               ]
              },
              {
               "dict": []
              }
             ]
            }
           ],
           [
            {
             "str": "'velocity'"
            },
            {
             "Group": [
              "/nominal_error/velocity",
              null,
              {
               "dict": [
                [
                 {
                  "str": "'along_track'"
                 },
                 {
                  "Variable": [
                   {
                    "tuple": []
                   },
                   {
                    "float": "0.5"
                   },
                   {
                    "dict": [
                     [
                      {
                       "str": "'units'"
                      },
                      {
                       "str": "'m/s'"
                      }
                     ]
                    ]
                   }
                  ]
                 }
                ],
                [
                 {
                  "str": "'across_track'"
                 },
                 {
                  "Variable": [
                   {
                    "tuple": []
                   },
                   {
                    "float": "1.5"
                   },
                   {
                    "dict": [
                     [
                      {
                       "str": "'units'"
                      },
                      {
                       "str": "'m/s'"
                      }
                     ]
                    ]
                   }
                  ]
                 }
                ],
                [
                 {
                  "str": "'radial'"
                 },
                 {
                  "Variable": [
                   {
                    "tuple": []
                   },
                   {
                    "float": "2.5"
                   },
                   {
                    "dict": [
                     [
                      {
                       "str": "'units'"
                      },
                      {
                       "str": "'m/s'"
                      }
                     ]
                    ]
                   }
                  ]
                 }
                ]
               ]
              },
              {
               "dict": []
              }
             ]
            }
           ]
          ]
         },
         {
          "dict": []
         }
        ]
       }
      ],
      [
       {
        "str": "'positions'"
       },
       {
        "Group": [
         "/positions",
         null,
         {
          "dict": [
           [
            {
             "str": "'position'"
            },
            {
             "Group": [
              "/positions/position",
              null,
              {
               "dict": [
                [
                 {
                  "str": "'x'"
                 },
                 {
                  "Variable": [
                   {
                    "list": [
                     {
                      "str": "'positions'"
                     }
                    ]
                   },
                   {
                    "list": [
                     {
                      "float": "1000.0"
                     },
                     {
                      "float": "1001.0"
                     },
                     {
                      "float": "1002.0"
                     },
                     {
                      "float": "1003.0"
                     }
                    ]
                   },
                   {
                    "dict": [
                     [
                      {
                       "str": "'units'"
                      },
                      {
                       "str": "'m'"
                      }
                     ]
                    ]
                   }
                  ]
                 }
                ],
                [
                 {
                  "str": "'y'"
                 },
                 {
                  "Variable": [
                   {
                    "list": [
                     {
                      "str": "'positions'"
                     }
                    ]
                   },
                   {
                    "list": [
                     {
                      "float": "-0.0"
                     },
                     {
                      "float": "-2000.5"
                     },
                     {
                      "float": "-4001.0"
                     },
                     {
                      "float": "-6001.5"
                     }
                    ]
                   },
                   {
                    "dict": [
                     [
                      {
                       "str": "'units'"
                      },
                      {
                       "str": "'m'"
                      }
                     ]
                    ]
                   }
                  ]
                 }
                ],
                [
                 {
                  "str": "'z'"
                 },
                 {
                  "Variable": [
                   {
                    "list": [
                     {
                      "str": "'positions'"
                     }
                    ]
                   },
                   {
                    "list": [
                     {
                      "float": "0.0"
                     },
                     {
                      "float": "1.0"
                     },
                     {
                      "float": "4.0"
                     },
                     {
                      "float": "9.0"
                     }
                    ]
                   },
                   {
                    "dict": [
                     [
                      {
                       "str": "'units'"
                      },
                      {
                       "str": "'m'"
                      }
                     ]
                    ]
                   }
                  ]
                 }
                ]
               ]
              },
              {
               "dict": []
              }
             ]
            }
           ],
           [
            {
             "str": "'velocity'"
            },
            {
             "Group": [
              "/positions/velocity",
              null,
              {
               "dict": [
                [
                 {
                  "str": "'x'"
                 },
                 {
                  "Variable": [
                   {
                    "list": [
                     {
                      "str": "'positions'"
                     }
                    ]
                   },
                   {
                    "list": [
                     {
                      "float": "7.5"
                     },
                     {
                      "float": "7.5"
                     },
                     {
                      "float": "7.5"
                     },
                     {
                      "float": "7.5"
                     }
                    ]
                   },
                   {
                    "dict": [
                     [
                      {
                       "str": "'units'"
                      },
                      {
                       "str": "'m/s'"
                      }
                     ]
                    ]
                   }
                  ]
                 }
                ],
                [
                 {
                  "str": "'y'"
                 },
                 {
                  "Variable": [
                   {
                    "list": [
                     {
                      "str": "'positions'"
                     }
                    ]
                   },
                   {
                    "list": [
                     {
                      "float": "-0.0"
                     },
                     {
                      "float": "-0.25"
                     },
                     {
                      "float": "-0.5"
                     },
                     {
                      "float": "-0.75"
                     }
                    ]
                   },
                   {
                    "dict": [
                     [
                      {
                       "str": "'units'"
                      },
                      {
                       "str": "'m/s'"
                      }
                     ]
                    ]
                   }
                  ]
                 }
                ],
                [
                 {
                  "str": "'z'"
                 },
                 {
                  "Variable": [
                   {
                    "list": [
                     {
                      "str": "'positions'"
                     }
                    ]
                   },
                   {
                    "list": [
                     {
                      "float": "0.0"
                     },
                     {
                      "float": "0.001"
                     },
                     {
                      "float": "0.002"
                     },
                     {
                      "float": "0.003"
                     }
                    ]
                   },
                   {
                    "dict": [
                     [
                      {
                       "str": "'units'"
                      },
                      {
                       "str": "'m/s'"
                      }
                     ]
                    ]
                   }
                  ]
                 }
                ]
               ]
              },
              {
               "dict": []
              }
             ]
            }
           ]
          ]
         },
         {
          "dict": []
         }
        ]
       }
      ]
     ]
    },
    {
     "dict": [
      [
       {
        "str": "'datetime_of_first_point'"
       },
       {
        "str": "'2020-10-11T17:20:37'"
       }
      ],
      [
       {
        "str": "'reference_coordinate_system'"
       },
       {
        "str": "'ECR'"
       }
      ],
      [
       {
        "str": "'leap_second'"
       },
       {
        "bool": "True"
       }
      ]
     ]
    }
   ]
  }
 },
 "transform_platform_position/empty": {
  "returns": {
   "Group": [
    "/",
    null,
    {
     "dict": []
    },
    {
     "dict": []
    }
   ]
  }
 },
 "transform_platform_position/only_ignored": {
  "returns": {
   "Group": [
    "/",
    null,
    {
     "dict": []
    },
    {
     "dict": []
    }
   ]
  }
 },
 "transform_platform_position/no_designator": {
  "returns": {
   "Group": [
    "/",
    null,
    {
     "dict": [
      [
       {
        "str": "'sampling_frequency'"
       },
       {
        "Variable": [
         {
          "tuple": []
         },
         {
          "float": "60.0"
         },
         {
          "dict": [
           [
            {
             "str": "'units'"
            },
            {
             "str": "'s'"
            }
           ]
          ]
         }
        ]
       }
      ],
      [
       {
        "str": "'orbital_elements'"
       },
       {
        "Group": [
         "/orbital_elements",
         null,
         {
          "dict": [
           [
            {
             "str": "'position'"
            },
            {
             "Group": [
              "/orbital_elements/position",
              null,
              {
               "dict": [
                [
                 {
                  "str": "'x'"
                 },
                 {
                  "Variable": [
                   {
                    "tuple": []
                   },
                   {
                    "float": "1.5"
                   },
                   {
                    "dict": [
                     [
                      {
                       "str": "'units'"
                      },
                      {
                       "str": "'m'"
                      }
                     ]
                    ]
                   }
                  ]
                 }
                ],
                [
                 {
                  "str": "'y'"
                 },
                 {
                  "Variable": [
                   {
                    "tuple": []
                   },
                   {
                    "float": "2.5"
                   },
                   {
                    "dict": [
                     [
                      {
                       "str": "'units'"
                      },
                      {
                       "str": "'m'"
                      }
                     ]
                    ]
                   }
                  ]
                 }
                ],
                [
                 {
                  "str": "'z'"
                 },
                 {
                  "Variable": [
                   {
                    "tuple": []
                   },
                   {
                    "float": "3.5"
                   },
                   {
                    "dict": [
                     [
                      {
                       "str": "'units'"
                      },
                      {
                       "str": "'m'"
                      }
                     ]
                    ]
                   }
                  ]
                 }
                ]
               ]
              },
              {
               "dict": []
              }
             ]
            }
           ],
           [
            {
             "str": "'velocity'"
            },
            {
             "Group": [
              "/orbital_elements/velocity",
              null,
              {
               "dict": [
                [
                 {
                  "str": "'x'"
                 },
                 {
                  "Variable": [
                   {
                    "tuple": []
                   },
                   {
                    "float": "-2.5"
                   },
                   {
                    "dict": [
                     [
                      {
                       "str": "'units'"
                      },
                      {
                       "str": "'m/s'"
                      }
                     ]
                    ]
                   }
                  ]
                 }
                ],
                [
                 {
                  "str": "'y'"
                 },
                 {
                  "Variable": [
                   {
                    "tuple": []
                   },
                   {
                    "float": "-1.5"
                   },
                   {
                    "dict": [
                     [
                      {
                       "str": "'units'"
                      },
                      {
                       "str": "'m/s'"
                      }
                     ]
                    ]
                   }
                  ]
                 }
                ],
                [
                 {
                  "str": "'z'"
                 },
                 {
                  "Variable": [
                   {
                    "tuple": []
                   },
                   {
                    "float": "-0.5"
                   },
                   {
                    "dict": [
                     [
                      {
                       "str": "'units'"
                      },
                      {
                       "str": "'m/s'"
                      }
                     ]
                    ]
                   }
                  ]
                 }
                ]
               ]
              },
              {
               "dict": []
              }
             ]
            }
           ]
          ]
         },
         {
          "dict": []
         }
        ]
       }
      ],
      [
       {
        "str": "'nominal_error'"
       },
       {
        "Group": [
         "/nominal_error",
         null,
         {
          "dict": [
           [
            {
             "str": "'position'"
            },
            {
             "Group": [
              "/nominal_error/position",
              null,
              {
               "dict": [
                [
                 {
                  "str": "'along_track'"
                 },
                 {
                  "Variable": [
                   {
                    "tuple": []
                   },
                   {
                    "float": "0.0"
                   },
                   {
                    "dict": [
                     [
                      {
                       "str": "'units'"
                      },
                      {
                       "str": "'m'"
                      }
                     ]
                    ]
                   }
                  ]
                 }
                ],
                [
                 {
                  "str": "'across_track'"
                 },
                 {
                  "Variable": [
                   {
                    "tuple": []
                   },
                   {
                    "float": "1.0"
                   },
                   {
                    "dict": [
                     [
                      {
                       "str": "'units'"
                      },
                      {
                       "str": "'m'"
                      }
                     ]
                    ]
                   }
                  ]
                 }
                ],
                [
                 {
                  "str": "'radial'"
                 },
                 {
                  "Variable": [
                   {
                    "tuple": []
                   },
                   {
                    "float": "2.0"
                   },
                   {
                    "dict": [
                     [
                      {
                       "str": "'units'"
                      },
                      {
                       "str": "'m'"
                      }
                     ]
                    ]
                   }
                  ]
                 }
                ]
               ]
              },
              {
               "dict": []
              }
             ]
            }
           ],
           [
            {
             "str": "'velocity'"
            },
            {
             "Group": [
              "/nominal_error/velocity",
              null,
              {
               "dict": [
                [
                 {
                  "str": "'along_track'"
                 },
                 {
                  "Variable": [
                   {
                    "tuple": []
                   },
                   {
                    "float": "0.5"
                   },
                   {
                    "dict": [
                     [
                      {
                       "str": "'units'"
                      },
                      {
                       "str": "'m/s'"
                      }
                     ]
                    ]
                   }
                  ]
                 }
                ],
                [
                 {
                  "str": "'across_track'"
                 },
                 {
                  "Variable": [
                   {
                    "tuple": []
                   },
                   {
                    "float": "1.5"
                   },
                   {
                    "dict": [
                     [
                      {
                       "str": "'units'"
                      },
                      {
                       "str": "'m/s'"
                      }
                     ]
                    ]
                   }
                  ]
                 }
                ],
                [
                 {
                  "str": "'radial'"
                 },
                 {
                  "Variable": [
                   {
                    "tuple": []
                   },
                   {
                    "float": "2.5"
                   },
                   {
                    "dict": [
                     [
                      {
                       "str": "'units'"
                      },
                      {
                       "str": "'m/s'"
                      }
                     ]
                    ]
                   }
                  ]
                 }
                ]
               ]
              },
              {
               "dict": []
              }
             ]
            }
           ]
          ]
         },
         {
          "dict": []
         }
        ]
       }
      ],
      [
       {
        "str": "'positions'"
       },
       {
        "Group": [
         "/positions",
         null,
         {
          "dict": [
           [
            {
             "str": "'position'"
            },
            {
             "Group": [
              "/positions/position",
              null,
              {
               "dict": [
                [
                 {
                  "str": "'x'"
                 },
                 {
                  "Variable": [
                   {
                    "list": [
                     {
                      "str": "'positions'"
                     }
                    ]
                   },
                   {
                    "list": [
                     {
                      "float": "1000.0"
                     },
                     {
                      "float": "1001.0"
                     },
                     {
                      "float": "1002.0"
                     },
                     {
                      "float": "1003.0"
                     }
                    ]
                   },
                   {
                    "dict": [
                     [
                      {
                       "str": "'units'"
                      },
                      {
                       "str": "'m'"
                      }
                     ]
                    ]
                   }
                  ]
                 }
                ],
                [
                 {
                  "str": "'y'"
                 },
                 {
                  "Variable": [
                   {
                    "list": [
                     {
                      "str": "'positions'"
                     }
                    ]
                   },
                   {
                    "list": [
                     {
                      "float": "-0.0"
                     },
                     {
                      "float": "-2000.5"
                     },
                     {
                      "float": "-4001.0"
                     },
                     {
                      "float": "-6001.5"
                     }
                    ]
                   },
                   {
                    "dict": [
                     [
                      {
                       "str": "'units'"
                      },
                      {
                       "str": "'m'"
                      }
                     ]
                    ]
                   }
                  ]
                 }
                ],
                [
                 {
                  "str": "'z'"
                 },
                 {
                  "Variable": [
                   {
                    "list": [
                     {
                      "str": "'positions'"
                     }
                    ]
                   },
                   {
                    "list": [
                     {
                      "float": "0.0"
                     },
                     {
                      "float": "1.0"
                     },
                     {
                      "float": "4.0"
                     },
                     {
                      "float": "9.0"
                     }
                    ]
                   },
                   {
                    "dict": [
                     [
                      {
                       "str": "'units'"
                      },
                      {
                       "str": "'m'"
                      }
                     ]
                    ]
                   }
                  ]
                 }
                ]
               ]
              },
              {
               "dict": []
              }
             ]
            }
           ],
           [
            {
             "str": "'velocity'"
            },
            {
             "Group": [
              "/positions/velocity",
              null,
              {
               "dict": [
                [
                 {
                  "str": "'x'"
                 },
                 {
                  "Variable": [
                   {
                    "list": [
                     {
                      "str": "'positions'"
                     }
                    ]
                   },
                   {
                    "list": [
                     {
                      "float": "7.5"
                     },
                     {
                      "float": "7.5"
                     },
                     {
                      "float": "7.5"
                     },
                     {
                      "float": "7.5"
                     }
                    ]
                   },
                   {
                    "dict": [
                     [
                      {
                       "str": "'units'"
                      },
                      {
                       "str": "'m/s'"
                      }
                     ]
                    ]
                   }
                  ]
                 }
                ],
                [
                 {
                  "str": "'y'"
                 },
                 {
                  "Variable": [
                   {
                    "list": [
                     {
                      "str": "'positions'"
                     }
                    ]
                   },
                   {
                    "list": [
                     {
                      "float": "-0.0"
                     },
                     {
                      "float": "-0.25"
                     },
                     {
                      "float": "-0.5"
                     },
                     {
                      "float": "-0.75"
                     }
                    ]
                   },
                   {
                    "dict": [
                     [
                      {
                       "str": "'units'"
                      },
                      {
                       "str": "'m/s'"
                      }
                     ]
                    ]
                   }
                  ]
                 }
                ],
                [
                 {
                  "str": "'z'"
                 },
                 {
                  "Variable": [
                   {
                    "list": [
                     {
                      "str": "'positions'"
                     }
                    ]
                   },
                   {
                    "list": [
                     {
                      "float": "0.0"
                     },
                     {
                      "float": "0.001"
                     },
                     {
                      "float": "0.002"
                     },
                     {
                      "float": "0.003"
                     }
                    ]
                   },
                   {
                    "dict": [
                     [
                      {
                       "str": "'units'"
                      },
                      {
                       "str": "'m/s'"
                      }
                     ]
                    ]
                   }
                  ]
                 }
                ]
               ]
              },
              {
               "dict": []
              }
             ]
            }
           ]
          ]
         },
         {
          "dict": []
         }
        ]
       }
      ]
     ]
    },
    {
     "dict": [
      [
       {
        "str": "'datetime_of_first_point'"
       },
       {
        "str": "'2020-10-11T17:20:37'"
       }
      ],
      [
       {
        "str": "'reference_coordinate_system'"
       },
       {
        "str": "'ECR'"
       }
      ],
      [
       {
        "str": "'leap_second'"
       },
       {
        "bool": "False"
       }
      ]
     ]
    }
   ]
  }
 },
 "transform_platform_position/no_orbital_elements": {
  "returns": {
   "Group": [
    "/",
    null,
    {
     "dict": [
      [
       {
        "str": "'sampling_frequency'"
       },
       {
        "Variable": [
         {
          "tuple": []
         },
         {
          "float": "60.0"
         },
         {
          "dict": [
           [
            {
             "str": "'units'"
            },
            {
             "str": "'s'"
            }
           ]
          ]
         }
        ]
       }
      ],
      [
       {
        "str": "'nominal_error'"
       },
       {
        "Group": [
         "/nominal_error",
         null,
         {
          "dict": [
           [
            {
             "str": "'position'"
            },
            {
             "Group": [
              "/nominal_error/position",
              null,
              {
               "dict": [
                [
                 {
                  "str": "'along_track'"
                 },
                 {
                  "Variable": [
                   {
                    "tuple": []
                   },
                   {
                    "float": "0.0"
                   },
                   {
                    "dict": [
                     [
                      {
                       "str": "'units'"
                      },
                      {
                       "str": "'m'"
                      }
                     ]
                    ]
                   }
                  ]
                 }
                ],
                [
                 {
                  "str": "'across_track'"
                 },
                 {
                  "Variable": [
                   {
                    "tuple": []
                   },
                   {
                    "float": "1.0"
                   },
                   {
                    "dict": [
                     [
                      {
                       "str": "'units'"
                      },
                      {
                       "str": "'m'"
                      }
                     ]
                    ]
                   }
                  ]
                 }
                ],
                [
                 {
                  "str": "'radial'"
                 },
                 {
                  "Variable": [
                   {
                    "tuple": []
                   },
                   {
                    "float": "2.0"
                   },
                   {
                    "dict": [
                     [
                      {
                       "str": "'units'"
                      },
                      {
                       "str": "'m'"
                      }
                     ]
                    ]
                   }
                  ]
                 }
                ]
               ]
              },
              {
               "dict": []
              }
             ]
            }
           ],
           [
            {
             "str": "'velocity'"
            },
            {
             "Group": [
              "/nominal_error/velocity",
              null,
              {
               "dict": [
                [
                 {
                  "str": "'along_track'"
                 },
                 {
                  "Variable": [
                   {
                    "tuple": []
                   },
                   {
                    "float": "0.5"
                   },
                   {
                    "dict": [
                     [
                      {
                       "str": "'units'"
                      },
                      {
                       "str": "'m/s'"
                      }
                     ]
                    ]
                   }
                  ]
                 }
                ],
                [
                 {
                  "str": "'across_track'"
                 },
                 {
                  "Variable": [
                   {
                    "tuple": []
                   },
                   {
                    "float": "1.5"
                   },
                   {
                    "dict": [
                     [
                      {
                       "str": "'units'"
                      },
                      {
                       "str": "'m/s'"
                      }
                     ]
                    ]
                   }
                  ]
                 }
                ],
                [
                 {
                  "str": "'radial'"
                 },
                 {
                  "Variable": [
                   {
                    "tuple": []
                   },
                   {
                    "float": "2.5"
                   },
                   {
                    "dict": [
                     [
                      {
                       "str": "'units'"
                      },
                      {
                       "str": "'m/s'"
                      }
                     ]
                    ]
                   }
                  ]
                 }
                ]
               ]
              },
              {
               "dict": []
              }
             ]
            }
           ]
          ]
         },
         {
          "dict": []
         }
        ]
       }
      ],
      [
       {
        "str": "'positions'"
       },
       {
        "Group": [
         "/positions",
         null,
         {
          "dict": [
           [
            {
             "str": "'position'"
            },
            {
             "Group": [
              "/positions/position",
              null,
              {
               "dict": [
                [
                 {
                  "str": "'x'"
                 },
                 {
                  "Variable": [
                   {
                    "list": [
                     {
                      "str": "'positions'"
                     }
                    ]
                   },
                   {
                    "list": [
                     {
                      "float": "1000.0"
                     },
                     {
                      "float": "1001.0"
                     },
                     {
                      "float": "1002.0"
                     },
                     {
                      "float": "1003.0"
                     }
                    ]
                   },
                   {
                    "dict": [
                     [
                      {
                       "str": "'units'"
                      },
                      {
                       "str": "'m'"
                      }
                     ]
                    ]
                   }
                  ]
                 }
                ],
                [
                 {
                  "str": "'y'"
                 },
                 {
                  "Variable": [
                   {
                    "list": [
                     {
                      "str": "'positions'"
                     }
                    ]
                   },
                   {
                    "list": [
                     {
                      "float": "-0.0"
                     },
                     {
                      "float": "-2000.5"
                     },
                     {
                      "float": "-4001.0"
                     },
                     {
                      "float": "-6001.5"
                     }
                    ]
                   },
                   {
                    "dict": [
                     [
                      {
                       "str": "'units'"
                      },
                      {
                       "str": "'m'"
                      }
                     ]
                    ]
                   }
                  ]
                 }
                ],
                [
                 {
                  "str": "'z'"
                 },
                 {
                  "Variable": [
                   {
                    "list": [
                     {
                      "str": "'positions'"
                     }
                    ]
                   },
                   {
                    "list": [
                     {
                      "float": "0.0"
                     },
                     {
                      "float": "1.0"
                     },
                     {
                      "float": "4.0"
                     },
                     {
                      "float": "9.0"
                     }
                    ]
                   },
                   {
                    "dict": [
                     [
                      {
                       "str": "'units'"
                      },
                      {
                       "str": "'m'"
                      }
                     ]
                    ]
                   }
                  ]
                 }
                ]
               ]
              },
              {
               "dict": []
              }
             ]
            }
           ],
           [
            {
             "str": "'velocity'"
            },
            {
             "Group": [
              "/positions/velocity",
              null,
              {
               "dict": [
                [
                 {
                  "str": "'x'"
                 },
                 {
                  "Variable": [
                   {
                    "list": [
                     {
                      "str": "'positions'"
                     }
                    ]
                   },
                   {
                    "list": [
                     {
                      "float": "7.5"
                     },
                     {
                      "float": "7.5"
                     },
                     {
                      "float": "7.5"
                     },
                     {
                      "float": "7.5"
                     }
                    ]
                   },
                   {
                    "dict": [
                     [
                      {
                       "str": "'units'"
                      },
                      {
                       "str": "'m/s'"
                      }
                     ]
                    ]
                   }
                  ]
                 }
                ],
                [
                 {
                  "str": "'y'"
                 },
                 {
                  "Variable": [
                   {
                    "list": [
                     {
                      "str": "'positions'"
                     }
                    ]
                   },
                   {
                    "list": [
                     {
                      "float": "-0.0"
                     },
                     {
                      "float": "-0.25"
                     },
                     {
                      "float": "-0.5"
                     },
                     {
                      "float": "-0.75"
                     }
                    ]
                   },
                   {
                    "dict": [
                     [
                      {
                       "str": "'units'"
                      },
                      {
                       "str": "'m/s'"
                      }
                     ]
                    ]
                   }
                  ]
                 }
                ],
                [
                 {
                  "str": "'z'"
                 },
                 {
                  "Variable": [
                   {
                    "list": [
                     {
                      "str": "'positions'"
                     }
                    ]
                   },
                   {
                    "list": [
                     {
                      "float": "0.0"
                     },
                     {
                      "float": "0.001"
                     },
                     {
                      "float": "0.002"
                     },
                     {
                      "float": "0.003"
                     }
                    ]
                   },
                   {
                    "dict": [
                     [
                      {
                       "str": "'units'"
                      },
                      {
                       "str": "'m/s'"
                      }
                     ]
                    ]
                   }
                  ]
                 }
                ]
               ]
              },
              {
               "dict": []
              }
             ]
            }
           ]
          ]
         },
         {
          "dict": []
         }
        ]
       }
      ],
      [
       {
        "str": "'orbital_elements'"
       },
       {
        "Group": [
         "/orbital_elements",
         null,
         {
          "dict": []
         },
         {
          "dict": [
           [
            {
             "str": "'type'"
            },
            {
             "str": "'high_precision'"
            }
           ]
          ]
         }
        ]
       }
      ]
     ]
    },
    {
     "dict": [
      [
       {
        "str": "'datetime_of_first_point'"
       },
       {
        "str": "'2020-10-11T17:20:37'"
       }
      ],
      [
       {
        "str": "'reference_coordinate_system'"
       },
       {
        "str": "'ECR'"
       }
      ],
      [
       {
        "str": "'leap_second'"
       },
       {
        "bool": "False"
       }
      ]
     ]
    }
   ]
  }
 },
 "transform_platform_position/designator_only": {
  "returns": {
   "Group": [
    "/",
    null,
    {
     "dict": [
      [
       {
        "str": "'orbital_elements'"
       },
       {
        "Group": [
         "/orbital_elements",
         null,
         {
          "dict": []
         },
         {
          "dict": [
           [
            {
             "str": "'type'"
            },
            {
             "str": "'decision'"
            }
           ]
          ]
         }
        ]
       }
      ]
     ]
    },
    {
     "dict": []
    }
   ]
  }
 },
 "transform_platform_position/orbital_elements_with_type": {
  "returns": {
   "Group": [
    "/",
    null,
    {
     "dict": [
      [
       {
        "str": "'orbital_elements'"
       },
       {
        "Group": [
         "/orbital_elements",
         null,
         {
          "dict": []
         },
         {
          "dict": [
           [
            {
             "str": "'type'"
            },
            {
             "str": "'new'"
            }
           ],
           [
            {
             "str": "'a'"
            },
            {
             "int": "1"
            }
           ]
          ]
         }
        ]
       }
      ]
     ]
    },
    {
     "dict": []
    }
   ]
  }
 },
 "transform_platform_position/translated_name_clash": {
  "returns": {
   "Group": [
    "/",
    null,
    {
     "dict": []
    },
    {
     "dict": [
      [
       {
        "str": "'leap_second'"
       },
       {
        "bool": "True"
       }
      ],
      [
       {
        "str": "'sampling_frequency'"
       },
       {
        "int": "1"
       }
      ]
     ]
    }
   ]
  }
 },
 "transform_platform_position/spares_in_subgroups": {
  "returns": {
   "Group": [
    "/",
    null,
    {
     "dict": [
      [
       {
        "str": "'nominal_error'"
       },
       {
        "Group": [
         "/nominal_error",
         null,
         {
          "dict": [
           [
            {
             "str": "'position'"
            },
            {
             "Group": [
              "/nominal_error/position",
              null,
              {
               "dict": []
              },
              {
               "dict": []
              }
             ]
            }
           ]
          ]
         },
         {
          "dict": [
           [
            {
             "str": "'spare_kept'"
            },
            {
             "int": "1"
            }
           ]
          ]
         }
        ]
       }
      ],
      [
       {
        "str": "'positions'"
       },
       {
        "Group": [
         "/positions",
         null,
         {
          "dict": [
           [
            {
             "str": "'position'"
            },
            {
             "Group": [
              "/positions/position",
              null,
              {
               "dict": [
                [
                 {
                  "str": "'x'"
                 },
                 {
                  "Variable": [
                   {
                    "list": [
                     {
                      "str": "'positions'"
                     }
                    ]
                   },
                   {
                    "list": [
                     {
                      "float": "1.0"
                     }
                    ]
                   },
                   {
                    "dict": []
                   }
                  ]
                 }
                ]
               ]
              },
              {
               "dict": []
              }
             ]
            }
           ]
          ]
         },
         {
          "dict": []
         }
        ]
       }
      ]
     ]
    },
    {
     "dict": []
    }
   ]
  }
 },
 "transform_platform_position/unknown_fields": {
  "returns": {
   "Group": [
    "/",
    null,
    {
     "dict": [
      [
       {
        "str": "'extra_var'"
       },
       {
        "Variable": [
         {
          "tuple": []
         },
         {
          "int": "2"
         },
         {
          "dict": [
           [
            {
             "str": "'u'"
            },
            {
             "str": "'v'"
            }
           ]
          ]
         }
        ]
       }
      ],
      [
       {
        "str": "'extra_group'"
       },
       {
        "Group": [
         "/extra_group",
         null,
         {
          "dict": []
         },
         {
          "dict": [
           [
            {
             "str": "'a'"
            },
            {
             "int": "1"
            }
           ]
          ]
         }
        ]
       }
      ]
     ]
    },
    {
     "dict": [
      [
       {
        "str": "'extra'"
       },
       {
        "int": "1"
       }
      ]
     ]
    }
   ]
  }
 },
 "transform_platform_position/bad:mapping_none": {
  "raises": [
   "AttributeError",
   "'NoneType' object has no attribute 'items'"
  ]
 },
 "transform_platform_position/bad:mapping_list": {
  "raises": [
   "AttributeError",
   "'list' object has no attribute 'items'"
  ]
 },
 "transform_platform_position/bad:datetime_missing_date": {
  "raises": [
   "KeyError",
   "'date'"
  ]
 },
 "transform_platform_position/bad:datetime_seconds_str": {
  "raises": [
   "TypeError",
   "unsupported type for timedelta seconds component: str"
  ]
 },
 "transform_platform_position/bad:datetime_none": {
  "raises": [
   "TypeError",
   "'NoneType' object is not subscriptable"
  ]
 },
 "transform_platform_position/bad:positions_none": {
  "raises": [
   "TypeError",
   "toolz.dicttoolz.merge_with() argument after * must be an iterable, not NoneType"
  ]
 },
 "transform_platform_position/bad:positions_ints": {
  "raises": [
   "AttributeError",
   "'int' object has no attribute 'items'"
  ]
 },
 "transform_platform_position/bad:positions_one_int": {
  "raises": [
   "AttributeError",
   "'curry' object has no attribute 'keys'"
  ]
 },
 "transform_platform_position/bad:orbital_elements_not_mapping": {
  "raises": [
   "TypeError",
   "'int' object is not iterable"
  ]
 },
 "transform_platform_position/bad:variable_1tuple": {
  "raises": [
   "ValueError",
   "not enough values to unpack (expected 3, got 1)"
  ]
 },
 "transform_platform_position/bad:first_error_wins": {
  "raises": [
   "TypeError",
   "toolz.dicttoolz.merge_with() argument after * must be an iterable, not NoneType"
  ]
 },
 "parsed/high_precision": {
  "returns": {
   "Group": [
    "/",
    null,
    {
     "dict": [
      [
       {
        "str": "'sampling_frequency'"
       },
       {
        "Variable": [
         {
          "tuple": []
         },
         {
          "float": "60.0"
         },
         {
          "dict": [
           [
            {
             "str": "'units'"
            },
            {
             "str": "'s'"
            }
           ]
          ]
         }
        ]
       }
      ],
      [
       {
        "str": "'orbital_elements'"
       },
       {
        "Group": [
         "/orbital_elements",
         null,
         {
          "dict": [
           [
            {
             "str": "'position'"
            },
            {
             "Group": [
              "/orbital_elements/position",
              null,
              {
               "dict": [
                [
                 {
                  "str": "'x'"
                 },
                 {
                  "Variable": [
                   {
                    "tuple": []
                   },
                   {
                    "float": "100.0"
                   },
                   {
                    "dict": [
                     [
                      {
                       "str": "'units'"
                      },
                      {
                       "str": "'m'"
                      }
                     ]
                    ]
                   }
                  ]
                 }
                ],
                [
                 {
                  "str": "'y'"
                 },
                 {
                  "Variable": [
                   {
                    "tuple": []
                   },
                   {
                    "float": "200.0"
                   },
                   {
                    "dict": [
                     [
                      {
                       "str": "'units'"
                      },
                      {
                       "str": "'m'"
                      }
                     ]
                    ]
                   }
                  ]
                 }
                ],
                [
                 {
                  "str": "'z'"
                 },
                 {
                  "Variable": [
                   {
                    "tuple": []
                   },
                   {
                    "float": "300.0"
                   },
                   {
                    "dict": [
                     [
                      {
                       "str": "'units'"
                      },
                      {
                       "str": "'m'"
                      }
                     ]
                    ]
                   }
                  ]
                 }
                ]
               ]
              },
              {
               "dict": []
              }
             ]
            }
           ],
           [
            {
             "str": "'velocity'"
            },
            {
             "Group": [
              "/orbital_elements/velocity",
              null,
              {
               "dict": [
                [
                 {
                  "str": "'x'"
                 },
                 {
                  "Variable": [
                   {
                    "tuple": []
                   },
                   {
                    "float": "400.0"
                   },
                   {
                    "dict": [
                     [
                      {
                       "str": "'units'"
                      },
                      {
                       "str": "'m/s'"
                      }
                     ]
                    ]
                   }
                  ]
                 }
                ],
                [
                 {
                  "str": "'y'"
                 },
                 {
                  "Variable": [
                   {
                    "tuple": []
                   },
                   {
                    "float": "500.0"
                   },
                   {
                    "dict": [
                     [
                      {
                       "str": "'units'"
                      },
                      {
                       "str": "'m/s'"
                      }
                     ]
                    ]
                   }
                  ]
                 }
                ],
                [
                 {
                  "str": "'z'"
                 },
                 {
                  "Variable": [
                   {
                    "tuple": []
                   },
                   {
                    "float": "600.0"
                   },
                   {
                    "dict": [
                     [
                      {
                       "str": "'units'"
                      },
                      {
                       "str": "'m/s'"
                      }
                     ]
                    ]
                   }
                  ]
                 }
                ]
               ]
              },
              {
               "dict": []
              }
             ]
            }
           ]
          ]
         },
         {
          "dict": [
           [
            {
             "str": "'type'"
            },
            {
             "str": "'high_precision'"
            }
           ]
          ]
         }
        ]
       }
      ],
      [
       {
        "str": "'nominal_error'"
       },
       {
        "Group": [
         "/nominal_error",
         null,
         {
          "dict": [
           [
            {
             "str": "'position'"
            },
            {
             "Group": [
              "/nominal_error/position",
              null,
              {
               "dict": [
                [
                 {
                  "str": "'along_track'"
                 },
                 {
                  "Variable": [
                   {
                    "tuple": []
                   },
                   {
                    "float": "0.0"
                   },
                   {
                    "dict": [
                     [
                      {
                       "str": "'units'"
                      },
                      {
                       "str": "'m'"
                      }
                     ]
                    ]
                   }
                  ]
                 }
                ],
                [
                 {
                  "str": "'across_track'"
                 },
                 {
                  "Variable": [
                   {
                    "tuple": []
                   },
                   {
                    "float": "0.25"
                   },
                   {
                    "dict": [
                     [
                      {
                       "str": "'units'"
                      },
                      {
                       "str": "'m'"
                      }
                     ]
                    ]
                   }
                  ]
                 }
                ],
                [
                 {
                  "str": "'radial'"
                 },
                 {
                  "Variable": [
                   {
                    "tuple": []
                   },
                   {
                    "float": "0.5"
                   },
                   {
                    "dict": [
                     [
                      {
                       "str": "'units'"
                      },
                      {
                       "str": "'m'"
                      }
                     ]
                    ]
                   }
                  ]
                 }
                ]
               ]
              },
              {
               "dict": []
              }
             ]
            }
           ],
           [
            {
             "str": "'velocity'"
            },
            {
             "Group": [
              "/nominal_error/velocity",
              null,
              {
               "dict": [
                [
                 {
                  "str": "'along_track'"
                 },
                 {
                  "Variable": [
                   {
                    "tuple": []
                   },
                   {
                    "float": "0.75"
                   },
                   {
                    "dict": [
                     [
                      {
                       "str": "'units'"
                      },
                      {
                       "str": "'m/s'"
                      }
                     ]
                    ]
                   }
                  ]
                 }
                ],
                [
                 {
                  "str": "'across_track'"
                 },
                 {
                  "Variable": [
                   {
                    "tuple": []
                   },
                   {
                    "float": "1.0"
                   },
                   {
                    "dict": [
                     [
                      {
                       "str": "'units'"
                      },
                      {
                       "str": "'m/s'"
                      }
                     ]
                    ]
                   }
                  ]
                 }
                ],
                [
                 {
                  "str": "'radial'"
                 },
                 {
                  "Variable": [
                   {
                    "tuple": []
                   },
                   {
                    "float": "1.25"
                   },
                   {
                    "dict": [
                     [
                      {
                       "str": "'units'"
                      },
                      {
                       "str": "'m/s'"
                      }
                     ]
                    ]
                   }
                  ]
                 }
                ]
               ]
              },
              {
               "dict": []
              }
             ]
            }
           ]
          ]
         },
         {
          "dict": []
         }
        ]
       }
      ],
      [
       {
        "str": "'positions'"
       },
       {
        "Group": [
         "/positions",
         null,
         {
          "dict": [
           [
            {
             "str": "'position'"
            },
            {
             "Group": [
              "/positions/position",
              null,
              {
               "dict": [
                [
                 {
                  "str": "'x'"
                 },
                 {
                  "Variable": [
                   {
                    "list": [
                     {
                      "str": "'positions'"
                     }
                    ]
                   },
                   {
                    "list": [
                     {
                      "float": "0.0"
                     },
                     {
                      "float": "1000.0"
                     },
                     {
                      "float": "2000.0"
                     },
                     {
                      "float": "3000.0"
                     },
                     {
                      "float": "4000.0"
                     },
                     {
                      "float": "5000.0"
                     },
                     {
                      "float": "6000.0"
                     },
                     {
                      "float": "7000.0"
                     },
                     {
                      "float": "8000.0"
                     },
                     {
                      "float": "9000.0"
                     },
                     {
                      "float": "10000.0"
                     },
                     {
                      "float": "11000.0"
                     },
                     {
                      "float": "12000.0"
                     },
                     {
                      "float": "13000.0"
                     },
                     {
                      "float": "14000.0"
                     },
                     {
                      "float": "15000.0"
                     },
                     {
                      "float": "16000.0"
                     },
                     {
                      "float": "17000.0"
                     },
                     {
                      "float": "18000.0"
                     },
                     {
                      "float": "19000.0"
                     },
                     {
                      "float": "20000.0"
                     },
                     {
                      "float": "21000.0"
                     },
                     {
                      "float": "22000.0"
                     },
                     {
                      "float": "23000.0"
                     },
                     {
                      "float": "24000.0"
                     },
                     {
                      "float": "25000.0"
                     },
                     {
                      "float": "26000.0"
                     },
                     {
                      "float": "27000.0"
                     }
                    ]
                   },
                   {
                    "dict": [
                     [
                      {
                       "str": "'units'"
                      },
                      {
                       "str": "'m'"
                      }
                     ]
                    ]
                   }
                  ]
                 }
                ],
                [
                 {
                  "str": "'y'"
                 },
                 {
                  "Variable": [
                   {
                    "list": [
                     {
                      "str": "'positions'"
                     }
                    ]
                   },
                   {
                    "list": [
                     {
                      "float": "-1.0"
                     },
                     {
                      "float": "-1001.0"
                     },
                     {
                      "float": "-2001.0"
                     },
                     {
                      "float": "-3001.0"
                     },
                     {
                      "float": "-4001.0"
                     },
                     {
                      "float": "-5001.0"
                     },
                     {
                      "float": "-6001.0"
                     },
                     {
                      "float": "-7001.0"
                     },
                     {
                      "float": "-8001.0"
                     },
                     {
                      "float": "-9001.0"
                     },
                     {
                      "float": "-10001.0"
                     },
                     {
                      "float": "-11001.0"
                     },
                     {
                      "float": "-12001.0"
                     },
                     {
                      "float": "-13001.0"
                     },
                     {
                      "float": "-14001.0"
                     },
                     {
                      "float": "-15001.0"
                     },
                     {
                      "float": "-16001.0"
                     },
                     {
                      "float": "-17001.0"
                     },
                     {
                      "float": "-18001.0"
                     },
                     {
                      "float": "-19001.0"
                     },
                     {
                      "float": "-20001.0"
                     },
                     {
                      "float": "-21001.0"
                     },
                     {
                      "float": "-22001.0"
                     },
                     {
                      "float": "-23001.0"
                     },
                     {
                      "float": "-24001.0"
                     },
                     {
                      "float": "-25001.0"
                     },
                     {
                      "float": "-26001.0"
                     },
                     {
                      "float": "-27001.0"
                     }
                    ]
                   },
                   {
                    "dict": [
                     [
                      {
                       "str": "'units'"
                      },
                      {
                       "str": "'m'"
                      }
                     ]
                    ]
                   }
                  ]
                 }
                ],
                [
                 {
                  "str": "'z'"
                 },
                 {
                  "Variable": [
                   {
                    "list": [
                     {
                      "str": "'positions'"
                     }
                    ]
                   },
                   {
                    "list": [
                     {
                      "float": "2.0"
                     },
                     {
                      "float": "1002.0"
                     },
                     {
                      "float": "2002.0"
                     },
                     {
                      "float": "3002.0"
                     },
                     {
                      "float": "4002.0"
                     },
                     {
                      "float": "5002.0"
                     },
                     {
                      "float": "6002.0"
                     },
                     {
                      "float": "7002.0"
                     },
                     {
                      "float": "8002.0"
                     },
                     {
                      "float": "9002.0"
                     },
                     {
                      "float": "10002.0"
                     },
                     {
                      "float": "11002.0"
                     },
                     {
                      "float": "12002.0"
                     },
                     {
                      "float": "13002.0"
                     },
                     {
                      "float": "14002.0"
                     },
                     {
                      "float": "15002.0"
                     },
                     {
                      "float": "16002.0"
                     },
                     {
                      "float": "17002.0"
                     },
                     {
                      "float": "18002.0"
                     },
                     {
                      "float": "19002.0"
                     },
                     {
                      "float": "20002.0"
                     },
                     {
                      "float": "21002.0"
                     },
                     {
                      "float": "22002.0"
                     },
                     {
                      "float": "23002.0"
                     },
                     {
                      "float": "24002.0"
                     },
                     {
                      "float": "25002.0"
                     },
                     {
                      "float": "26002.0"
                     },
                     {
                      "float": "27002.0"
                     }
                    ]
                   },
                   {
                    "dict": [
                     [
                      {
                       "str": "'units'"
                      },
                      {
                       "str": "'m'"
                      }
                     ]
                    ]
                   }
                  ]
                 }
                ]
               ]
              },
              {
               "dict": []
              }
             ]
            }
           ],
           [
            {
             "str": "'velocity'"
            },
            {
             "Group": [
              "/positions/velocity",
              null,
              {
               "dict": [
                [
                 {
                  "str": "'x'"
                 },
                 {
                  "Variable": [
                   {
                    "list": [
                     {
                      "str": "'positions'"
                     }
                    ]
                   },
                   {
                    "list": [
                     {
                      "float": "-3.0"
                     },
                     {
                      "float": "-1003.0"
                     },
                     {
                      "float": "-2003.0"
                     },
                     {
                      "float": "-3003.0"
                     },
                     {
                      "float": "-4003.0"
                     },
                     {
                      "float": "-5003.0"
                     },
                     {
                      "float": "-6003.0"
                     },
                     {
                      "float": "-7003.0"
                     },
                     {
                      "float": "-8003.0"
                     },
                     {
                      "float": "-9003.0"
                     },
                     {
                      "float": "-10003.0"
                     },
                     {
                      "float": "-11003.0"
                     },
                     {
                      "float": "-12003.0"
                     },
                     {
                      "float": "-13003.0"
                     },
                     {
                      "float": "-14003.0"
                     },
                     {
                      "float": "-15003.0"
                     },
                     {
                      "float": "-16003.0"
                     },
                     {
                      "float": "-17003.0"
                     },
                     {
                      "float": "-18003.0"
                     },
                     {
                      "float": "-19003.0"
                     },
                     {
                      "float": "-20003.0"
                     },
                     {
                      "float": "-21003.0"
                     },
                     {
                      "float": "-22003.0"
                     },
                     {
                      "float": "-23003.0"
                     },
                     {
                      "float": "-24003.0"
                     },
                     {
                      "float": "-25003.0"
                     },
                     {
                      "float": "-26003.0"
                     },
                     {
                      "float": "-27003.0"
                     }
                    ]
                   },
                   {
                    "dict": [
                     [
                      {
                       "str": "'units'"
                      },
                      {
                       "str": "'m/s'"
                      }
                     ]
                    ]
                   }
                  ]
                 }
                ],
                [
                 {
                  "str": "'y'"
                 },
                 {
                  "Variable": [
                   {
                    "list": [
                     {
                      "str": "'positions'"
                     }
                    ]
                   },
                   {
                    "list": [
                     {
                      "float": "4.0"
                     },
                     {
                      "float": "1004.0"
                     },
                     {
                      "float": "2004.0"
                     },
                     {
                      "float": "3004.0"
                     },
                     {
                      "float": "4004.0"
                     },
                     {
                      "float": "5004.0"
                     },
                     {
                      "float": "6004.0"
                     },
                     {
                      "float": "7004.0"
                     },
                     {
                      "float": "8004.0"
                     },
                     {
                      "float": "9004.0"
                     },
                     {
                      "float": "10004.0"
                     },
                     {
                      "float": "11004.0"
                     },
                     {
                      "float": "12004.0"
                     },
                     {
                      "float": "13004.0"
                     },
                     {
                      "float": "14004.0"
                     },
                     {
                      "float": "15004.0"
                     },
                     {
                      "float": "16004.0"
                     },
                     {
                      "float": "17004.0"
                     },
                     {
                      "float": "18004.0"
                     },
                     {
                      "float": "19004.0"
                     },
                     {
                      "float": "20004.0"
                     },
                     {
                      "float": "21004.0"
                     },
                     {
                      "float": "22004.0"
                     },
                     {
                      "float": "23004.0"
                     },
                     {
                      "float": "24004.0"
                     },
                     {
                      "float": "25004.0"
                     },
                     {
                      "float": "26004.0"
                     },
                     {
                      "float": "27004.0"
                     }
                    ]
                   },
                   {
                    "dict": [
                     [
                      {
                       "str": "'units'"
                      },
                      {
                       "str": "'m/s'"
                      }
                     ]
                    ]
                   }
                  ]
                 }
                ],
                [
                 {
                  "str": "'z'"
                 },
                 {
                  "Variable": [
                   {
                    "list": [
                     {
                      "str": "'positions'"
                     }
                    ]
                   },
                   {
                    "list": [
                     {
                      "float": "-5.0"
                     },
                     {
                      "float": "-1005.0"
                     },
                     {
                      "float": "-2005.0"
                     },
                     {
                      "float": "-3005.0"
                     },
                     {
                      "float": "-4005.0"
                     },
                     {
                      "float": "-5005.0"
                     },
                     {
                      "float": "-6005.0"
                     },
                     {
                      "float": "-7005.0"
                     },
                     {
                      "float": "-8005.0"
                     },
                     {
                      "float": "-9005.0"
                     },
                     {
                      "float": "-10005.0"
                     },
                     {
                      "float": "-11005.0"
                     },
                     {
                      "float": "-12005.0"
                     },
                     {
                      "float": "-13005.0"
                     },
                     {
                      "float": "-14005.0"
                     },
                     {
                      "float": "-15005.0"
                     },
                     {
                      "float": "-16005.0"
                     },
                     {
                      "float": "-17005.0"
                     },
                     {
                      "float": "-18005.0"
                     },
                     {
                      "float": "-19005.0"
                     },
                     {
                      "float": "-20005.0"
                     },
                     {
                      "float": "-21005.0"
                     },
                     {
                      "float": "-22005.0"
                     },
                     {
                      "float": "-23005.0"
                     },
                     {
                      "float": "-24005.0"
                     },
                     {
                      "float": "-25005.0"
                     },
                     {
                      "float": "-26005.0"
                     },
                     {
                      "float": "-27005.0"
                     }
                    ]
                   },
                   {
                    "dict": [
                     [
                      {
                       "str": "'units'"
                      },
                      {
                       "str": "'m/s'"
                      }
                     ]
                    ]
                   }
                  ]
                 }
                ]
               ]
              },
              {
               "dict": []
              }
             ]
            }
           ]
          ]
         },
         {
          "dict": []
         }
        ]
       }
      ]
     ]
    },
    {
     "dict": [
      [
       {
        "str": "'datetime_of_first_point'"
       },
       {
        "str": "'2020-10-11T17:20:37.500000'"
       }
      ],
      [
       {
        "str": "'reference_coordinate_system'"
       },
       {
        "str": "'ECR'"
       }
      ],
      [
       {
        "str": "'leap_second'"
       },
       {
        "bool": "True"
       }
      ]
     ]
    }
   ]
  }
 },
 "parsed/preliminary_no_leap": {
  "returns": {
   "Group": [
    "/",
    null,
    {
     "dict": [
      [
       {
        "str": "'sampling_frequency'"
       },
       {
        "Variable": [
         {
          "tuple": []
         },
         {
          "float": "60.0"
         },
         {
          "dict": [
           [
            {
             "str": "'units'"
            },
            {
             "str": "'s'"
            }
           ]
          ]
         }
        ]
       }
      ],
      [
       {
        "str": "'orbital_elements'"
       },
       {
        "Group": [
         "/orbital_elements",
         null,
         {
          "dict": [
           [
            {
             "str": "'position'"
            },
            {
             "Group": [
              "/orbital_elements/position",
              null,
              {
               "dict": [
                [
                 {
                  "str": "'x'"
                 },
                 {
                  "Variable": [
                   {
                    "tuple": []
                   },
                   {
                    "float": "100.0"
                   },
                   {
                    "dict": [
                     [
                      {
                       "str": "'units'"
                      },
                      {
                       "str": "'m'"
                      }
                     ]
                    ]
                   }
                  ]
                 }
                ],
                [
                 {
                  "str": "'y'"
                 },
                 {
                  "Variable": [
                   {
                    "tuple": []
                   },
                   {
                    "float": "200.0"
                   },
                   {
                    "dict": [
                     [
                      {
                       "str": "'units'"
                      },
                      {
                       "str": "'m'"
                      }
                     ]
                    ]
                   }
                  ]
                 }
                ],
                [
                 {
                  "str": "'z'"
                 },
                 {
                  "Variable": [
                   {
                    "tuple": []
                   },
                   {
                    "float": "300.0"
                   },
                   {
                    "dict": [
                     [
                      {
                       "str": "'units'"
                      },
                      {
                       "str": "'m'"
                      }
                     ]
                    ]
                   }
                  ]
                 }
                ]
               ]
              },
              {
               "dict": []
              }
             ]
            }
           ],
           [
            {
             "str": "'velocity'"
            },
            {
             "Group": [
              "/orbital_elements/velocity",
              null,
              {
               "dict": [
                [
                 {
                  "str": "'x'"
                 },
                 {
                  "Variable": [
                   {
                    "tuple": []
                   },
                   {
                    "float": "400.0"
                   },
                   {
                    "dict": [
                     [
                      {
                       "str": "'units'"
                      },
                      {
                       "str": "'m/s'"
                      }
                     ]
                    ]
                   }
                  ]
                 }
                ],
                [
                 {
                  "str": "'y'"
                 },
                 {
                  "Variable": [
                   {
                    "tuple": []
                   },
                   {
                    "float": "500.0"
                   },
                   {
                    "dict": [
                     [
                      {
                       "str": "'units'"
                      },
                      {
                       "str": "'m/s'"
                      }
                     ]
                    ]
                   }
                  ]
                 }
                ],
                [
                 {
                  "str": "'z'"
                 },
                 {
                  "Variable": [
                   {
                    "tuple": []
                   },
                   {
                    "float": "600.0"
                   },
                   {
                    "dict": [
                     [
                      {
                       "str": "'units'"
                      },
                      {
                       "str": "'m/s'"
                      }
                     ]
                    ]
                   }
                  ]
                 }
                ]
               ]
              },
              {
               "dict": []
              }
             ]
            }
           ]
          ]
         },
         {
          "dict": [
           [
            {
             "str": "'type'"
            },
            {
             "str": "'preliminary'"
            }
           ]
          ]
         }
        ]
       }
      ],
      [
       {
        "str": "'nominal_error'"
       },
       {
        "Group": [
         "/nominal_error",
         null,
         {
          "dict": [
           [
            {
             "str": "'position'"
            },
            {
             "Group": [
              "/nominal_error/position",
              null,
              {
               "dict": [
                [
                 {
                  "str": "'along_track'"
                 },
                 {
                  "Variable": [
                   {
                    "tuple": []
                   },
                   {
                    "float": "0.0"
                   },
                   {
                    "dict": [
                     [
                      {
                       "str": "'units'"
                      },
                      {
                       "str": "'m'"
                      }
                     ]
                    ]
                   }
                  ]
                 }
                ],
                [
                 {
                  "str": "'across_track'"
                 },
                 {
                  "Variable": [
                   {
                    "tuple": []
                   },
                   {
                    "float": "0.25"
                   },
                   {
                    "dict": [
                     [
                      {
                       "str": "'units'"
                      },
                      {
                       "str": "'m'"
                      }
                     ]
                    ]
                   }
                  ]
                 }
                ],
                [
                 {
                  "str": "'radial'"
                 },
                 {
                  "Variable": [
                   {
                    "tuple": []
                   },
                   {
                    "float": "0.5"
                   },
                   {
                    "dict": [
                     [
                      {
                       "str": "'units'"
                      },
                      {
                       "str": "'m'"
                      }
                     ]
                    ]
                   }
                  ]
                 }
                ]
               ]
              },
              {
               "dict": []
              }
             ]
            }
           ],
           [
            {
             "str": "'velocity'"
            },
            {
             "Group": [
              "/nominal_error/velocity",
              null,
              {
               "dict": [
                [
                 {
                  "str": "'along_track'"
                 },
                 {
                  "Variable": [
                   {
                    "tuple": []
                   },
                   {
                    "float": "0.75"
                   },
                   {
                    "dict": [
                     [
                      {
                       "str": "'units'"
                      },
                      {
                       "str": "'m/s'"
                      }
                     ]
                    ]
                   }
                  ]
                 }
                ],
                [
                 {
                  "str": "'across_track'"
                 },
                 {
                  "Variable": [
                   {
                    "tuple": []
                   },
                   {
                    "float": "1.0"
                   },
                   {
                    "dict": [
                     [
                      {
                       "str": "'units'"
                      },
                      {
                       "str": "'m/s'"
                      }
                     ]
                    ]
                   }
                  ]
                 }
                ],
                [
                 {
                  "str": "'radial'"
                 },
                 {
                  "Variable": [
                   {
                    "tuple": []
                   },
                   {
                    "float": "1.25"
                   },
                   {
                    "dict": [
                     [
                      {
                       "str": "'units'"
                      },
                      {
                       "str": "'m/s'"
                      }
                     ]
                    ]
                   }
                  ]
                 }
                ]
               ]
              },
              {
               "dict": []
              }
             ]
            }
           ]
          ]
         },
         {
          "dict": []
         }
        ]
       }
      ],
      [
       {
        "str": "'positions'"
       },
       {
        "Group": [
         "/positions",
         null,
         {
          "dict": [
           [
            {
             "str": "'position'"
            },
            {
             "Group": [
              "/positions/position",
              null,
              {
               "dict": [
                [
                 {
                  "str": "'x'"
                 },
                 {
                  "Variable": [
                   {
                    "list": [
                     {
                      "str": "'positions'"
                     }
                    ]
                   },
                   {
                    "list": [
                     {
                      "float": "0.0"
                     },
                     {
                      "float": "1000.0"
                     },
                     {
                      "float": "2000.0"
                     },
                     {
                      "float": "3000.0"
                     },
                     {
                      "float": "4000.0"
                     },
                     {
                      "float": "5000.0"
                     },
                     {
                      "float": "6000.0"
                     },
                     {
                      "float": "7000.0"
                     },
                     {
                      "float": "8000.0"
                     },
                     {
                      "float": "9000.0"
                     },
                     {
                      "float": "10000.0"
                     },
                     {
                      "float": "11000.0"
                     },
                     {
                      "float": "12000.0"
                     },
                     {
                      "float": "13000.0"
                     },
                     {
                      "float": "14000.0"
                     },
                     {
                      "float": "15000.0"
                     },
                     {
                      "float": "16000.0"
                     },
                     {
                      "float": "17000.0"
                     },
                     {
                      "float": "18000.0"
                     },
                     {
                      "float": "19000.0"
                     },
                     {
                      "float": "20000.0"
                     },
                     {
                      "float": "21000.0"
                     },
                     {
                      "float": "22000.0"
                     },
                     {
                      "float": "23000.0"
                     },
                     {
                      "float": "24000.0"
                     },
                     {
                      "float": "25000.0"
                     },
                     {
                      "float": "26000.0"
                     },
                     {
                      "float": "27000.0"
                     }
                    ]
                   },
                   {
                    "dict": [
                     [
                      {
                       "str": "'units'"
                      },
                      {
                       "str": "'m'"
                      }
                     ]
                    ]
                   }
                  ]
                 }
                ],
                [
                 {
                  "str": "'y'"
                 },
                 {
                  "Variable": [
                   {
                    "list": [
                     {
                      "str": "'positions'"
                     }
                    ]
                   },
                   {
                    "list": [
                     {
                      "float": "-1.0"
                     },
                     {
                      "float": "-1001.0"
                     },
                     {
                      "float": "-2001.0"
                     },
                     {
                      "float": "-3001.0"
                     },
                     {
                      "float": "-4001.0"
                     },
                     {
                      "float": "-5001.0"
                     },
                     {
                      "float": "-6001.0"
                     },
                     {
                      "float": "-7001.0"
                     },
                     {
                      "float": "-8001.0"
                     },
                     {
                      "float": "-9001.0"
                     },
                     {
                      "float": "-10001.0"
                     },
                     {
                      "float": "-11001.0"
                     },
                     {
                      "float": "-12001.0"
                     },
                     {
                      "float": "-13001.0"
                     },
                     {
                      "float": "-14001.0"
                     },
                     {
                      "float": "-15001.0"
                     },
                     {
                      "float": "-16001.0"
                     },
                     {
                      "float": "-17001.0"
                     },
                     {
                      "float": "-18001.0"
                     },
                     {
                      "float": "-19001.0"
                     },
                     {
                      "float": "-20001.0"
                     },
                     {
                      "float": "-21001.0"
                     },
                     {
                      "float": "-22001.0"
                     },
                     {
                      "float": "-23001.0"
                     },
                     {
                      "float": "-24001.0"
                     },
                     {
                      "float": "-25001.0"
                     },
                     {
                      "float": "-26001.0"
                     },
                     {
                      "float": "-27001.0"
                     }
                    ]
                   },
                   {
                    "dict": [
                     [
                      {
                       "str": "'units'"
                      },
                      {
                       "str": "'m'"
                      }
                     ]
                    ]
                   }
                  ]
                 }
                ],
                [
                 {
                  "str": "'z'"
                 },
                 {
                  "Variable": [
                   {
                    "list": [
                     {
                      "str": "'positions'"
                     }
                    ]
                   },
                   {
                    "list": [
                     {
                      "float": "2.0"
                     },
                     {
                      "float": "1002.0"
                     },
                     {
                      "float": "2002.0"
                     },
                     {
                      "float": "3002.0"
                     },
                     {
                      "float": "4002.0"
                     },
                     {
                      "float": "5002.0"
                     },
                     {
                      "float": "6002.0"
                     },
                     {
                      "float": "7002.0"
                     },
                     {
                      "float": "8002.0"
                     },
                     {
                      "float": "9002.0"
                     },
                     {
                      "float": "10002.0"
                     },
                     {
                      "float": "11002.0"
                     },
                     {
                      "float": "12002.0"
                     },
                     {
                      "float": "13002.0"
                     },
                     {
                      "float": "14002.0"
                     },
                     {
                      "float": "15002.0"
                     },
                     {
                      "float": "16002.0"
                     },
                     {
                      "float": "17002.0"
                     },
                     {
                      "float": "18002.0"
                     },
                     {
                      "float": "19002.0"
                     },
                     {
                      "float": "20002.0"
                     },
                     {
                      "float": "21002.0"
                     },
                     {
                      "float": "22002.0"
                     },
                     {
                      "float": "23002.0"
                     },
                     {
                      "float": "24002.0"
                     },
                     {
                      "float": "25002.0"
                     },
                     {
                      "float": "26002.0"
                     },
                     {
                      "float": "27002.0"
                     }
                    ]
                   },
                   {
                    "dict": [
                     [
                      {
                       "str": "'units'"
                      },
                      {
                       "str": "'m'"
                      }
                     ]
                    ]
                   }
                  ]
                 }
                ]
               ]
              },
              {
               "dict": []
              }
             ]
            }
           ],
           [
            {
             "str": "'velocity'"
            },
            {
             "Group": [
              "/positions/velocity",
              null,
              {
               "dict": [
                [
                 {
                  "str": "'x'"
                 },
                 {
                  "Variable": [
                   {
                    "list": [
                     {
                      "str": "'positions'"
                     }
                    ]
                   },
                   {
                    "list": [
                     {
                      "float": "-3.0"
                     },
                     {
                      "float": "-1003.0"
                     },
                     {
                      "float": "-2003.0"
                     },
                     {
                      "float": "-3003.0"
                     },
                     {
                      "float": "-4003.0"
                     },
                     {
                      "float": "-5003.0"
                     },
                     {
                      "float": "-6003.0"
                     },
                     {
                      "float": "-7003.0"
                     },
                     {
                      "float": "-8003.0"
                     },
                     {
                      "float": "-9003.0"
                     },
                     {
                      "float": "-10003.0"
                     },
                     {
                      "float": "-11003.0"
                     },
                     {
                      "float": "-12003.0"
                     },
                     {
                      "float": "-13003.0"
                     },
                     {
                      "float": "-14003.0"
                     },
                     {
                      "float": "-15003.0"
                     },
                     {
                      "float": "-16003.0"
                     },
                     {
                      "float": "-17003.0"
                     },
                     {
                      "float": "-18003.0"
                     },
                     {
                      "float": "-19003.0"
                     },
                     {
                      "float": "-20003.0"
                     },
                     {
                      "float": "-21003.0"
                     },
                     {
                      "float": "-22003.0"
                     },
                     {
                      "float": "-23003.0"
                     },
                     {
                      "float": "-24003.0"
                     },
                     {
                      "float": "-25003.0"
                     },
                     {
                      "float": "-26003.0"
                     },
                     {
                      "float": "-27003.0"
                     }
                    ]
                   },
                   {
                    "dict": [
                     [
                      {
                       "str": "'units'"
                      },
                      {
                       "str": "'m/s'"
                      }
                     ]
                    ]
                   }
                  ]
                 }
                ],
                [
                 {
                  "str": "'y'"
                 },
                 {
                  "Variable": [
                   {
                    "list": [
                     {
                      "str": "'positions'"
                     }
                    ]
                   },
                   {
                    "list": [
                     {
                      "float": "4.0"
                     },
                     {
                      "float": "1004.0"
                     },
                     {
                      "float": "2004.0"
                     },
                     {
                      "float": "3004.0"
                     },
                     {
                      "float": "4004.0"
                     },
                     {
                      "float": "5004.0"
                     },
                     {
                      "float": "6004.0"
                     },
                     {
                      "float": "7004.0"
                     },
                     {
                      "float": "8004.0"
                     },
                     {
                      "float": "9004.0"
                     },
                     {
                      "float": "10004.0"
                     },
                     {
                      "float": "11004.0"
                     },
                     {
                      "float": "12004.0"
                     },
                     {
                      "float": "13004.0"
                     },
                     {
                      "float": "14004.0"
                     },
                     {
                      "float": "15004.0"
                     },
                     {
                      "float": "16004.0"
                     },
                     {
                      "float": "17004.0"
                     },
                     {
                      "float": "18004.0"
                     },
                     {
                      "float": "19004.0"
                     },
                     {
                      "float": "20004.0"
                     },
                     {
                      "float": "21004.0"
                     },
                     {
                      "float": "22004.0"
                     },
                     {
                      "float": "23004.0"
                     },
                     {
                      "float": "24004.0"
                     },
                     {
                      "float": "25004.0"
                     },
                     {
                      "float": "26004.0"
                     },
                     {
                      "float": "27004.0"
                     }
                    ]
                   },
                   {
                    "dict": [
                     [
                      {
                       "str": "'units'"
                      },
                      {
                       "str": "'m/s'"
                      }
                     ]
                    ]
                   }
                  ]
                 }
                ],
                [
                 {
                  "str": "'z'"
                 },
                 {
                  "Variable": [
                   {
                    "list": [
                     {
                      "str": "'positions'"
                     }
                    ]
                   },
                   {
                    "list": [
                     {
                      "float": "-5.0"
                     },
                     {
                      "float": "-1005.0"
                     },
                     {
                      "float": "-2005.0"
                     },
                     {
                      "float": "-3005.0"
                     },
                     {
                      "float": "-4005.0"
                     },
                     {
                      "float": "-5005.0"
                     },
                     {
                      "float": "-6005.0"
                     },
                     {
                      "float": "-7005.0"
                     },
                     {
                      "float": "-8005.0"
                     },
                     {
                      "float": "-9005.0"
                     },
                     {
                      "float": "-10005.0"
                     },
                     {
                      "float": "-11005.0"
                     },
                     {
                      "float": "-12005.0"
                     },
                     {
                      "float": "-13005.0"
                     },
                     {
                      "float": "-14005.0"
                     },
                     {
                      "float": "-15005.0"
                     },
                     {
                      "float": "-16005.0"
                     },
                     {
                      "float": "-17005.0"
                     },
                     {
                      "float": "-18005.0"
                     },
                     {
                      "float": "-19005.0"
                     },
                     {
                      "float": "-20005.0"
                     },
                     {
                      "float": "-21005.0"
                     },
                     {
                      "float": "-22005.0"
                     },
                     {
                      "float": "-23005.0"
                     },
                     {
                      "float": "-24005.0"
                     },
                     {
                      "float": "-25005.0"
                     },
                     {
                      "float": "-26005.0"
                     },
                     {
                      "float": "-27005.0"
                     }
                    ]
                   },
                   {
                    "dict": [
                     [
                      {
                       "str": "'units'"
                      },
                      {
                       "str": "'m/s'"
                      }
                     ]
                    ]
                   }
                  ]
                 }
                ]
               ]
              },
              {
               "dict": []
              }
             ]
            }
           ]
          ]
         },
         {
          "dict": []
         }
        ]
       }
      ]
     ]
    },
    {
     "dict": [
      [
       {
        "str": "'datetime_of_first_point'"
       },
       {
        "str": "'2020-10-11T17:20:37.500000'"
       }
      ],
      [
       {
        "str": "'reference_coordinate_system'"
       },
       {
        "str": "'ECR'"
       }
      ],
      [
       {
        "str": "'leap_second'"
       },
       {
        "bool": "False"
       }
      ]
     ]
    }
   ]
  }
 },
 "parsed/decision_blank_leap": {
  "returns": {
   "Group": [
    "/",
    null,
    {
     "dict": [
      [
       {
        "str": "'sampling_frequency'"
       },
       {
        "Variable": [
         {
          "tuple": []
         },
         {
          "float": "60.0"
         },
         {
          "dict": [
           [
            {
             "str": "'units'"
            },
            {
             "str": "'s'"
            }
           ]
          ]
         }
        ]
       }
      ],
      [
       {
        "str": "'orbital_elements'"
       },
       {
        "Group": [
         "/orbital_elements",
         null,
         {
          "dict": [
           [
            {
             "str": "'position'"
            },
            {
             "Group": [
              "/orbital_elements/position",
              null,
              {
               "dict": [
                [
                 {
                  "str": "'x'"
                 },
                 {
                  "Variable": [
                   {
                    "tuple": []
                   },
                   {
                    "float": "100.0"
                   },
                   {
                    "dict": [
                     [
                      {
                       "str": "'units'"
                      },
                      {
                       "str": "'m'"
                      }
                     ]
                    ]
                   }
                  ]
                 }
                ],
                [
                 {
                  "str": "'y'"
                 },
                 {
                  "Variable": [
                   {
                    "tuple": []
                   },
                   {
                    "float": "200.0"
                   },
                   {
                    "dict": [
                     [
                      {
                       "str": "'units'"
                      },
                      {
                       "str": "'m'"
                      }
                     ]
                    ]
                   }
                  ]
                 }
                ],
                [
                 {
                  "str": "'z'"
                 },
                 {
                  "Variable": [
                   {
                    "tuple": []
                   },
                   {
                    "float": "300.0"
                   },
                   {
                    "dict": [
                     [
                      {
                       "str": "'units'"
                      },
                      {
                       "str": "'m'"
                      }
                     ]
                    ]
                   }
                  ]
                 }
                ]
               ]
              },
              {
               "dict": []
              }
             ]
            }
           ],
           [
            {
             "str": "'velocity'"
            },
            {
             "Group": [
              "/orbital_elements/velocity",
              null,
              {
               "dict": [
                [
                 {
                  "str": "'x'"
                 },
                 {
                  "Variable": [
                   {
                    "tuple": []
                   },
                   {
                    "float": "400.0"
                   },
                   {
                    "dict": [
                     [
                      {
                       "str": "'units'"
                      },
                      {
                       "str": "'m/s'"
                      }
                     ]
                    ]
                   }
                  ]
                 }
                ],
                [
                 {
                  "str": "'y'"
                 },
                 {
                  "Variable": [
                   {
                    "tuple": []
                   },
                   {
                    "float": "500.0"
                   },
                   {
                    "dict": [
                     [
                      {
                       "str": "'units'"
                      },
                      {
                       "str": "'m/s'"
                      }
                     ]
                    ]
                   }
                  ]
                 }
                ],
                [
                 {
                  "str": "'z'"
                 },
                 {
                  "Variable": [
                   {
                    "tuple": []
                   },
                   {
                    "float": "600.0"
                   },
                   {
                    "dict": [
                     [
                      {
                       "str": "'units'"
                      },
                      {
                       "str": "'m/s'"
                      }
                     ]
                    ]
                   }
                  ]
                 }
                ]
               ]
              },
              {
               "dict": []
              }
             ]
            }
           ]
          ]
         },
         {
          "dict": [
           [
            {
             "str": "'type'"
            },
            {
             "str": "'decision'"
            }
           ]
          ]
         }
        ]
       }
      ],
      [
       {
        "str": "'nominal_error'"
       },
       {
        "Group": [
         "/nominal_error",
         null,
         {
          "dict": [
           [
            {
             "str": "'position'"
            },
            {
             "Group": [
              "/nominal_error/position",
              null,
              {
               "dict": [
                [
                 {
                  "str": "'along_track'"
                 },
                 {
                  "Variable": [
                   {
                    "tuple": []
                   },
                   {
                    "float": "0.0"
                   },
                   {
                    "dict": [
                     [
                      {
                       "str": "'units'"
                      },
                      {
                       "str": "'m'"
                      }
                     ]
                    ]
                   }
                  ]
                 }
                ],
                [
                 {
                  "str": "'across_track'"
                 },
                 {
                  "Variable": [
                   {
                    "tuple": []
                   },
                   {
                    "float": "0.25"
                   },
                   {
                    "dict": [
                     [
                      {
                       "str": "'units'"
                      },
                      {
                       "str": "'m'"
                      }
                     ]
                    ]
                   }
                  ]
                 }
                ],
                [
                 {
                  "str": "'radial'"
                 },
                 {
                  "Variable": [
                   {
                    "tuple": []
                   },
                   {
                    "float": "0.5"
                   },
                   {
                    "dict": [
                     [
                      {
                       "str": "'units'"
                      },
                      {
                       "str": "'m'"
                      }
                     ]
                    ]
                   }
                  ]
                 }
                ]
               ]
              },
              {
               "dict": []
              }
             ]
            }
           ],
           [
            {
             "str": "'velocity'"
            },
            {
             "Group": [
              "/nominal_error/velocity",
              null,
              {
               "dict": [
                [
                 {
                  "str": "'along_track'"
                 },
                 {
                  "Variable": [
                   {
                    "tuple": []
                   },
                   {
                    "float": "0.75"
                   },
                   {
                    "dict": [
                     [
                      {
                       "str": "'units'"
                      },
                      {
                       "str": "'m/s'"
                      }
                     ]
                    ]
                   }
                  ]
                 }
                ],
                [
                 {
                  "str": "'across_track'"
                 },
                 {
                  "Variable": [
                   {
                    "tuple": []
                   },
                   {
                    "float": "1.0"
                   },
                   {
                    "dict": [
                     [
                      {
                       "str": "'units'"
                      },
                      {
                       "str": "'m/s'"
                      }
                     ]
                    ]
                   }
                  ]
                 }
                ],
                [
                 {
                  "str": "'radial'"
                 },
                 {
                  "Variable": [
                   {
                    "tuple": []
                   },
                   {
                    "float": "1.25"
                   },
                   {
                    "dict": [
                     [
                      {
                       "str": "'units'"
                      },
                      {
                       "str": "'m/s'"
                      }
                     ]
                    ]
                   }
                  ]
                 }
                ]
               ]
              },
              {
               "dict": []
              }
             ]
            }
           ]
          ]
         },
         {
          "dict": []
         }
        ]
       }
      ],
      [
       {
        "str": "'positions'"
       },
       {
        "Group": [
         "/positions",
         null,
         {
          "dict": [
           [
            {
             "str": "'position'"
            },
            {
             "Group": [
              "/positions/position",
              null,
              {
               "dict": [
                [
                 {
                  "str": "'x'"
                 },
                 {
                  "Variable": [
                   {
                    "list": [
                     {
                      "str": "'positions'"
                     }
                    ]
                   },
                   {
                    "list": [
                     {
                      "float": "0.0"
                     },
                     {
                      "float": "1000.0"
                     },
                     {
                      "float": "2000.0"
                     },
                     {
                      "float": "3000.0"
                     },
                     {
                      "float": "4000.0"
                     },
                     {
                      "float": "5000.0"
                     },
                     {
                      "float": "6000.0"
                     },
                     {
                      "float": "7000.0"
                     },
                     {
                      "float": "8000.0"
                     },
                     {
                      "float": "9000.0"
                     },
                     {
                      "float": "10000.0"
                     },
                     {
                      "float": "11000.0"
                     },
                     {
                      "float": "12000.0"
                     },
                     {
                      "float": "13000.0"
                     },
                     {
                      "float": "14000.0"
                     },
                     {
                      "float": "15000.0"
                     },
                     {
                      "float": "16000.0"
                     },
                     {
                      "float": "17000.0"
                     },
                     {
                      "float": "18000.0"
                     },
                     {
                      "float": "19000.0"
                     },
                     {
                      "float": "20000.0"
                     },
                     {
                      "float": "21000.0"
                     },
                     {
                      "float": "22000.0"
                     },
                     {
                      "float": "23000.0"
                     },
                     {
                      "float": "24000.0"
                     },
                     {
                      "float": "25000.0"
                     },
                     {
                      "float": "26000.0"
                     },
                     {
                      "float": "27000.0"
                     }
                    ]
                   },
                   {
                    "dict": [
                     [
                      {
                       "str": "'units'"
                      },
                      {
                       "str": "'m'"
                      }
                     ]
                    ]
                   }
                  ]
                 }
                ],
                [
                 {
                  "str": "'y'"
                 },
                 {
                  "Variable": [
                   {
                    "list": [
                     {
                      "str": "'positions'"
                     }
                    ]
                   },
                   {
                    "list": [
                     {
                      "float": "-1.0"
                     },
                     {
                      "float": "-1001.0"
                     },
                     {
                      "float": "-2001.0"
                     },
                     {
                      "float": "-3001.0"
                     },
                     {
                      "float": "-4001.0"
                     },
                     {
                      "float": "-5001.0"
                     },
                     {
                      "float": "-6001.0"
                     },
                     {
                      "float": "-7001.0"
                     },
                     {
                      "float": "-8001.0"
                     },
                     {
                      "float": "-9001.0"
                     },
                     {
                      "float": "-10001.0"
                     },
                     {
                      "float": "-11001.0"
                     },
                     {
                      "float": "-12001.0"
                     },
                     {
                      "float": "-13001.0"
                     },
                     {
                      "float": "-14001.0"
                     },
                     {
                      "float": "-15001.0"
                     },
                     {
                      "float": "-16001.0"
                     },
                     {
                      "float": "-17001.0"
                     },
                     {
                      "float": "-18001.0"
                     },
                     {
                      "float": "-19001.0"
                     },
                     {
                      "float": "-20001.0"
                     },
                     {
                      "float": "-21001.0"
                     },
                     {
                      "float": "-22001.0"
                     },
                     {
                      "float": "-23001.0"
                     },
                     {
                      "float": "-24001.0"
                     },
                     {
                      "float": "-25001.0"
                     },
                     {
                      "float": "-26001.0"
                     },
                     {
                      "float": "-27001.0"
                     }
                    ]
                   },
                   {
                    "dict": [
                     [
                      {
                       "str": "'units'"
                      },
                      {
                       "str": "'m'"
                      }
                     ]
                    ]
                   }
                  ]
                 }
                ],
                [
                 {
                  "str": "'z'"
                 },
                 {
                  "Variable": [
                   {
                    "list": [
                     {
                      "str": "'positions'"
                     }
                    ]
                   },
                   {
                    "list": [
                     {
                      "float": "2.0"
                     },
                     {
                      "float": "1002.0"
                     },
                     {
                      "float": "2002.0"
                     },
                     {
                      "float": "3002.0"
                     },
                     {
                      "float": "4002.0"
                     },
                     {
                      "float": "5002.0"
                     },
                     {
                      "float": "6002.0"
                     },
                     {
                      "float": "7002.0"
                     },
                     {
                      "float": "8002.0"
                     },
                     {
                      "float": "9002.0"
                     },
                     {
                      "float": "10002.0"
                     },
                     {
                      "float": "11002.0"
                     },
                     {
                      "float": "12002.0"
                     },
                     {
                      "float": "13002.0"
                     },
                     {
                      "float": "14002.0"
                     },
                     {
                      "float": "15002.0"
                     },
                     {
                      "float": "16002.0"
                     },
                     {
                      "float": "17002.0"
                     },
                     {
                      "float": "18002.0"
                     },
                     {
                      "float": "19002.0"
                     },
                     {
                      "float": "20002.0"
                     },
                     {
                      "float": "21002.0"
                     },
                     {
                      "float": "22002.0"
                     },
                     {
                      "float": "23002.0"
                     },
                     {
                      "float": "24002.0"
                     },
                     {
                      "float": "25002.0"
                     },
                     {
                      "float": "26002.0"
                     },
                     {
                      "float": "27002.0"
                     }
                    ]
                   },
                   {
                    "dict": [
                     [
                      {
                       "str": "'units'"
                      },
                      {
                       "str": "'m'"
                      }
                     ]
                    ]
                   }
                  ]
                 }
                ]
               ]
              },
              {
               "dict": []
              }
             ]
            }
           ],
           [
            {
             "str": "'velocity'"
            },
            {
             "Group": [
              "/positions/velocity",
              null,
              {
               "dict": [
                [
                 {
                  "str": "'x'"
                 },
                 {
                  "Variable": [
                   {
                    "list": [
                     {
                      "str": "'positions'"
                     }
                    ]
                   },
                   {
                    "list": [
                     {
                      "float": "-3.0"
                     },
                     {
                      "float": "-1003.0"
                     },
                     {
                      "float": "-2003.0"
                     },
                     {
                      "float": "-3003.0"
                     },
                     {
                      "float": "-4003.0"
                     },
                     {
                      "float": "-5003.0"
                     },
                     {
                      "float": "-6003.0"
                     },
                     {
                      "float": "-7003.0"
                     },
                     {
                      "float": "-8003.0"
                     },
                     {
                      "float": "-9003.0"
                     },
                     {
                      "float": "-10003.0"
                     },
                     {
                      "float": "-11003.0"
                     },
                     {
                      "float": "-12003.0"
                     },
                     {
                      "float": "-13003.0"
                     },
                     {
                      "float": "-14003.0"
                     },
                     {
                      "float": "-15003.0"
                     },
                     {
                      "float": "-16003.0"
                     },
                     {
                      "float": "-17003.0"
                     },
                     {
                      "float": "-18003.0"
                     },
                     {
                      "float": "-19003.0"
                     },
                     {
                      "float": "-20003.0"
                     },
                     {
                      "float": "-21003.0"
                     },
                     {
                      "float": "-22003.0"
                     },
                     {
                      "float": "-23003.0"
                     },
                     {
                      "float": "-24003.0"
                     },
                     {
                      "float": "-25003.0"
                     },
                     {
                      "float": "-26003.0"
                     },
                     {
                      "float": "-27003.0"
                     }
                    ]
                   },
                   {
                    "dict": [
                     [
                      {
                       "str": "'units'"
                      },
                      {
                       "str": "'m/s'"
                      }
                     ]
                    ]
                   }
                  ]
                 }
                ],
                [
                 {
                  "str": "'y'"
                 },
                 {
                  "Variable": [
                   {
                    "list": [
                     {
                      "str": "'positions'"
                     }
                    ]
                   },
                   {
                    "list": [
                     {
                      "float": "4.0"
                     },
                     {
                      "float": "1004.0"
                     },
                     {
                      "float": "2004.0"
                     },
                     {
                      "float": "3004.0"
                     },
                     {
                      "float": "4004.0"
                     },
                     {
                      "float": "5004.0"
                     },
                     {
                      "float": "6004.0"
                     },
                     {
                      "float": "7004.0"
                     },
                     {
                      "float": "8004.0"
                     },
                     {
                      "float": "9004.0"
                     },
                     {
                      "float": "10004.0"
                     },
                     {
                      "float": "11004.0"
                     },
                     {
                      "float": "12004.0"
                     },
                     {
                      "float": "13004.0"
                     },
                     {
                      "float": "14004.0"
                     },
                     {
                      "float": "15004.0"
                     },
                     {
                      "float": "16004.0"
                     },
                     {
                      "float": "17004.0"
                     },
                     {
                      "float": "18004.0"
                     },
                     {
                      "float": "19004.0"
                     },
                     {
                      "float": "20004.0"
                     },
                     {
                      "float": "21004.0"
                     },
                     {
                      "float": "22004.0"
                     },
                     {
                      "float": "23004.0"
                     },
                     {
                      "float": "24004.0"
                     },
                     {
                      "float": "25004.0"
                     },
                     {
                      "float": "26004.0"
                     },
                     {
                      "float": "27004.0"
                     }
                    ]
                   },
                   {
                    "dict": [
                     [
                      {
                       "str": "'units'"
                      },
                      {
                       "str": "'m/s'"
                      }
                     ]
                    ]
                   }
                  ]
                 }
                ],
                [
                 {
                  "str": "'z'"
                 },
                 {
                  "Variable": [
                   {
                    "list": [
                     {
                      "str": "'positions'"
                     }
                    ]
                   },
                   {
                    "list": [
                     {
                      "float": "-5.0"
                     },
                     {
                      "float": "-1005.0"
                     },
                     {
                      "float": "-2005.0"
                     },
                     {
                      "float": "-3005.0"
                     },
                     {
                      "float": "-4005.0"
                     },
                     {
                      "float": "-5005.0"
                     },
                     {
                      "float": "-6005.0"
                     },
                     {
                      "float": "-7005.0"
                     },
                     {
                      "float": "-8005.0"
                     },
                     {
                      "float": "-9005.0"
                     },
                     {
                      "float": "-10005.0"
                     },
                     {
                      "float": "-11005.0"
                     },
                     {
                      "float": "-12005.0"
                     },
                     {
                      "float": "-13005.0"
                     },
                     {
                      "float": "-14005.0"
                     },
                     {
                      "float": "-15005.0"
                     },
                     {
                      "float": "-16005.0"
                     },
                     {
                      "float": "-17005.0"
                     },
                     {
                      "float": "-18005.0"
                     },
                     {
                      "float": "-19005.0"
                     },
                     {
                      "float": "-20005.0"
                     },
                     {
                      "float": "-21005.0"
                     },
                     {
                      "float": "-22005.0"
                     },
                     {
                      "float": "-23005.0"
                     },
                     {
                      "float": "-24005.0"
                     },
                     {
                      "float": "-25005.0"
                     },
                     {
                      "float": "-26005.0"
                     },
                     {
                      "float": "-27005.0"
                     }
                    ]
                   },
                   {
                    "dict": [
                     [
                      {
                       "str": "'units'"
                      },
                      {
                       "str": "'m/s'"
                      }
                     ]
                    ]
                   }
                  ]
                 }
                ]
               ]
              },
              {
               "dict": []
              }
             ]
            }
           ]
          ]
         },
         {
          "dict": []
         }
        ]
       }
      ]
     ]
    },
    {
     "dict": [
      [
       {
        "str": "'datetime_of_first_point'"
       },
       {
        "str": "'2020-10-11T17:20:37.500000'"
       }
      ],
      [
       {
        "str": "'reference_coordinate_system'"
       },
       {
        "str": "'ECR'"
       }
      ],
      [
       {
        "str": "'leap_second'"
       },
       {
        "bool": "True"
       }
      ]
     ]
    }
   ]
  }
 },
 "parsed/unknown_designator": {
  "returns": {
   "Group": [
    "/",
    null,
    {
     "dict": [
      [
       {
        "str": "'sampling_frequency'"
       },
       {
        "Variable": [
         {
          "tuple": []
         },
         {
          "float": "60.0"
         },
         {
          "dict": [
           [
            {
             "str": "'units'"
            },
            {
             "str": "'s'"
            }
           ]
          ]
         }
        ]
       }
      ],
      [
       {
        "str": "'orbital_elements'"
       },
       {
        "Group": [
         "/orbital_elements",
         null,
         {
          "dict": [
           [
            {
             "str": "'position'"
            },
            {
             "Group": [
              "/orbital_elements/position",
              null,
              {
               "dict": [
                [
                 {
                  "str": "'x'"
                 },
                 {
                  "Variable": [
                   {
                    "tuple": []
                   },
                   {
                    "float": "100.0"
                   },
                   {
                    "dict": [
                     [
                      {
                       "str": "'units'"
                      },
                      {
                       "str": "'m'"
                      }
                     ]
                    ]
                   }
                  ]
                 }
                ],
                [
                 {
                  "str": "'y'"
                 },
                 {
                  "Variable": [
                   {
                    "tuple": []
                   },
                   {
                    "float": "200.0"
                   },
                   {
                    "dict": [
                     [
                      {
                       "str": "'units'"
                      },
                      {
                       "str": "'m'"
                      }
                     ]
                    ]
                   }
                  ]
                 }
                ],
                [
                 {
                  "str": "'z'"
                 },
                 {
                  "Variable": [
                   {
                    "tuple": []
                   },
                   {
                    "float": "300.0"
                   },
                   {
                    "dict": [
                     [
                      {
                       "str": "'units'"
                      },
                      {
                       "str": "'m'"
                      }
                     ]
                    ]
                   }
                  ]
                 }
                ]
               ]
              },
              {
               "dict": []
              }
             ]
            }
           ],
           [
            {
             "str": "'velocity'"
            },
            {
             "Group": [
              "/orbital_elements/velocity",
              null,
              {
               "dict": [
                [
                 {
                  "str": "'x'"
                 },
                 {
                  "Variable": [
                   {
                    "tuple": []
                   },
                   {
                    "float": "400.0"
                   },
                   {
                    "dict": [
                     [
                      {
                       "str": "'units'"
                      },
                      {
                       "str": "'m/s'"
                      }
                     ]
                    ]
                   }
                  ]
                 }
                ],
                [
                 {
                  "str": "'y'"
                 },
                 {
                  "Variable": [
                   {
                    "tuple": []
                   },
                   {
                    "float": "500.0"
                   },
                   {
                    "dict": [
                     [
                      {
                       "str": "'units'"
                      },
                      {
                       "str": "'m/s'"
                      }
                     ]
                    ]
                   }
                  ]
                 }
                ],
                [
                 {
                  "str": "'z'"
                 },
                 {
                  "Variable": [
                   {
                    "tuple": []
                   },
                   {
                    "float": "600.0"
                   },
                   {
                    "dict": [
                     [
                      {
                       "str": "'units'"
                      },
                      {
                       "str": "'m/s'"
                      }
                     ]
                    ]
                   }
                  ]
                 }
                ]
               ]
              },
              {
               "dict": []
              }
             ]
            }
           ]
          ]
         },
         {
          "dict": [
           [
            {
             "str": "'type'"
            },
            {
             "EnumInteger": "7"
            }
           ]
          ]
         }
        ]
       }
      ],
      [
       {
        "str": "'nominal_error'"
       },
       {
        "Group": [
         "/nominal_error",
         null,
         {
          "dict": [
           [
            {
             "str": "'position'"
            },
            {
             "Group": [
              "/nominal_error/position",
              null,
              {
               "dict": [
                [
                 {
                  "str": "'along_track'"
                 },
                 {
                  "Variable": [
                   {
                    "tuple": []
                   },
                   {
                    "float": "0.0"
                   },
                   {
                    "dict": [
                     [
                      {
                       "str": "'units'"
                      },
                      {
                       "str": "'m'"
                      }
                     ]
                    ]
                   }
                  ]
                 }
                ],
                [
                 {
                  "str": "'across_track'"
                 },
                 {
                  "Variable": [
                   {
                    "tuple": []
                   },
                   {
                    "float": "0.25"
                   },
                   {
                    "dict": [
                     [
                      {
                       "str": "'units'"
                      },
                      {
                       "str": "'m'"
                      }
                     ]
                    ]
                   }
                  ]
                 }
                ],
                [
                 {
                  "str": "'radial'"
                 },
                 {
                  "Variable": [
                   {
                    "tuple": []
                   },
                   {
                    "float": "0.5"
                   },
                   {
                    "dict": [
                     [
                      {
                       "str": "'units'"
                      },
                      {
                       "str": "'m'"
                      }
                     ]
                    ]
                   }
                  ]
                 }
                ]
               ]
              },
              {
               "dict": []
              }
             ]
            }
           ],
           [
            {
             "str": "'velocity'"
            },
            {
             "Group": [
              "/nominal_error/velocity",
              null,
              {
               "dict": [
                [
                 {
                  "str": "'along_track'"
                 },
                 {
                  "Variable": [
                   {
                    "tuple": []
                   },
                   {
                    "float": "0.75"
                   },
                   {
                    "dict": [
                     [
                      {
                       "str": "'units'"
                      },
                      {
                       "str": "'m/s'"
                      }
                     ]
                    ]
                   }
                  ]
                 }
                ],
                [
                 {
                  "str": "'across_track'"
                 },
                 {
                  "Variable": [
                   {
                    "tuple": []
                   },
                   {
                    "float": "1.0"
                   },
                   {
                    "dict": [
                     [
                      {
                       "str": "'units'"
                      },
                      {
                       "str": "'m/s'"
                      }
                     ]
                    ]
                   }
                  ]
                 }
                ],
                [
                 {
                  "str": "'radial'"
                 },
                 {
                  "Variable": [
                   {
                    "tuple": []
                   },
                   {
                    "float": "1.25"
                   },
                   {
                    "dict": [
                     [
                      {
                       "str": "'units'"
                      },
                      {
                       "str": "'m/s'"
                      }
                     ]
                    ]
                   }
                  ]
                 }
                ]
               ]
              },
              {
               "dict": []
              }
             ]
            }
           ]
          ]
         },
         {
          "dict": []
         }
        ]
       }
      ],
      [
       {
        "str": "'positions'"
       },
       {
        "Group": [
         "/positions",
         null,
         {
          "dict": [
           [
            {
             "str": "'position'"
            },
            {
             "Group": [
              "/positions/position",
              null,
              {
               "dict": [
                [
                 {
                  "str": "'x'"
                 },
                 {
                  "Variable": [
                   {
                    "list": [
                     {
                      "str": "'positions'"
                     }
                    ]
                   },
                   {
                    "list": [
                     {
                      "float": "0.0"
                     },
                     {
                      "float": "1000.0"
                     },
                     {
                      "float": "2000.0"
                     },
                     {
                      "float": "3000.0"
                     },
                     {
                      "float": "4000.0"
                     },
                     {
                      "float": "5000.0"
                     },
                     {
                      "float": "6000.0"
                     },
                     {
                      "float": "7000.0"
                     },
                     {
                      "float": "8000.0"
                     },
                     {
                      "float": "9000.0"
                     },
                     {
                      "float": "10000.0"
                     },
                     {
                      "float": "11000.0"
                     },
                     {
                      "float": "12000.0"
                     },
                     {
                      "float": "13000.0"
                     },
                     {
                      "float": "14000.0"
                     },
                     {
                      "float": "15000.0"
                     },
                     {
                      "float": "16000.0"
                     },
                     {
                      "float": "17000.0"
                     },
                     {
                      "float": "18000.0"
                     },
                     {
                      "float": "19000.0"
                     },
                     {
                      "float": "20000.0"
                     },
                     {
                      "float": "21000.0"
                     },
                     {
                      "float": "22000.0"
                     },
                     {
                      "float": "23000.0"
                     },
                     {
                      "float": "24000.0"
                     },
                     {
                      "float": "25000.0"
                     },
                     {
                      "float": "26000.0"
                     },
                     {
                      "float": "27000.0"
                     }
                    ]
                   },
                   {
                    "dict": [
                     [
                      {
                       "str": "'units'"
                      },
                      {
                       "str": "'m'"
                      }
                     ]
                    ]
                   }
                  ]
                 }
                ],
                [
                 {
                  "str": "'y'"
                 },
                 {
                  "Variable": [
                   {
                    "list": [
                     {
                      "str": "'positions'"
                     }
                    ]
                   },
                   {
                    "list": [
                     {
                      "float": "-1.0"
                     },
                     {
                      "float": "-1001.0"
                     },
                     {
                      "float": "-2001.0"
                     },
                     {
                      "float": "-3001.0"
                     },
                     {
                      "float": "-4001.0"
                     },
                     {
                      "float": "-5001.0"
                     },
                     {
                      "float": "-6001.0"
                     },
                     {
                      "float": "-7001.0"
                     },
                     {
                      "float": "-8001.0"
                     },
                     {
                      "float": "-9001.0"
                     },
                     {
                      "float": "-10001.0"
                     },
                     {
                      "float": "-11001.0"
                     },
                     {
                      "float": "-12001.0"
                     },
                     {
                      "float": "-13001.0"
                     },
                     {
                      "float": "-14001.0"
                     },
                     {
                      "float": "-15001.0"
                     },
                     {
                      "float": "-16001.0"
                     },
                     {
                      "float": "-17001.0"
                     },
                     {
                      "float": "-18001.0"
                     },
                     {
                      "float": "-19001.0"
                     },
                     {
                      "float": "-20001.0"
                     },
                     {
                      "float": "-21001.0"
                     },
                     {
                      "float": "-22001.0"
                     },
                     {
                      "float": "-23001.0"
                     },
                     {
                      "float": "-24001.0"
                     },
                     {
                      "float": "-25001.0"
                     },
                     {
                      "float": "-26001.0"
                     },
                     {
                      "float": "-27001.0"
                     }
                    ]
                   },
                   {
                    "dict": [
                     [
                      {
                       "str": "'units'"
                      },
                      {
                       "str": "'m'"
                      }
                     ]
                    ]
                   }
                  ]
                 }
                ],
                [
                 {
                  "str": "'z'"
                 },
                 {
                  "Variable": [
                   {
                    "list": [
                     {
                      "str": "'positions'"
                     }
                    ]
                   },
                   {
                    "list": [
                     {
                      "float": "2.0"
                     },
                     {
                      "float": "1002.0"
                     },
                     {
                      "float": "2002.0"
                     },
                     {
                      "float": "3002.0"
                     },
                     {
                      "float": "4002.0"
                     },
                     {
                      "float": "5002.0"
                     },
                     {
                      "float": "6002.0"
                     },
                     {
                      "float": "7002.0"
                     },
                     {
                      "float": "8002.0"
                     },
                     {
                      "float": "9002.0"
                     },
                     {
                      "float": "10002.0"
                     },
                     {
                      "float": "11002.0"
                     },
                     {
                      "float": "12002.0"
                     },
                     {
                      "float": "13002.0"
                     },
                     {
                      "float": "14002.0"
                     },
                     {
                      "float": "15002.0"
                     },
                     {
                      "float": "16002.0"
                     },
                     {
                      "float": "17002.0"
                     },
                     {
                      "float": "18002.0"
                     },
                     {
                      "float": "19002.0"
                     },
                     {
                      "float": "20002.0"
                     },
                     {
                      "float": "21002.0"
                     },
                     {
                      "float": "22002.0"
                     },
                     {
                      "float": "23002.0"
                     },
                     {
                      "float": "24002.0"
                     },
                     {
                      "float": "25002.0"
                     },
                     {
                      "float": "26002.0"
                     },
                     {
                      "float": "27002.0"
                     }
                    ]
                   },
                   {
                    "dict": [
                     [
                      {
                       "str": "'units'"
                      },
                      {
                       "str": "'m'"
                      }
                     ]
                    ]
                   }
                  ]
                 }
                ]
               ]
              },
              {
               "dict": []
              }
             ]
            }
           ],
           [
            {
             "str": "'velocity'"
            },
            {
             "Group": [
              "/positions/velocity",
              null,
              {
               "dict": [
                [
                 {
                  "str": "'x'"
                 },
                 {
                  "Variable": [
                   {
                    "list": [
                     {
                      "str": "'positions'"
                     }
                    ]
                   },
                   {
                    "list": [
                     {
                      "float": "-3.0"
                     },
                     {
                      "float": "-1003.0"
                     },
                     {
                      "float": "-2003.0"
                     },
                     {
                      "float": "-3003.0"
                     },
                     {
                      "float": "-4003.0"
                     },
                     {
                      "float": "-5003.0"
                     },
                     {
                      "float": "-6003.0"
                     },
                     {
                      "float": "-7003.0"
                     },
                     {
                      "float": "-8003.0"
                     },
                     {
                      "float": "-9003.0"
                     },
                     {
                      "float": "-10003.0"
                     },
                     {
                      "float": "-11003.0"
                     },
                     {
                      "float": "-12003.0"
                     },
                     {
                      "float": "-13003.0"
                     },
                     {
                      "float": "-14003.0"
                     },
                     {
                      "float": "-15003.0"
                     },
                     {
                      "float": "-16003.0"
                     },
                     {
                      "float": "-17003.0"
                     },
                     {
                      "float": "-18003.0"
                     },
                     {
                      "float": "-19003.0"
                     },
                     {
                      "float": "-20003.0"
                     },
                     {
                      "float": "-21003.0"
                     },
                     {
                      "float": "-22003.0"
                     },
                     {
                      "float": "-23003.0"
                     },
                     {
                      "float": "-24003.0"
                     },
                     {
                      "float": "-25003.0"
                     },
                     {
                      "float": "-26003.0"
                     },
                     {
                      "float": "-27003.0"
                     }
                    ]
                   },
                   {
                    "dict": [
                     [
                      {
                       "str": "'units'"
                      },
                      {
                       "str": "'m/s'"
                      }
                     ]
                    ]
                   }
                  ]
                 }
                ],
                [
                 {
                  "str": "'y'"
                 },
                 {
                  "Variable": [
                   {
                    "list": [
                     {
                      "str": "'positions'"
                     }
                    ]
                   },
                   {
                    "list": [
                     {
                      "float": "4.0"
                     },
                     {
                      "float": "1004.0"
                     },
                     {
                      "float": "2004.0"
                     },
                     {
                      "float": "3004.0"
                     },
                     {
                      "float": "4004.0"
                     },
                     {
                      "float": "5004.0"
                     },
                     {
                      "float": "6004.0"
                     },
                     {
                      "float": "7004.0"
                     },
                     {
                      "float": "8004.0"
                     },
                     {
                      "float": "9004.0"
                     },
                     {
                      "float": "10004.0"
                     },
                     {
                      "float": "11004.0"
                     },
                     {
                      "float": "12004.0"
                     },
                     {
                      "float": "13004.0"
                     },
                     {
                      "float": "14004.0"
                     },
                     {
                      "float": "15004.0"
                     },
                     {
                      "float": "16004.0"
                     },
                     {
                      "float": "17004.0"
                     },
                     {
                      "float": "18004.0"
                     },
                     {
                      "float": "19004.0"
                     },
                     {
                      "float": "20004.0"
                     },
                     {
                      "float": "21004.0"
                     },
                     {
                      "float": "22004.0"
                     },
                     {
                      "float": "23004.0"
                     },
                     {
                      "float": "24004.0"
                     },
                     {
                      "float": "25004.0"
                     },
                     {
                      "float": "26004.0"
                     },
                     {
                      "float": "27004.0"
                     }
                    ]
                   },
                   {
                    "dict": [
                     [
                      {
                       "str": "'units'"
                      },
                      {
                       "str": "'m/s'"
                      }
                     ]
                    ]
                   }
                  ]
                 }
                ],
                [
                 {
                  "str": "'z'"
                 },
                 {
                  "Variable": [
                   {
                    "list": [
                     {
                      "str": "'positions'"
                     }
                    ]
                   },
                   {
                    "list": [
                     {
                      "float": "-5.0"
                     },
                     {
                      "float": "-1005.0"
                     },
                     {
                      "float": "-2005.0"
                     },
                     {
                      "float": "-3005.0"
                     },
                     {
                      "float": "-4005.0"
                     },
                     {
                      "float": "-5005.0"
                     },
                     {
                      "float": "-6005.0"
                     },
                     {
                      "float": "-7005.0"
                     },
                     {
                      "float": "-8005.0"
                     },
                     {
                      "float": "-9005.0"
                     },
                     {
                      "float": "-10005.0"
                     },
                     {
                      "float": "-11005.0"
                     },
                     {
                      "float": "-12005.0"
                     },
                     {
                      "float": "-13005.0"
                     },
                     {
                      "float": "-14005.0"
                     },
                     {
                      "float": "-15005.0"
                     },
                     {
                      "float": "-16005.0"
                     },
                     {
                      "float": "-17005.0"
                     },
                     {
                      "float": "-18005.0"
                     },
                     {
                      "float": "-19005.0"
                     },
                     {
                      "float": "-20005.0"
                     },
                     {
                      "float": "-21005.0"
                     },
                     {
                      "float": "-22005.0"
                     },
                     {
                      "float": "-23005.0"
                     },
                     {
                      "float": "-24005.0"
                     },
                     {
                      "float": "-25005.0"
                     },
                     {
                      "float": "-26005.0"
                     },
                     {
                      "float": "-27005.0"
                     }
                    ]
                   },
                   {
                    "dict": [
                     [
                      {
                       "str": "'units'"
                      },
                      {
                       "str": "'m/s'"
                      }
                     ]
                    ]
                   }
                  ]
                 }
                ]
               ]
              },
              {
               "dict": []
              }
             ]
            }
           ]
          ]
         },
         {
          "dict": []
         }
        ]
       }
      ]
     ]
    },
    {
     "dict": [
      [
       {
        "str": "'datetime_of_first_point'"
       },
       {
        "str": "'2020-10-11T17:20:37.500000'"
       }
      ],
      [
       {
        "str": "'reference_coordinate_system'"
       },
       {
        "str": "'ECR'"
       }
      ],
      [
       {
        "str": "'leap_second'"
       },
       {
        "bool": "True"
       }
      ]
     ]
    }
   ]
  }
 },
 "parsed/blank_points": {
  "returns": {
   "Group": [
    "/",
    null,
    {
     "dict": [
      [
       {
        "str": "'sampling_frequency'"
       },
       {
        "Variable": [
         {
          "tuple": []
         },
         {
          "float": "60.0"
         },
         {
          "dict": [
           [
            {
             "str": "'units'"
            },
            {
             "str": "'s'"
            }
           ]
          ]
         }
        ]
       }
      ],
      [
       {
        "str": "'orbital_elements'"
       },
       {
        "Group": [
         "/orbital_elements",
         null,
         {
          "dict": [
           [
            {
             "str": "'position'"
            },
            {
             "Group": [
              "/orbital_elements/position",
              null,
              {
               "dict": [
                [
                 {
                  "str": "'x'"
                 },
                 {
                  "Variable": [
                   {
                    "tuple": []
                   },
                   {
                    "float": "100.0"
                   },
                   {
                    "dict": [
                     [
                      {
                       "str": "'units'"
                      },
                      {
                       "str": "'m'"
                      }
                     ]
                    ]
                   }
                  ]
                 }
                ],
                [
                 {
                  "str": "'y'"
                 },
                 {
                  "Variable": [
                   {
                    "tuple": []
                   },
                   {
                    "float": "200.0"
                   },
                   {
                    "dict": [
                     [
                      {
                       "str": "'units'"
                      },
                      {
                       "str": "'m'"
                      }
                     ]
                    ]
                   }
                  ]
                 }
                ],
                [
                 {
                  "str": "'z'"
                 },
                 {
                  "Variable": [
                   {
                    "tuple": []
                   },
                   {
                    "float": "300.0"
                   },
                   {
                    "dict": [
                     [
                      {
                       "str": "'units'"
                      },
                      {
                       "str": "'m'"
                      }
                     ]
                    ]
                   }
                  ]
                 }
                ]
               ]
              },
              {
               "dict": []
              }
             ]
            }
           ],
           [
            {
             "str": "'velocity'"
            },
            {
             "Group": [
              "/orbital_elements/velocity",
              null,
              {
               "dict": [
                [
                 {
                  "str": "'x'"
                 },
                 {
                  "Variable": [
                   {
                    "tuple": []
                   },
                   {
                    "float": "400.0"
                   },
                   {
                    "dict": [
                     [
                      {
                       "str": "'units'"
                      },
                      {
                       "str": "'m/s'"
                      }
                     ]
                    ]
                   }
                  ]
                 }
                ],
                [
                 {
                  "str": "'y'"
                 },
                 {
                  "Variable": [
                   {
                    "tuple": []
                   },
                   {
                    "float": "500.0"
                   },
                   {
                    "dict": [
                     [
                      {
                       "str": "'units'"
                      },
                      {
                       "str": "'m/s'"
                      }
                     ]
                    ]
                   }
                  ]
                 }
                ],
                [
                 {
                  "str": "'z'"
                 },
                 {
                  "Variable": [
                   {
                    "tuple": []
                   },
                   {
                    "float": "600.0"
                   },
                   {
                    "dict": [
                     [
                      {
                       "str": "'units'"
                      },
                      {
                       "str": "'m/s'"
                      }
                     ]
                    ]
                   }
                  ]
                 }
                ]
               ]
              },
              {
               "dict": []
              }
             ]
            }
           ]
          ]
         },
         {
          "dict": [
           [
            {
             "str": "'type'"
            },
            {
             "str": "'high_precision'"
            }
           ]
          ]
         }
        ]
       }
      ],
      [
       {
        "str": "'nominal_error'"
       },
       {
        "Group": [
         "/nominal_error",
         null,
         {
          "dict": [
           [
            {
             "str": "'position'"
            },
            {
             "Group": [
              "/nominal_error/position",
              null,
              {
               "dict": [
                [
                 {
                  "str": "'along_track'"
                 },
                 {
                  "Variable": [
                   {
                    "tuple": []
                   },
                   {
                    "float": "0.0"
                   },
                   {
                    "dict": [
                     [
                      {
                       "str": "'units'"
                      },
                      {
                       "str": "'m'"
                      }
                     ]
                    ]
                   }
                  ]
                 }
                ],
                [
                 {
                  "str": "'across_track'"
                 },
                 {
                  "Variable": [
                   {
                    "tuple": []
                   },
                   {
                    "float": "0.25"
                   },
                   {
                    "dict": [
                     [
                      {
                       "str": "'units'"
                      },
                      {
                       "str": "'m'"
                      }
                     ]
                    ]
                   }
                  ]
                 }
                ],
                [
                 {
                  "str": "'radial'"
                 },
                 {
                  "Variable": [
                   {
                    "tuple": []
                   },
                   {
                    "float": "0.5"
                   },
                   {
                    "dict": [
                     [
                      {
                       "str": "'units'"
                      },
                      {
                       "str": "'m'"
                      }
                     ]
                    ]
                   }
                  ]
                 }
                ]
               ]
              },
              {
               "dict": []
              }
             ]
            }
           ],
           [
            {
             "str": "'velocity'"
            },
            {
             "Group": [
              "/nominal_error/velocity",
              null,
              {
               "dict": [
                [
                 {
                  "str": "'along_track'"
                 },
                 {
                  "Variable": [
                   {
                    "tuple": []
                   },
                   {
                    "float": "0.75"
                   },
                   {
                    "dict": [
                     [
                      {
                       "str": "'units'"
                      },
                      {
                       "str": "'m/s'"
                      }
                     ]
                    ]
                   }
                  ]
                 }
                ],
                [
                 {
                  "str": "'across_track'"
                 },
                 {
                  "Variable": [
                   {
                    "tuple": []
                   },
                   {
                    "float": "1.0"
                   },
                   {
                    "dict": [
                     [
                      {
                       "str": "'units'"
                      },
                      {
                       "str": "'m/s'"
                      }
                     ]
                    ]
                   }
                  ]
                 }
                ],
                [
                 {
                  "str": "'radial'"
                 },
                 {
                  "Variable": [
                   {
                    "tuple": []
                   },
                   {
                    "float": "1.25"
                   },
                   {
                    "dict": [
                     [
                      {
                       "str": "'units'"
                      },
                      {
                       "str": "'m/s'"
                      }
                     ]
                    ]
                   }
                  ]
                 }
                ]
               ]
              },
              {
               "dict": []
              }
             ]
            }
           ]
          ]
         },
         {
          "dict": []
         }
        ]
       }
      ],
      [
       {
        "str": "'positions'"
       },
       {
        "Group": [
         "/positions",
         null,
         {
          "dict": [
           [
            {
             "str": "'position'"
            },
            {
             "Group": [
              "/positions/position",
              null,
              {
               "dict": [
                [
                 {
                  "str": "'x'"
                 },
                 {
                  "Variable": [
                   {
                    "list": [
                     {
                      "str": "'positions'"
                     }
                    ]
                   },
                   {
                    "list": [
                     {
                      "float": "0.0"
                     },
                     {
                      "float": "1000.0"
                     },
                     {
                      "float": "2000.0"
                     },
                     {
                      "float": "3000.0"
                     },
                     {
                      "float": "4000.0"
                     },
                     {
                      "float": "5000.0"
                     },
                     {
                      "float": "6000.0"
                     },
                     {
                      "float": "7000.0"
                     },
                     {
                      "float": "8000.0"
                     },
                     {
                      "float": "9000.0"
                     },
                     {
                      "float": "10000.0"
                     },
                     {
                      "float": "11000.0"
                     },
                     {
                      "float": "12000.0"
                     },
                     {
                      "float": "13000.0"
                     },
                     {
                      "float": "14000.0"
                     },
                     {
                      "float": "15000.0"
                     },
                     {
                      "float": "16000.0"
                     },
                     {
                      "float": "17000.0"
                     },
                     {
                      "float": "18000.0"
                     },
                     {
                      "float": "19000.0"
                     },
                     {
                      "float": "20000.0"
                     },
                     {
                      "float": "21000.0"
                     },
                     {
                      "float": "22000.0"
                     },
                     {
                      "float": "nan"
                     },
                     {
                      "float": "nan"
                     },
                     {
                      "float": "nan"
                     },
                     {
                      "float": "nan"
                     },
                     {
                      "float": "nan"
                     }
                    ]
                   },
                   {
                    "dict": [
                     [
                      {
                       "str": "'units'"
                      },
                      {
                       "str": "'m'"
                      }
                     ]
                    ]
                   }
                  ]
                 }
                ],
                [
                 {
                  "str": "'y'"
                 },
                 {
                  "Variable": [
                   {
                    "list": [
                     {
                      "str": "'positions'"
                     }
                    ]
                   },
                   {
                    "list": [
                     {
                      "float": "-1.0"
                     },
                     {
                      "float": "-1001.0"
                     },
                     {
                      "float": "-2001.0"
                     },
                     {
                      "float": "-3001.0"
                     },
                     {
                      "float": "-4001.0"
                     },
                     {
                      "float": "-5001.0"
                     },
                     {
                      "float": "-6001.0"
                     },
                     {
                      "float": "-7001.0"
                     },
                     {
                      "float": "-8001.0"
                     },
                     {
                      "float": "-9001.0"
                     },
                     {
                      "float": "-10001.0"
                     },
                     {
                      "float": "-11001.0"
                     },
                     {
                      "float": "-12001.0"
                     },
                     {
                      "float": "-13001.0"
                     },
                     {
                      "float": "-14001.0"
                     },
                     {
                      "float": "-15001.0"
                     },
                     {
                      "float": "-16001.0"
                     },
                     {
                      "float": "-17001.0"
                     },
                     {
                      "float": "-18001.0"
                     },
                     {
                      "float": "-19001.0"
                     },
                     {
                      "float": "-20001.0"
                     },
                     {
                      "float": "-21001.0"
                     },
                     {
                      "float": "-22001.0"
                     },
                     {
                      "float": "nan"
                     },
                     {
                      "float": "nan"
                     },
                     {
                      "float": "nan"
                     },
                     {
                      "float": "nan"
                     },
                     {
                      "float": "nan"
                     }
                    ]
                   },
                   {
                    "dict": [
                     [
                      {
                       "str": "'units'"
                      },
                      {
                       "str": "'m'"
                      }
                     ]
                    ]
                   }
                  ]
                 }
                ],
                [
                 {
                  "str": "'z'"
                 },
                 {
                  "Variable": [
                   {
                    "list": [
                     {
                      "str": "'positions'"
                     }
                    ]
                   },
                   {
                    "list": [
                     {
                      "float": "2.0"
                     },
                     {
                      "float": "1002.0"
                     },
                     {
                      "float": "2002.0"
                     },
                     {
                      "float": "3002.0"
                     },
                     {
                      "float": "4002.0"
                     },
                     {
                      "float": "5002.0"
                     },
                     {
                      "float": "6002.0"
                     },
                     {
                      "float": "7002.0"
                     },
                     {
                      "float": "8002.0"
                     },
                     {
                      "float": "9002.0"
                     },
                     {
                      "float": "10002.0"
                     },
                     {
                      "float": "11002.0"
                     },
                     {
                      "float": "12002.0"
                     },
                     {
                      "float": "13002.0"
                     },
                     {
                      "float": "14002.0"
                     },
                     {
                      "float": "15002.0"
                     },
                     {
                      "float": "16002.0"
                     },
                     {
                      "float": "17002.0"
                     },
                     {
                      "float": "18002.0"
                     },
                     {
                      "float": "19002.0"
                     },
                     {
                      "float": "20002.0"
                     },
                     {
                      "float": "21002.0"
                     },
                     {
                      "float": "22002.0"
                     },
                     {
                      "float": "nan"
                     },
                     {
                      "float": "nan"
                     },
                     {
                      "float": "nan"
                     },
                     {
                      "float": "nan"
                     },
                     {
                      "float": "nan"
                     }
                    ]
                   },
                   {
                    "dict": [
                     [
                      {
                       "str": "'units'"
                      },
                      {
                       "str": "'m'"
                      }
                     ]
                    ]
                   }
                  ]
                 }
                ]
               ]
              },
              {
               "dict": []
              }
             ]
            }
           ],
           [
            {
             "str": "'velocity'"
            },
            {
             "Group": [
              "/positions/velocity",
              null,
              {
               "dict": [
                [
                 {
                  "str": "'x'"
                 },
                 {
                  "Variable": [
                   {
                    "list": [
                     {
                      "str": "'positions'"
                     }
                    ]
                   },
                   {
                    "list": [
                     {
                      "float": "-3.0"
                     },
                     {
                      "float": "-1003.0"
                     },
                     {
                      "float": "-2003.0"
                     },
                     {
                      "float": "-3003.0"
                     },
                     {
                      "float": "-4003.0"
                     },
                     {
                      "float": "-5003.0"
                     },
                     {
                      "float": "-6003.0"
                     },
                     {
                      "float": "-7003.0"
                     },
                     {
                      "float": "-8003.0"
                     },
                     {
                      "float": "-9003.0"
                     },
                     {
                      "float": "-10003.0"
                     },
                     {
                      "float": "-11003.0"
                     },
                     {
                      "float": "-12003.0"
                     },
                     {
                      "float": "-13003.0"
                     },
                     {
                      "float": "-14003.0"
                     },
                     {
                      "float": "-15003.0"
                     },
                     {
                      "float": "-16003.0"
                     },
                     {
                      "float": "-17003.0"
                     },
                     {
                      "float": "-18003.0"
                     },
                     {
                      "float": "-19003.0"
                     },
                     {
                      "float": "-20003.0"
                     },
                     {
                      "float": "-21003.0"
                     },
                     {
                      "float": "-22003.0"
                     },
                     {
                      "float": "nan"
                     },
                     {
                      "float": "nan"
                     },
                     {
                      "float": "nan"
                     },
                     {
                      "float": "nan"
                     },
                     {
                      "float": "nan"
                     }
                    ]
                   },
                   {
                    "dict": [
                     [
                      {
                       "str": "'units'"
                      },
                      {
                       "str": "'m/s'"
                      }
                     ]
                    ]
                   }
                  ]
                 }
                ],
                [
                 {
                  "str": "'y'"
                 },
                 {
                  "Variable": [
                   {
                    "list": [
                     {
                      "str": "'positions'"
                     }
                    ]
                   },
                   {
                    "list": [
                     {
                      "float": "4.0"
                     },
                     {
                      "float": "1004.0"
                     },
                     {
                      "float": "2004.0"
                     },
                     {
                      "float": "3004.0"
                     },
                     {
                      "float": "4004.0"
                     },
                     {
                      "float": "5004.0"
                     },
                     {
                      "float": "6004.0"
                     },
                     {
                      "float": "7004.0"
                     },
                     {
                      "float": "8004.0"
                     },
                     {
                      "float": "9004.0"
                     },
                     {
                      "float": "10004.0"
                     },
                     {
                      "float": "11004.0"
                     },
                     {
                      "float": "12004.0"
                     },
                     {
                      "float": "13004.0"
                     },
                     {
                      "float": "14004.0"
                     },
                     {
                      "float": "15004.0"
                     },
                     {
                      "float": "16004.0"
                     },
                     {
                      "float": "17004.0"
                     },
                     {
                      "float": "18004.0"
                     },
                     {
                      "float": "19004.0"
                     },
                     {
                      "float": "20004.0"
                     },
                     {
                      "float": "21004.0"
                     },
                     {
                      "float": "22004.0"
                     },
                     {
                      "float": "nan"
                     },
                     {
                      "float": "nan"
                     },
                     {
                      "float": "nan"
                     },
                     {
                      "float": "nan"
                     },
                     {
                      "float": "nan"
                     }
                    ]
                   },
                   {
                    "dict": [
                     [
                      {
                       "str": "'units'"
                      },
                      {
                       "str": "'m/s'"
                      }
                     ]
                    ]
                   }
                  ]
                 }
                ],
                [
                 {
                  "str": "'z'"
                 },
                 {
                  "Variable": [
                   {
                    "list": [
                     {
                      "str": "'positions'"
                     }
                    ]
                   },
                   {
                    "list": [
                     {
                      "float": "-5.0"
                     },
                     {
                      "float": "-1005.0"
                     },
                     {
                      "float": "-2005.0"
                     },
                     {
                      "float": "-3005.0"
                     },
                     {
                      "float": "-4005.0"
                     },
                     {
                      "float": "-5005.0"
                     },
                     {
                      "float": "-6005.0"
                     },
                     {
                      "float": "-7005.0"
                     },
                     {
                      "float": "-8005.0"
                     },
                     {
                      "float": "-9005.0"
                     },
                     {
                      "float": "-10005.0"
                     },
                     {
                      "float": "-11005.0"
                     },
                     {
                      "float": "-12005.0"
                     },
                     {
                      "float": "-13005.0"
                     },
                     {
                      "float": "-14005.0"
                     },
                     {
                      "float": "-15005.0"
                     },
                     {
                      "float": "-16005.0"
                     },
                     {
                      "float": "-17005.0"
                     },
                     {
                      "float": "-18005.0"
                     },
                     {
                      "float": "-19005.0"
                     },
                     {
                      "float": "-20005.0"
                     },
                     {
                      "float": "-21005.0"
                     },
                     {
                      "float": "-22005.0"
                     },
                     {
                      "float": "nan"
                     },
                     {
                      "float": "nan"
                     },
                     {
                      "float": "nan"
                     },
                     {
                      "float": "nan"
                     },
                     {
                      "float": "nan"
                     }
                    ]
                   },
                   {
                    "dict": [
                     [
                      {
                       "str": "'units'"
                      },
                      {
                       "str": "'m/s'"
                      }
                     ]
                    ]
                   }
                  ]
                 }
                ]
               ]
              },
              {
               "dict": []
              }
             ]
            }
           ]
          ]
         },
         {
          "dict": []
         }
        ]
       }
      ]
     ]
    },
    {
     "dict": [
      [
       {
        "str": "'datetime_of_first_point'"
       },
       {
        "str": "'2020-10-11T17:20:37.500000'"
       }
      ],
      [
       {
        "str": "'reference_coordinate_system'"
       },
       {
        "str": "'ECR'"
       }
      ],
      [
       {
        "str": "'leap_second'"
       },
       {
        "bool": "True"
       }
      ]
     ]
    }
   ]
  }
 },
 "parsed/bad:blank_date": {
  "raises": [
   "ValueError",
   "time data '' does not match format '%Y-%m-%d'"
  ]
 },
 "transform_positions/input_unchanged": true,
 "transform_positions/repeatable": true,
 "transform_platform_position/input_unchanged": true,
 "transform_platform_position/repeatable": true,
 "transform_positions/identity": [
  true,
  true,
  false,
  true,
  "tuple",
  "list",
  "list",
  "dict",
  "dict"
 ]
}
"""

if __name__ == "__main__":
    if "--record" in sys.argv:
        print(json.dumps(collect(), indent=1, ensure_ascii=True))
    else:
        test_equivalence()
        print(f"ok: {len(json.loads(EXPECTED))} snapshots identical")
