"""Equivalence check for refactoring 5 (ceos_alos2/sar_image/signal_data.py).

Run as ``python equiv.py`` or through pytest.  The expected values were recorded
from the unchanged code (HEAD) and must be reproduced with and without the patch.
"""

import hashlib
import io as stdlib_io
import struct

import construct

from ceos_alos2.sar_image import io, signal_data
from ceos_alos2.utils import to_dict

record = signal_data.signal_data_record
HEADER_SIZE = 544
MICROSECONDS_OFFSET = 84
MODULE_NAMES = [
    "Bytes",
    "Computed",
    "DatetimeYdms",
    "DatetimeYdus",
    "Factor",
    "Flag",
    "Int32ub",
    "Int64ub",
    "Metadata",
    "Seek",
    "StripNullBytes",
    "Struct",
    "Tell",
    "signal_data_record",
    "chirp_type_designator",
    "platform_position_parameters_update",
    "pulse_polarization",
    "record_preamble",
    "sar_channel_code",
    "sar_channel_id",
    "this",
]
DATE_OFFSET = 36


def outcome(func, *args, **kwargs):
    try:
        value = func(*args, **kwargs)
    except Exception as e:  # noqa: BLE001
        return f"raised {type(e).__module__}.{type(e).__qualname__}: {e}"
    return f"{type(value).__name__} {value!r}"


def describe(con, path="record"):
    """flatten a construct tree into (path, type, parameters) rows"""
    parameters = {}
    for attr in ("attrs", "factor", "length", "fmtstr", "encmapping", "flagbuildnone"):
        if attr in vars(con):
            value = vars(con)[attr]
            if attr == "encmapping":
                value = [(str(k), v) for k, v in value.items()]
            parameters[attr] = value
    for attr in ("func", "at", "count"):
        if attr in vars(con):
            parameters[attr] = str(vars(con)[attr])
    rows = [(path, type(con).__name__, repr(parameters))]
    if isinstance(con, construct.Renamed):
        rows = []
        path = f"{path}.{con.name}"
        rows.extend(describe(con.subcon, path))
    elif hasattr(con, "subcons"):
        for sub in con.subcons:
            rows.extend(describe(sub, path))
    elif hasattr(con, "subcon"):
        rows.extend(describe(con.subcon, path + "<"))
    return rows


class Lcg:
    """tiny deterministic byte source (independent of the stdlib implementation)"""

    def __init__(self, seed):
        self.state = seed & 0xFFFFFFFF

    def next(self):
        self.state = (1664525 * self.state + 1013904223) & 0xFFFFFFFF
        return self.state >> 8

    def bytes(self, n):
        return bytes(self.next() & 0xFF for _ in range(n))


def make_record(
    seed,
    record_length,
    *,
    date=(2015, 123, 4567890),
    microseconds=4567890123,
    small_enums=True,
    fill=None,
):
    rng = Lcg(seed)
    if fill is None:
        header = bytearray(rng.bytes(HEADER_SIZE))
    else:
        header = bytearray([fill]) * HEADER_SIZE
    header[0:4] = struct.pack(">I", seed % 100000)
    header[4:8] = bytes([50, 10, 18, 20])
    header[8:12] = struct.pack(">I", record_length)
    if date is not None:
        header[DATE_OFFSET : DATE_OFFSET + 12] = struct.pack(">III", *date)
    if microseconds is not None:
        header[MICROSECONDS_OFFSET : MICROSECONDS_OFFSET + 8] = struct.pack(">Q", microseconds)
    if small_enums:
        # channel id / channel code / tx / rx polarization: sometimes known codes
        header[48:56] = struct.pack(
            ">HHHH", (1, 2, 4, 3)[seed % 4], seed % 7, seed % 3, (seed // 3) % 3
        )
        # range compressed flag, chirp type, invalid line flag, position update flag
        header[64:68] = struct.pack(">HH", seed % 2, seed % 3)
        header[96:100] = struct.pack(">I", (seed // 2) % 2)
        header[128:132] = struct.pack(">I", seed % 3)
    body = rng.bytes(min(max(record_length - HEADER_SIZE, 0), 1024))
    return bytes(header) + body


def parse_one(data):
    return to_dict(record.parse(data))


def parse_many(data, n):
    return to_dict(record[n].parse(data))


def digest(obj):
    return hashlib.sha256(repr(obj).encode()).hexdigest()


def observe():
    observed = []

    # structure of the record definition
    rows = describe(record)
    observed.append(("structure", rows))
    observed.append(("field names", [sub.name for sub in record.subcons]))
    observed.append(("sizeof", outcome(record.sizeof)))
    # names other modules may import from here (imports of the module itself excluded:
    # a new import statement is not a behaviour change)
    observed.append(("module names", [n for n in MODULE_NAMES if hasattr(signal_data, n)]))
    observed.append(("__all__", getattr(signal_data, "__all__", None)))

    # a few fully spelled out records
    observed.append(("zeros", outcome(parse_one, make_record(1, 544, date=(1, 1, 0), microseconds=0, fill=0))))
    ones = make_record(2, 800, date=(9999, 365, 1), microseconds=86399999999, fill=255)
    observed.append(("ones", outcome(parse_one, ones)))
    observed.append(("random-1", outcome(parse_one, make_record(3, 1500))))
    observed.append(("random-2", outcome(parse_one, make_record(4, 560, small_enums=False))))

    # record length variants: shorter than the header, zero, larger than the buffer
    for record_length in [0, 1, 12, 543, 544, 545, 900, 10**6, 2**32 - 1]:
        data = make_record(10 + record_length % 97, record_length)[:1000]
        result = outcome(lambda: parse_one(data)["data"])
        observed.append(("record_length", record_length, len(data), result))

    # invalid dates: the error has to come from the date field
    for date in [(0, 1, 0), (10000, 1, 0), (2015, 2**32 - 1, 0), (0, 2**32 - 1, 5), None]:
        data = make_record(77, 600, date=date)
        result = outcome(lambda: parse_one(data)["sensor_acquisition_date"])
        observed.append(("bad date", date, result))
    for microseconds in [0, 1, 86400000000, 2**40, 2**63, 2**64 - 1, None]:
        for date in [(2015, 123, 5), (9999, 365, 5), (0, 1, 0)]:
            data = make_record(78, 600, date=date, microseconds=microseconds)
            result = outcome(lambda: parse_one(data)["sensor_acquisition_date_microseconds"])
            observed.append(("microseconds", microseconds, date, result))

    # truncated input: the path of the failing field is part of the message
    data = make_record(5, 600)
    for size in list(range(0, 552, 1)):
        observed.append(("truncated", size, outcome(parse_one, data[:size])))

    # parsing from a stream which does not start at the record
    for offset in [0, 1, 720, 12345]:
        stream = stdlib_io.BytesIO(bytes(offset) + make_record(6, 700) + b"tail")
        stream.seek(offset)

        def parse():
            result = record.parse_stream(stream)
            return (result.record_start, to_dict(result.data), stream.tell())

        observed.append(("stream offset", offset, outcome(parse)))

    # several records in a row, each with its own length
    lengths = [544, 560, 600, 1500, 544, 777]
    data = b"".join(make_record(20 + i, n) for i, n in enumerate(lengths))
    for n in range(0, 8):
        observed.append(
            (
                "array",
                n,
                outcome(
                    lambda: [
                        (r["record_start"], r["sar_image_data_line_number"], r["data"])
                        for r in parse_many(data, n)
                    ]
                ),
            )
        )

    # through the chunk parser (record type 10 selects this record)
    chunk = b"".join(make_record(40 + i, 600) for i in range(5))
    for element_size in [600, 300, 200, 599, 3000]:
        observed.append(
            (
                "parse_chunk",
                element_size,
                outcome(lambda: digest(to_dict(io.parse_chunk(chunk, element_size)))),
            )
        )

    # bulk: digest of many pseudo random records
    bulk = []
    for seed in range(100, 400):
        date = (1990 + seed % 60, 1 + seed % 366, seed * 977)
        data = make_record(seed, 544 + seed % 50, date=date, microseconds=seed * 7919 * 1000)
        bulk.append(outcome(parse_one, data))
    observed.append(("bulk first", bulk[0]))
    observed.append(("bulk digest", digest(bulk)))

    # every Metadata field hands out its own attrs dict, stable between parses
    first = record.parse(make_record(7, 544))
    second = record.parse(make_record(8, 544))

    def metadata_fields(container, prefix=""):
        for key, value in container.items():
            if key.startswith("_"):
                continue
            if isinstance(value, tuple):
                yield prefix + key, value
            elif isinstance(value, construct.Container):
                yield from metadata_fields(value, prefix + key + ".")

    fields1 = dict(metadata_fields(first))
    fields2 = dict(metadata_fields(second))
    names = list(fields1)
    observed.append(("metadata fields", names))
    observed.append(("distinct attrs", len({id(fields1[k][1]) for k in names})))
    observed.append(("stable attrs", all(fields1[k][1] is fields2[k][1] for k in names)))
    observed.append(("attrs", [fields1[k][1] for k in names]))
    observed.append(("value types", [type(fields1[k][0]).__name__ for k in names]))
    observed.append(("nested order", [list(k for k in v if k != "_io") for v in first.values()
                                      if isinstance(v, construct.Container)]))

    # building is not supported
    observed.append(("build", outcome(record.build, dict(first))))
    observed.append(("construct", construct.__version__))

    return observed


EXPECTED = [('structure',
  [('record', 'Struct', "{'flagbuildnone': False}"),
   ('record.record_start', 'Tell', "{'flagbuildnone': True}"),
   ('record.preamble', 'Struct', "{'flagbuildnone': False}"),
   ('record.preamble.record_sequence_number',
    'FormatField',
    "{'length': 4, 'fmtstr': '>L', 'flagbuildnone': False}"),
   ('record.preamble.first_record_subtype',
    'FormatField',
    "{'length': 1, 'fmtstr': '>B', 'flagbuildnone': False}"),
   ('record.preamble.record_type',
    'FormatField',
    "{'length': 1, 'fmtstr': '>B', 'flagbuildnone': False}"),
   ('record.preamble.second_record_subtype',
    'FormatField',
    "{'length': 1, 'fmtstr': '>B', 'flagbuildnone': False}"),
   ('record.preamble.third_record_subtype',
    'FormatField',
    "{'length': 1, 'fmtstr': '>B', 'flagbuildnone': False}"),
   ('record.preamble.record_length',
    'FormatField',
    "{'length': 4, 'fmtstr': '>L', 'flagbuildnone': False}"),
   ('record.sar_image_data_line_number',
    'FormatField',
    "{'length': 4, 'fmtstr': '>L', 'flagbuildnone': False}"),
   ('record.sar_image_data_record_index',
    'FormatField',
    "{'length': 4, 'fmtstr': '>L', 'flagbuildnone': False}"),
   ('record.actual_count_of_left_fill_pixels',
    'FormatField',
    "{'length': 4, 'fmtstr': '>L', 'flagbuildnone': False}"),
   ('record.actual_count_of_data_pixels',
    'FormatField',
    "{'length': 4, 'fmtstr': '>L', 'flagbuildnone': False}"),
   ('record.actual_count_of_right_fill_pixels',
    'FormatField',
    "{'length': 4, 'fmtstr': '>L', 'flagbuildnone': False}"),
   ('record.sensor_parameters_update_flag',
    'FormatField',
    "{'length': 4, 'fmtstr': '>L', 'flagbuildnone': False}"),
   ('record.sensor_acquisition_date', 'DatetimeYdms', "{'flagbuildnone': False}"),
   ('record.sensor_acquisition_date<', 'Struct', "{'flagbuildnone': False}"),
   ('record.sensor_acquisition_date<.year',
    'FormatField',
    "{'length': 4, 'fmtstr': '>L', 'flagbuildnone': False}"),
   ('record.sensor_acquisition_date<.day_of_year',
    'FormatField',
    "{'length': 4, 'fmtstr': '>L', 'flagbuildnone': False}"),
   ('record.sensor_acquisition_date<.milliseconds',
    'FormatField',
    "{'length': 4, 'fmtstr': '>L', 'flagbuildnone': False}"),
   ('record.sar_channel_id',
    'Enum',
    "{'encmapping': [('single_polarization', 1), ('dual_polarization', 2), ('full_polarization', "
    "4)], 'flagbuildnone': False}"),
   ('record.sar_channel_id<',
    'FormatField',
    "{'length': 2, 'fmtstr': '>H', 'flagbuildnone': False}"),
   ('record.sar_channel_code',
    'Enum',
    "{'encmapping': [('L', 0), ('S', 1), ('C', 2), ('X', 3), ('KU', 4), ('KA', 5)], "
    "'flagbuildnone': False}"),
   ('record.sar_channel_code<',
    'FormatField',
    "{'length': 2, 'fmtstr': '>H', 'flagbuildnone': False}"),
   ('record.transmitted_pulse_polarization',
    'Enum',
    "{'encmapping': [('horizontal', 0), ('vertical', 1)], 'flagbuildnone': False}"),
   ('record.transmitted_pulse_polarization<',
    'FormatField',
    "{'length': 2, 'fmtstr': '>H', 'flagbuildnone': False}"),
   ('record.received_pulse_polarization',
    'Enum',
    "{'encmapping': [('horizontal', 0), ('vertical', 1)], 'flagbuildnone': False}"),
   ('record.received_pulse_polarization<',
    'FormatField',
    "{'length': 2, 'fmtstr': '>H', 'flagbuildnone': False}"),
   ('record.prf', 'Metadata', "{'attrs': {'units': 'mHz'}, 'flagbuildnone': False}"),
   ('record.prf<', 'FormatField', "{'length': 4, 'fmtstr': '>L', 'flagbuildnone': False}"),
   ('record.scan_id', 'FormatField', "{'length': 4, 'fmtstr': '>L', 'flagbuildnone': False}"),
   ('record.onboard_range_compressed_flag', 'Flag', "{'flagbuildnone': False}"),
   ('record.onboard_range_compressed_flag<',
    'FormatField',
    "{'length': 2, 'fmtstr': '>H', 'flagbuildnone': False}"),
   ('record.chirp_type_designator',
    'Enum',
    "{'encmapping': [('linear_fm_chirp', 0), ('phase_modulators', 1)], 'flagbuildnone': False}"),
   ('record.chirp_type_designator<',
    'FormatField',
    "{'length': 2, 'fmtstr': '>H', 'flagbuildnone': False}"),
   ('record.chirp_length', 'Metadata', "{'attrs': {'units': 'ns'}, 'flagbuildnone': False}"),
   ('record.chirp_length<', 'FormatField', "{'length': 4, 'fmtstr': '>L', 'flagbuildnone': False}"),
   ('record.chirp_constant_coefficient',
    'Metadata',
    "{'attrs': {'units': 'Hz'}, 'flagbuildnone': False}"),
   ('record.chirp_constant_coefficient<',
    'FormatField',
    "{'length': 4, 'fmtstr': '>L', 'flagbuildnone': False}"),
   ('record.chirp_linear_coefficient',
    'Metadata',
    "{'attrs': {'units': 'Hz/µs'}, 'flagbuildnone': False}"),
   ('record.chirp_linear_coefficient<',
    'FormatField',
    "{'length': 4, 'fmtstr': '>L', 'flagbuildnone': False}"),
   ('record.chirp_quadratic_coefficient',
    'Metadata',
    "{'attrs': {'units': 'Hz/µs^2'}, 'flagbuildnone': False}"),
   ('record.chirp_quadratic_coefficient<',
    'FormatField',
    "{'length': 4, 'fmtstr': '>L', 'flagbuildnone': False}"),
   ('record.sensor_acquisition_date_microseconds', 'DatetimeYdus', "{'flagbuildnone': False}"),
   ('record.sensor_acquisition_date_microseconds<',
    'FormatField',
    "{'length': 8, 'fmtstr': '>Q', 'flagbuildnone': False}"),
   ('record.receiver_gain', 'Metadata', "{'attrs': {'units': 'dB'}, 'flagbuildnone': False}"),
   ('record.receiver_gain<',
    'FormatField',
    "{'length': 4, 'fmtstr': '>L', 'flagbuildnone': False}"),
   ('record.invalid_line_flag', 'Flag', "{'flagbuildnone': False}"),
   ('record.invalid_line_flag<',
    'FormatField',
    "{'length': 4, 'fmtstr': '>L', 'flagbuildnone': False}"),
   ('record.elevation_angle_at_nadir_of_antenna', 'Struct', "{'flagbuildnone': False}"),
   ('record.elevation_angle_at_nadir_of_antenna.electronic',
    'Metadata',
    "{'attrs': {'units': 'deg'}, 'flagbuildnone': False}"),
   ('record.elevation_angle_at_nadir_of_antenna.electronic<',
    'FormatField',
    "{'length': 4, 'fmtstr': '>L', 'flagbuildnone': False}"),
   ('record.elevation_angle_at_nadir_of_antenna.mechanic',
    'Metadata',
    "{'attrs': {'units': 'deg'}, 'flagbuildnone': False}"),
   ('record.elevation_angle_at_nadir_of_antenna.mechanic<',
    'FormatField',
    "{'length': 4, 'fmtstr': '>L', 'flagbuildnone': False}"),
   ('record.antenna_squint_angle', 'Struct', "{'flagbuildnone': False}"),
   ('record.antenna_squint_angle.electronic',
    'Metadata',
    "{'attrs': {'units': 'deg'}, 'flagbuildnone': False}"),
   ('record.antenna_squint_angle.electronic<',
    'FormatField',
    "{'length': 4, 'fmtstr': '>L', 'flagbuildnone': False}"),
   ('record.antenna_squint_angle.mechanic',
    'Metadata',
    "{'attrs': {'units': 'deg'}, 'flagbuildnone': False}"),
   ('record.antenna_squint_angle.mechanic<',
    'FormatField',
    "{'length': 4, 'fmtstr': '>L', 'flagbuildnone': False}"),
   ('record.slant_range_to_first_data_sample',
    'Metadata',
    "{'attrs': {'units': 'm'}, 'flagbuildnone': False}"),
   ('record.slant_range_to_first_data_sample<',
    'FormatField',
    "{'length': 4, 'fmtstr': '>L', 'flagbuildnone': False}"),
   ('record.data_record_window_position',
    'Metadata',
    "{'attrs': {'units': 'ns'}, 'flagbuildnone': False}"),
   ('record.data_record_window_position<',
    'FormatField',
    "{'length': 4, 'fmtstr': '>L', 'flagbuildnone': False}"),
   ('record.blanks1', 'FormatField', "{'length': 4, 'fmtstr': '>L', 'flagbuildnone': False}"),
   ('record.platform_position_parameters_update_flag',
    'Enum',
    "{'encmapping': [('repeat', 0), ('update', 1)], 'flagbuildnone': False}"),
   ('record.platform_position_parameters_update_flag<',
    'FormatField',
    "{'length': 4, 'fmtstr': '>L', 'flagbuildnone': False}"),
   ('record.platform_latitude', 'Metadata', "{'attrs': {'units': 'deg'}, 'flagbuildnone': False}"),
   ('record.platform_latitude<', 'Factor', "{'factor': 1e-06, 'flagbuildnone': False}"),
   ('record.platform_latitude<<',
    'FormatField',
    "{'length': 4, 'fmtstr': '>L', 'flagbuildnone': False}"),
   ('record.platform_longitude', 'Metadata', "{'attrs': {'units': 'deg'}, 'flagbuildnone': False}"),
   ('record.platform_longitude<', 'Factor', "{'factor': 1e-06, 'flagbuildnone': False}"),
   ('record.platform_longitude<<',
    'FormatField',
    "{'length': 4, 'fmtstr': '>L', 'flagbuildnone': False}"),
   ('record.platform_altitude', 'Metadata', "{'attrs': {'units': 'deg'}, 'flagbuildnone': False}"),
   ('record.platform_altitude<',
    'FormatField',
    "{'length': 4, 'fmtstr': '>L', 'flagbuildnone': False}"),
   ('record.platform_ground_speed',
    'Metadata',
    "{'attrs': {'units': 'cm/s'}, 'flagbuildnone': False}"),
   ('record.platform_ground_speed<',
    'FormatField',
    "{'length': 4, 'fmtstr': '>L', 'flagbuildnone': False}"),
   ('record.platform_velocity', 'Struct', "{'flagbuildnone': False}"),
   ('record.platform_velocity.x',
    'Metadata',
    "{'attrs': {'units': 'cm/s'}, 'flagbuildnone': False}"),
   ('record.platform_velocity.x<',
    'FormatField',
    "{'length': 4, 'fmtstr': '>L', 'flagbuildnone': False}"),
   ('record.platform_velocity.y',
    'Metadata',
    "{'attrs': {'units': 'cm/s'}, 'flagbuildnone': False}"),
   ('record.platform_velocity.y<',
    'FormatField',
    "{'length': 4, 'fmtstr': '>L', 'flagbuildnone': False}"),
   ('record.platform_velocity.z',
    'Metadata',
    "{'attrs': {'units': 'cm/s'}, 'flagbuildnone': False}"),
   ('record.platform_velocity.z<',
    'FormatField',
    "{'length': 4, 'fmtstr': '>L', 'flagbuildnone': False}"),
   ('record.platform_acceleration', 'Struct', "{'flagbuildnone': False}"),
   ('record.platform_acceleration.x',
    'Metadata',
    "{'attrs': {'units': 'cm/s^2'}, 'flagbuildnone': False}"),
   ('record.platform_acceleration.x<',
    'FormatField',
    "{'length': 4, 'fmtstr': '>L', 'flagbuildnone': False}"),
   ('record.platform_acceleration.y',
    'Metadata',
    "{'attrs': {'units': 'cm/s^2'}, 'flagbuildnone': False}"),
   ('record.platform_acceleration.y<',
    'FormatField',
    "{'length': 4, 'fmtstr': '>L', 'flagbuildnone': False}"),
   ('record.platform_acceleration.z',
    'Metadata',
    "{'attrs': {'units': 'cm/s^2'}, 'flagbuildnone': False}"),
   ('record.platform_acceleration.z<',
    'FormatField',
    "{'length': 4, 'fmtstr': '>L', 'flagbuildnone': False}"),
   ('record.platform_track_angle',
    'Metadata',
    "{'attrs': {'units': 'deg'}, 'flagbuildnone': False}"),
   ('record.platform_track_angle<', 'Factor', "{'factor': 1e-06, 'flagbuildnone': False}"),
   ('record.platform_track_angle<<',
    'FormatField',
    "{'length': 4, 'fmtstr': '>L', 'flagbuildnone': False}"),
   ('record.platform_true_track_angle',
    'Metadata',
    "{'attrs': {'units': 'deg'}, 'flagbuildnone': False}"),
   ('record.platform_true_track_angle<', 'Factor', "{'factor': 1e-06, 'flagbuildnone': False}"),
   ('record.platform_true_track_angle<<',
    'FormatField',
    "{'length': 4, 'fmtstr': '>L', 'flagbuildnone': False}"),
   ('record.platform_attitude', 'Struct', "{'flagbuildnone': False}"),
   ('record.platform_attitude.pitch',
    'Metadata',
    "{'attrs': {'units': 'deg'}, 'flagbuildnone': False}"),
   ('record.platform_attitude.pitch<', 'Factor', "{'factor': 1e-06, 'flagbuildnone': False}"),
   ('record.platform_attitude.pitch<<',
    'FormatField',
    "{'length': 4, 'fmtstr': '>L', 'flagbuildnone': False}"),
   ('record.platform_attitude.roll',
    'Metadata',
    "{'attrs': {'units': 'deg'}, 'flagbuildnone': False}"),
   ('record.platform_attitude.roll<', 'Factor', "{'factor': 1e-06, 'flagbuildnone': False}"),
   ('record.platform_attitude.roll<<',
    'FormatField',
    "{'length': 4, 'fmtstr': '>L', 'flagbuildnone': False}"),
   ('record.platform_attitude.yaw',
    'Metadata',
    "{'attrs': {'units': 'deg'}, 'flagbuildnone': False}"),
   ('record.platform_attitude.yaw<', 'Factor', "{'factor': 1e-06, 'flagbuildnone': False}"),
   ('record.platform_attitude.yaw<<',
    'FormatField',
    "{'length': 4, 'fmtstr': '>L', 'flagbuildnone': False}"),
   ('record.latitude_of_first_pixel',
    'Metadata',
    "{'attrs': {'units': 'deg'}, 'flagbuildnone': False}"),
   ('record.latitude_of_first_pixel<', 'Factor', "{'factor': 1e-06, 'flagbuildnone': False}"),
   ('record.latitude_of_first_pixel<<',
    'FormatField',
    "{'length': 4, 'fmtstr': '>L', 'flagbuildnone': False}"),
   ('record.latitude_of_center_pixel',
    'Metadata',
    "{'attrs': {'units': 'deg'}, 'flagbuildnone': False}"),
   ('record.latitude_of_center_pixel<', 'Factor', "{'factor': 1e-06, 'flagbuildnone': False}"),
   ('record.latitude_of_center_pixel<<',
    'FormatField',
    "{'length': 4, 'fmtstr': '>L', 'flagbuildnone': False}"),
   ('record.latitude_of_last_pixel',
    'Metadata',
    "{'attrs': {'units': 'deg'}, 'flagbuildnone': False}"),
   ('record.latitude_of_last_pixel<', 'Factor', "{'factor': 1e-06, 'flagbuildnone': False}"),
   ('record.latitude_of_last_pixel<<',
    'FormatField',
    "{'length': 4, 'fmtstr': '>L', 'flagbuildnone': False}"),
   ('record.longitude_of_first_pixel',
    'Metadata',
    "{'attrs': {'units': 'deg'}, 'flagbuildnone': False}"),
   ('record.longitude_of_first_pixel<', 'Factor', "{'factor': 1e-06, 'flagbuildnone': False}"),
   ('record.longitude_of_first_pixel<<',
    'FormatField',
    "{'length': 4, 'fmtstr': '>L', 'flagbuildnone': False}"),
   ('record.longitude_of_center_pixel',
    'Metadata',
    "{'attrs': {'units': 'deg'}, 'flagbuildnone': False}"),
   ('record.longitude_of_center_pixel<', 'Factor', "{'factor': 1e-06, 'flagbuildnone': False}"),
   ('record.longitude_of_center_pixel<<',
    'FormatField',
    "{'length': 4, 'fmtstr': '>L', 'flagbuildnone': False}"),
   ('record.longitude_of_last_pixel',
    'Metadata',
    "{'attrs': {'units': 'deg'}, 'flagbuildnone': False}"),
   ('record.longitude_of_last_pixel<', 'Factor', "{'factor': 1e-06, 'flagbuildnone': False}"),
   ('record.longitude_of_last_pixel<<',
    'FormatField',
    "{'length': 4, 'fmtstr': '>L', 'flagbuildnone': False}"),
   ('record.burst_number', 'FormatField', "{'length': 4, 'fmtstr': '>L', 'flagbuildnone': False}"),
   ('record.line_number_in_this_burst',
    'FormatField',
    "{'length': 4, 'fmtstr': '>L', 'flagbuildnone': False}"),
   ('record.blanks2', 'StripNullBytes', "{'flagbuildnone': False}"),
   ('record.blanks2<', 'Bytes', "{'length': 60, 'flagbuildnone': False}"),
   ('record.alos2_frame_number',
    'FormatField',
    "{'length': 4, 'fmtstr': '>L', 'flagbuildnone': False}"),
   ('record.palsar_auxiliary_data', 'StripNullBytes', "{'flagbuildnone': False}"),
   ('record.palsar_auxiliary_data<', 'Bytes', "{'length': 256, 'flagbuildnone': False}"),
   ('record.data', 'Struct', "{'flagbuildnone': True}"),
   ('record.data.start', 'Tell', "{'flagbuildnone': True}"),
   ('record.data.size',
    'Computed',
    '{\'flagbuildnone\': True, \'func\': "(this[\'_\'][\'preamble\'][\'record_length\'] - '
    '(this[\'start\'] - this[\'_\'][\'record_start\']))"}'),
   ('record.data.stop',
    'Seek',
    '{\'flagbuildnone\': True, \'at\': "(this[\'_\'][\'record_start\'] + '
    'this[\'_\'][\'preamble\'][\'record_length\'])"}')]),
 ('field names',
  ['record_start',
   'preamble',
   'sar_image_data_line_number',
   'sar_image_data_record_index',
   'actual_count_of_left_fill_pixels',
   'actual_count_of_data_pixels',
   'actual_count_of_right_fill_pixels',
   'sensor_parameters_update_flag',
   'sensor_acquisition_date',
   'sar_channel_id',
   'sar_channel_code',
   'transmitted_pulse_polarization',
   'received_pulse_polarization',
   'prf',
   'scan_id',
   'onboard_range_compressed_flag',
   'chirp_type_designator',
   'chirp_length',
   'chirp_constant_coefficient',
   'chirp_linear_coefficient',
   'chirp_quadratic_coefficient',
   'sensor_acquisition_date_microseconds',
   'receiver_gain',
   'invalid_line_flag',
   'elevation_angle_at_nadir_of_antenna',
   'antenna_squint_angle',
   'slant_range_to_first_data_sample',
   'data_record_window_position',
   'blanks1',
   'platform_position_parameters_update_flag',
   'platform_latitude',
   'platform_longitude',
   'platform_altitude',
   'platform_ground_speed',
   'platform_velocity',
   'platform_acceleration',
   'platform_track_angle',
   'platform_true_track_angle',
   'platform_attitude',
   'latitude_of_first_pixel',
   'latitude_of_center_pixel',
   'latitude_of_last_pixel',
   'longitude_of_first_pixel',
   'longitude_of_center_pixel',
   'longitude_of_last_pixel',
   'burst_number',
   'line_number_in_this_burst',
   'blanks2',
   'alos2_frame_number',
   'palsar_auxiliary_data',
   'data']),
 ('sizeof',
  'raised construct.core.SizeofError: Error in path (sizeof) -> data -> stop\n'
  'Seek only moves the stream, size is not meaningful'),
 ('module names',
  ['Bytes',
   'Computed',
   'DatetimeYdms',
   'DatetimeYdus',
   'Factor',
   'Flag',
   'Int32ub',
   'Int64ub',
   'Metadata',
   'Seek',
   'StripNullBytes',
   'Struct',
   'Tell',
   'signal_data_record',
   'chirp_type_designator',
   'platform_position_parameters_update',
   'pulse_polarization',
   'record_preamble',
   'sar_channel_code',
   'sar_channel_id',
   'this']),
 ('__all__', None),
 ('zeros',
  "dict {'record_start': 0, 'preamble': {'record_sequence_number': 1, 'first_record_subtype': 50, "
  "'record_type': 10, 'second_record_subtype': 18, 'third_record_subtype': 20, 'record_length': "
  "544}, 'sar_image_data_line_number': 0, 'sar_image_data_record_index': 0, "
  "'actual_count_of_left_fill_pixels': 0, 'actual_count_of_data_pixels': 0, "
  "'actual_count_of_right_fill_pixels': 0, 'sensor_parameters_update_flag': 0, "
  "'sensor_acquisition_date': datetime.datetime(1, 1, 1, 0, 0), 'sar_channel_id': "
  "'dual_polarization', 'sar_channel_code': 'S', 'transmitted_pulse_polarization': 'vertical', "
  "'received_pulse_polarization': 'horizontal', 'prf': (0, {'units': 'mHz'}), 'scan_id': 0, "
  "'onboard_range_compressed_flag': True, 'chirp_type_designator': 'phase_modulators', "
  "'chirp_length': (0, {'units': 'ns'}), 'chirp_constant_coefficient': (0, {'units': 'Hz'}), "
  "'chirp_linear_coefficient': (0, {'units': 'Hz/µs'}), 'chirp_quadratic_coefficient': (0, "
  "{'units': 'Hz/µs^2'}), 'sensor_acquisition_date_microseconds': datetime.datetime(1, 1, 1, 0, "
  "0), 'receiver_gain': (0, {'units': 'dB'}), 'invalid_line_flag': False, "
  "'elevation_angle_at_nadir_of_antenna': {'electronic': (0, {'units': 'deg'}), 'mechanic': (0, "
  "{'units': 'deg'})}, 'antenna_squint_angle': {'electronic': (0, {'units': 'deg'}), 'mechanic': "
  "(0, {'units': 'deg'})}, 'slant_range_to_first_data_sample': (0, {'units': 'm'}), "
  "'data_record_window_position': (0, {'units': 'ns'}), 'blanks1': 0, "
  "'platform_position_parameters_update_flag': 'update', 'platform_latitude': (0.0, {'units': "
  "'deg'}), 'platform_longitude': (0.0, {'units': 'deg'}), 'platform_altitude': (0, {'units': "
  "'deg'}), 'platform_ground_speed': (0, {'units': 'cm/s'}), 'platform_velocity': {'x': (0, "
  "{'units': 'cm/s'}), 'y': (0, {'units': 'cm/s'}), 'z': (0, {'units': 'cm/s'})}, "
  "'platform_acceleration': {'x': (0, {'units': 'cm/s^2'}), 'y': (0, {'units': 'cm/s^2'}), 'z': "
  "(0, {'units': 'cm/s^2'})}, 'platform_track_angle': (0.0, {'units': 'deg'}), "
  "'platform_true_track_angle': (0.0, {'units': 'deg'}), 'platform_attitude': {'pitch': (0.0, "
  "{'units': 'deg'}), 'roll': (0.0, {'units': 'deg'}), 'yaw': (0.0, {'units': 'deg'})}, "
  "'latitude_of_first_pixel': (0.0, {'units': 'deg'}), 'latitude_of_center_pixel': (0.0, {'units': "
  "'deg'}), 'latitude_of_last_pixel': (0.0, {'units': 'deg'}), 'longitude_of_first_pixel': (0.0, "
  "{'units': 'deg'}), 'longitude_of_center_pixel': (0.0, {'units': 'deg'}), "
  "'longitude_of_last_pixel': (0.0, {'units': 'deg'}), 'burst_number': 0, "
  "'line_number_in_this_burst': 0, 'blanks2': b'', 'alos2_frame_number': 0, "
  "'palsar_auxiliary_data': b'', 'data': {'start': 544, 'size': 0, 'stop': 544}}"),
 ('ones',
  "dict {'record_start': 0, 'preamble': {'record_sequence_number': 2, 'first_record_subtype': 50, "
  "'record_type': 10, 'second_record_subtype': 18, 'third_record_subtype': 20, 'record_length': "
  "800}, 'sar_image_data_line_number': 4294967295, 'sar_image_data_record_index': 4294967295, "
  "'actual_count_of_left_fill_pixels': 4294967295, 'actual_count_of_data_pixels': 4294967295, "
  "'actual_count_of_right_fill_pixels': 4294967295, 'sensor_parameters_update_flag': 4294967295, "
  "'sensor_acquisition_date': datetime.datetime(9999, 12, 31, 0, 0, 0, 1000), 'sar_channel_id': "
  "'full_polarization', 'sar_channel_code': 'C', 'transmitted_pulse_polarization': 2, "
  "'received_pulse_polarization': 'horizontal', 'prf': (4294967295, {'units': 'mHz'}), 'scan_id': "
  "4294967295, 'onboard_range_compressed_flag': False, 'chirp_type_designator': 2, 'chirp_length': "
  "(4294967295, {'units': 'ns'}), 'chirp_constant_coefficient': (4294967295, {'units': 'Hz'}), "
  "'chirp_linear_coefficient': (4294967295, {'units': 'Hz/µs'}), 'chirp_quadratic_coefficient': "
  "(4294967295, {'units': 'Hz/µs^2'}), 'sensor_acquisition_date_microseconds': "
  "datetime.datetime(9999, 12, 31, 23, 59, 59, 999999), 'receiver_gain': (4294967295, {'units': "
  "'dB'}), 'invalid_line_flag': True, 'elevation_angle_at_nadir_of_antenna': {'electronic': "
  "(4294967295, {'units': 'deg'}), 'mechanic': (4294967295, {'units': 'deg'})}, "
  "'antenna_squint_angle': {'electronic': (4294967295, {'units': 'deg'}), 'mechanic': (4294967295, "
  "{'units': 'deg'})}, 'slant_range_to_first_data_sample': (4294967295, {'units': 'm'}), "
  "'data_record_window_position': (4294967295, {'units': 'ns'}), 'blanks1': 4294967295, "
  "'platform_position_parameters_update_flag': 2, 'platform_latitude': (4294.9672949999995, "
  "{'units': 'deg'}), 'platform_longitude': (4294.9672949999995, {'units': 'deg'}), "
  "'platform_altitude': (4294967295, {'units': 'deg'}), 'platform_ground_speed': (4294967295, "
  "{'units': 'cm/s'}), 'platform_velocity': {'x': (4294967295, {'units': 'cm/s'}), 'y': "
  "(4294967295, {'units': 'cm/s'}), 'z': (4294967295, {'units': 'cm/s'})}, "
  "'platform_acceleration': {'x': (4294967295, {'units': 'cm/s^2'}), 'y': (4294967295, {'units': "
  "'cm/s^2'}), 'z': (4294967295, {'units': 'cm/s^2'})}, 'platform_track_angle': "
  "(4294.9672949999995, {'units': 'deg'}), 'platform_true_track_angle': (4294.9672949999995, "
  "{'units': 'deg'}), 'platform_attitude': {'pitch': (4294.9672949999995, {'units': 'deg'}), "
  "'roll': (4294.9672949999995, {'units': 'deg'}), 'yaw': (4294.9672949999995, {'units': 'deg'})}, "
  "'latitude_of_first_pixel': (4294.9672949999995, {'units': 'deg'}), 'latitude_of_center_pixel': "
  "(4294.9672949999995, {'units': 'deg'}), 'latitude_of_last_pixel': (4294.9672949999995, "
  "{'units': 'deg'}), 'longitude_of_first_pixel': (4294.9672949999995, {'units': 'deg'}), "
  "'longitude_of_center_pixel': (4294.9672949999995, {'units': 'deg'}), 'longitude_of_last_pixel': "
  "(4294.9672949999995, {'units': 'deg'}), 'burst_number': 4294967295, "
  "'line_number_in_this_burst': 4294967295, 'blanks2': "
  "b'\\xff\\xff\\xff\\xff\\xff\\xff\\xff\\xff\\xff\\xff\\xff\\xff\\xff\\xff\\xff\\xff\\xff\\xff\\xff\\xff\\xff\\xff\\xff\\xff\\xff\\xff\\xff\\xff\\xff\\xff\\xff\\xff\\xff\\xff\\xff\\xff\\xff\\xff\\xff\\xff\\xff\\xff\\xff\\xff\\xff\\xff\\xff\\xff\\xff\\xff\\xff\\xff\\xff\\xff\\xff\\xff\\xff\\xff\\xff\\xff', "
  "'alos2_frame_number': 4294967295, 'palsar_auxiliary_data': "
  "b'\\xff\\xff\\xff\\xff\\xff\\xff\\xff\\xff\\xff\\xff\\xff\\xff\\xff\\xff\\xff\\xff\\xff\\xff\\xff\\xff\\xff\\xff\\xff\\xff\\xff\\xff\\xff\\xff\\xff\\xff\\xff\\xff\\xff\\xff\\xff\\xff\\xff\\xff\\xff\\xff\\xff\\xff\\xff\\xff\\xff\\xff\\xff\\xff\\xff\\xff\\xff\\xff\\xff\\xff\\xff\\xff\\xff\\xff\\xff\\xff\\xff\\xff\\xff\\xff\\xff\\xff\\xff\\xff\\xff\\xff\\xff\\xff\\xff\\xff\\xff\\xff\\xff\\xff\\xff\\xff\\xff\\xff\\xff\\xff\\xff\\xff\\xff\\xff\\xff\\xff\\xff\\xff\\xff\\xff\\xff\\xff\\xff\\xff\\xff\\xff\\xff\\xff\\xff\\xff\\xff\\xff\\xff\\xff\\xff\\xff\\xff\\xff\\xff\\xff\\xff\\xff\\xff\\xff\\xff\\xff\\xff\\xff\\xff\\xff\\xff\\xff\\xff\\xff\\xff\\xff\\xff\\xff\\xff\\xff\\xff\\xff\\xff\\xff\\xff\\xff\\xff\\xff\\xff\\xff\\xff\\xff\\xff\\xff\\xff\\xff\\xff\\xff\\xff\\xff\\xff\\xff\\xff\\xff\\xff\\xff\\xff\\xff\\xff\\xff\\xff\\xff\\xff\\xff\\xff\\xff\\xff\\xff\\xff\\xff\\xff\\xff\\xff\\xff\\xff\\xff\\xff\\xff\\xff\\xff\\xff\\xff\\xff\\xff\\xff\\xff\\xff\\xff\\xff\\xff\\xff\\xff\\xff\\xff\\xff\\xff\\xff\\xff\\xff\\xff\\xff\\xff\\xff\\xff\\xff\\xff\\xff\\xff\\xff\\xff\\xff\\xff\\xff\\xff\\xff\\xff\\xff\\xff\\xff\\xff\\xff\\xff\\xff\\xff\\xff\\xff\\xff\\xff\\xff\\xff\\xff\\xff\\xff\\xff\\xff\\xff\\xff\\xff\\xff\\xff\\xff\\xff\\xff\\xff\\xff\\xff\\xff\\xff\\xff\\xff\\xff\\xff', "
  "'data': {'start': 544, 'size': 256, 'stop': 800}}"),
 ('random-1',
  "dict {'record_start': 0, 'preamble': {'record_sequence_number': 3, 'first_record_subtype': 50, "
  "'record_type': 10, 'second_record_subtype': 18, 'third_record_subtype': 20, 'record_length': "
  "1500}, 'sar_image_data_line_number': 2716609473, 'sar_image_data_record_index': 1399985363, "
  "'actual_count_of_left_fill_pixels': 551287619, 'actual_count_of_data_pixels': 489296818, "
  "'actual_count_of_right_fill_pixels': 2644758534, 'sensor_parameters_update_flag': 902489954, "
  "'sensor_acquisition_date': datetime.datetime(2015, 5, 3, 1, 16, 7, 890000), 'sar_channel_id': "
  "3, 'sar_channel_code': 'X', 'transmitted_pulse_polarization': 'horizontal', "
  "'received_pulse_polarization': 'vertical', 'prf': (2304876694, {'units': 'mHz'}), 'scan_id': "
  "4089239324, 'onboard_range_compressed_flag': True, 'chirp_type_designator': 'linear_fm_chirp', "
  "'chirp_length': (3248497924, {'units': 'ns'}), 'chirp_constant_coefficient': (233989230, "
  "{'units': 'Hz'}), 'chirp_linear_coefficient': (1277049069, {'units': 'Hz/µs'}), "
  "'chirp_quadratic_coefficient': (313022116, {'units': 'Hz/µs^2'}), "
  "'sensor_acquisition_date_microseconds': datetime.datetime(2015, 5, 3, 1, 16, 7, 890123), "
  "'receiver_gain': (426061378, {'units': 'dB'}), 'invalid_line_flag': True, "
  "'elevation_angle_at_nadir_of_antenna': {'electronic': (2590920942, {'units': 'deg'}), "
  "'mechanic': (2952915434, {'units': 'deg'})}, 'antenna_squint_angle': {'electronic': "
  "(1502590747, {'units': 'deg'}), 'mechanic': (714895012, {'units': 'deg'})}, "
  "'slant_range_to_first_data_sample': (4125754345, {'units': 'm'}), "
  "'data_record_window_position': (3498027406, {'units': 'ns'}), 'blanks1': 245290104, "
  "'platform_position_parameters_update_flag': 'repeat', 'platform_latitude': (1154.20644, "
  "{'units': 'deg'}), 'platform_longitude': (614.514038, {'units': 'deg'}), 'platform_altitude': "
  "(932218457, {'units': 'deg'}), 'platform_ground_speed': (287299508, {'units': 'cm/s'}), "
  "'platform_velocity': {'x': (2265949931, {'units': 'cm/s'}), 'y': (2892375714, {'units': "
  "'cm/s'}), 'z': (3563572158, {'units': 'cm/s'})}, 'platform_acceleration': {'x': (2476099938, "
  "{'units': 'cm/s^2'}), 'y': (3199768050, {'units': 'cm/s^2'}), 'z': (1758519827, {'units': "
  "'cm/s^2'})}, 'platform_track_angle': (3844.2528389999998, {'units': 'deg'}), "
  "'platform_true_track_angle': (3375.534292, {'units': 'deg'}), 'platform_attitude': {'pitch': "
  "(3921.975549, {'units': 'deg'}), 'roll': (1474.163399, {'units': 'deg'}), 'yaw': (1774.194964, "
  "{'units': 'deg'})}, 'latitude_of_first_pixel': (3018.95937, {'units': 'deg'}), "
  "'latitude_of_center_pixel': (120.95898799999999, {'units': 'deg'}), 'latitude_of_last_pixel': "
  "(2072.9916789999997, {'units': 'deg'}), 'longitude_of_first_pixel': (1648.562949, {'units': "
  "'deg'}), 'longitude_of_center_pixel': (1372.95258, {'units': 'deg'}), "
  "'longitude_of_last_pixel': (436.919071, {'units': 'deg'}), 'burst_number': 3554938875, "
  "'line_number_in_this_burst': 3484002426, 'blanks2': "
  'b\'\\xa2\\xdd[\\xc2!B\\x1a6_\\xde\\x1b{\\xb0\\xf4\\xd1s\\xa8\\x08\\xf1D\\x1c\\xdfnQ\\x1f{|?\\x05"\\x8f\\xf1bX[\\x8a\\x0b\\xdf\\xd5q\\x12\\xbd0G\\xce5\\xe0\\xf2\\xd0\\xcb\\x99\\x94\\xedDP\\x94:\\xa38\\x93\', '
  "'alos2_frame_number': 170706295, 'palsar_auxiliary_data': "
  "b'\\xf2c\\xacc\\xc4\\x0c\\xdf\\xbb\\x96,\\x94#\\xbb\\x06?\\x80\\xc7\\x1e\\x92\\xf5\\x8f9\\x83\\xe6&ZE\\xf7\\xe0\\xc5L\\rQ\\xfeLKN\\xc9:\\x15\\xea+I\\x0fyg\\xed\\x1e\\x8f\\x01\\xdbe\\x01\\xbe\\x05H\\xe1\\xa1\\xa1k\\x86\\xee#\\xb3\\x81)=C\\xa7\\x17\\xe5\\x7f\\r\\xbaN\\x0b\\x06X\\xec\\xcc\\'us\\xe5B\\xd3\\xd8\\xbamxN\\xef\\xfb\\xa7Ii\\x81\\xe4~K\\xd1\\xf4\\xdf\\xf9\\x01\\xd9\\xa2\\x17d\\xd9;\\x8a\\x8ex\\\\uTx\\xfb<\\xc9\\xdfK\\x83A\\xf0\\xc0/P/\\x0ec\\xcba*\\x83\\xc5\\x89G4\\x92\\xeb\\xd9X\\xc6\\x0b\\x95\\x156\\xadm\\xce\\xf4\\xd6\\x97(V\\xc9\\x86\\x05\\xf0\\n\\xef\\x8b\\x94^\\xc5\\x1dX\\xc8<`\\x8f\\x8c\\xc86\\xce.\\x1d\\xc5\\xe7s0p\\xf0]4\\xdc<2\\x9d\\xeb_v "
  '\\xc3.\\xeb\\xaf\\xc7\\xbc\\x97\\x80\\x9c]\\xbd\\x06$\\xa5\\xe1\\xf6\\x85i\\xc8C"\\xbct!\\xa0\\xf2+\\x04\\xe2\\x9fq\\xa0\\x0b\\x98\\x08\\xea\\x82\\xef\\xf6\\x15\\xe8\\xfb~\\x95#M$\\x1eU\\xba\\xad\\xa5\\xe5W\\x1c]tw\\xb5\\xba\\xe8\', '
  "'data': {'start': 544, 'size': 956, 'stop': 1500}}"),
 ('random-2',
  "dict {'record_start': 0, 'preamble': {'record_sequence_number': 4, 'first_record_subtype': 50, "
  "'record_type': 10, 'second_record_subtype': 18, 'third_record_subtype': 20, 'record_length': "
  "560}, 'sar_image_data_line_number': 876530117, 'sar_image_data_record_index': 1889343715, "
  "'actual_count_of_left_fill_pixels': 879254223, 'actual_count_of_data_pixels': 3836908220, "
  "'actual_count_of_right_fill_pixels': 634323998, 'sensor_parameters_update_flag': 3646108842, "
  "'sensor_acquisition_date': datetime.datetime(2015, 5, 3, 1, 16, 7, 890000), 'sar_channel_id': "
  "50877, 'sar_channel_code': 29508, 'transmitted_pulse_polarization': 56497, "
  "'received_pulse_polarization': 55274, 'prf': (4274344241, {'units': 'mHz'}), 'scan_id': "
  "3511428493, 'onboard_range_compressed_flag': True, 'chirp_type_designator': 55218, "
  "'chirp_length': (1447308437, {'units': 'ns'}), 'chirp_constant_coefficient': (2442995305, "
  "{'units': 'Hz'}), 'chirp_linear_coefficient': (2369325986, {'units': 'Hz/µs'}), "
  "'chirp_quadratic_coefficient': (749494261, {'units': 'Hz/µs^2'}), "
  "'sensor_acquisition_date_microseconds': datetime.datetime(2015, 5, 3, 1, 16, 7, 890123), "
  "'receiver_gain': (2375734859, {'units': 'dB'}), 'invalid_line_flag': True, "
  "'elevation_angle_at_nadir_of_antenna': {'electronic': (2521170216, {'units': 'deg'}), "
  "'mechanic': (3286875606, {'units': 'deg'})}, 'antenna_squint_angle': {'electronic': "
  "(3513746569, {'units': 'deg'}), 'mechanic': (2741820149, {'units': 'deg'})}, "
  "'slant_range_to_first_data_sample': (1555398927, {'units': 'm'}), "
  "'data_record_window_position': (1667006218, {'units': 'ns'}), 'blanks1': 1505236826, "
  "'platform_position_parameters_update_flag': 609930675, 'platform_latitude': (3860.29313, "
  "{'units': 'deg'}), 'platform_longitude': (100.98420999999999, {'units': 'deg'}), "
  "'platform_altitude': (628395711, {'units': 'deg'}), 'platform_ground_speed': (704439622, "
  "{'units': 'cm/s'}), 'platform_velocity': {'x': (896445977, {'units': 'cm/s'}), 'y': "
  "(2917199470, {'units': 'cm/s'}), 'z': (900065465, {'units': 'cm/s'})}, 'platform_acceleration': "
  "{'x': (2991661228, {'units': 'cm/s^2'}), 'y': (1203329853, {'units': 'cm/s^2'}), 'z': "
  "(1492163743, {'units': 'cm/s^2'})}, 'platform_track_angle': (2303.33831, {'units': 'deg'}), "
  "'platform_true_track_angle': (3210.44503, {'units': 'deg'}), 'platform_attitude': {'pitch': "
  "(502.81969999999995, {'units': 'deg'}), 'roll': (120.90909099999999, {'units': 'deg'}), 'yaw': "
  "(560.154983, {'units': 'deg'})}, 'latitude_of_first_pixel': (1343.816693, {'units': 'deg'}), "
  "'latitude_of_center_pixel': (3073.106111, {'units': 'deg'}), 'latitude_of_last_pixel': "
  "(3131.827195, {'units': 'deg'}), 'longitude_of_first_pixel': (4260.384797, {'units': 'deg'}), "
  "'longitude_of_center_pixel': (1703.6523109999998, {'units': 'deg'}), 'longitude_of_last_pixel': "
  "(357.677343, {'units': 'deg'}), 'burst_number': 1901558824, 'line_number_in_this_burst': "
  "502282854, 'blanks2': "
  "b'\\xfe\\xb1w\\x8d7l\\xf5\\x92,7\\xba\\xa8\\x81e\\tC\\x1b\\x8bf\\x18\\x1d{\\x96\\x19\\xebK\\x9b|)N\\xbb\\xb5\\xbc\\x18zv\\xc7~\\x9a\\xb5\\xae\\x93!\\xa5\\x15\\xabR\\xba\\xe1Z\\xb1\\xa85u\\x03du\\x0fK!', "
  "'alos2_frame_number': 1182584147, 'palsar_auxiliary_data': "
  'b"\\x8aP\\r\\xafg`\\xcf\'@\\xbe\\x18\\xf1\\xba\\xc0+\\x80\\xb7\\xfa\\x8c\\x89]>\\x00\\xff\\x0f\\xa2\\x8a\\x16rynBhX07\\x17\\x11\\x95\\xea\\xe2\\xba\\x9f\\x8en\\xa6\\x94\\x97\\x9di\\xf8\\xba\\x95\\xd8\\x8d\\xe9\\xb9\\x06YZ\\xaeG\\x9f\\x80V/\\xe3\\x10\\xd7\\x93\\xea\\xfd\\x94\\x86\\xb6{2\\\\\\x8d\\xfe\\x94\\xa9\\xf3:\\xddB\\xaa$t9\\xb8\\xef\\xfa\\xe5`\\x0fU\\xd7&8\\xa7\\xe4\\xcf_W!^\\xb7\\x06\\xe1\\x17\\xb4\\x9a\\xb9~\\x0b6{W\\xae>=\\xa7\\xd3VR\\xb1\\xeecN\\xf9\\xb1\\x88\\x06D\\x12)\\x8d\\x95D\\xea70\\xbb\\xb0\\x98\\x99+\\x9e\\x85\\x94\\x89\\x18\\x11&\\x08\\xc2\\x90\\x92\\x1c\\x81\\x96\\\\zx\\xf8I\\x14\\x0b\\xc8\\\\ '
  '\\xde]\\xd9\\x12\\xd6HD\\x9c\\x16^b\\xb4\\x02\\xb45\\x8d>\\x9d\\x03\\x9b\\xaf\\xaeP\\x92x\\xb9\\xdeg\\xfd\\xd4\\xb3M\\xe2R\\x12\\xb8\\x0c\\xc8\\x7f]\\x9e\\x08\\xbf.\\xfc(\\xd4a\\xca{\\x04j\\xed\\x95\\xd3\\xfb\\x88K\\x03\\n\\xff\\xb0\\x9a\\xca\\xf6\\x18\\xdb\\xafR\\x17Jm6\\x82\\xac\\xf9\\x06l\\x04\\x86g)\\x96\\x88", '
  "'data': {'start': 544, 'size': 16, 'stop': 560}}"),
 ('record_length', 0, 544, "dict {'start': 544, 'size': -544, 'stop': 0}"),
 ('record_length', 1, 544, "dict {'start': 544, 'size': -543, 'stop': 1}"),
 ('record_length', 12, 544, "dict {'start': 544, 'size': -532, 'stop': 12}"),
 ('record_length', 543, 544, "dict {'start': 544, 'size': -1, 'stop': 543}"),
 ('record_length', 544, 544, "dict {'start': 544, 'size': 0, 'stop': 544}"),
 ('record_length', 545, 545, "dict {'start': 544, 'size': 1, 'stop': 545}"),
 ('record_length', 900, 900, "dict {'start': 544, 'size': 356, 'stop': 900}"),
 ('record_length', 1000000, 1000, "dict {'start': 544, 'size': 999456, 'stop': 1000000}"),
 ('record_length', 4294967295, 1000, "dict {'start': 544, 'size': 4294966751, 'stop': 4294967295}"),
 ('bad date', (0, 1, 0), 'raised builtins.ValueError: year 0 is out of range'),
 ('bad date', (10000, 1, 0), 'raised builtins.ValueError: year 10000 is out of range'),
 ('bad date',
  (2015, 4294967295, 0),
  'raised builtins.OverflowError: Python int too large to convert to C int'),
 ('bad date', (0, 4294967295, 5), 'raised builtins.ValueError: year 0 is out of range'),
 ('bad date', None, 'raised builtins.OverflowError: signed integer is greater than maximum'),
 ('microseconds', 0, (2015, 123, 5), 'datetime datetime.datetime(2015, 5, 3, 0, 0)'),
 ('microseconds', 0, (9999, 365, 5), 'datetime datetime.datetime(9999, 12, 31, 0, 0)'),
 ('microseconds', 0, (0, 1, 0), 'raised builtins.ValueError: year 0 is out of range'),
 ('microseconds', 1, (2015, 123, 5), 'datetime datetime.datetime(2015, 5, 3, 0, 0, 0, 1)'),
 ('microseconds', 1, (9999, 365, 5), 'datetime datetime.datetime(9999, 12, 31, 0, 0, 0, 1)'),
 ('microseconds', 1, (0, 1, 0), 'raised builtins.ValueError: year 0 is out of range'),
 ('microseconds', 86400000000, (2015, 123, 5), 'datetime datetime.datetime(2015, 5, 4, 0, 0)'),
 ('microseconds',
  86400000000,
  (9999, 365, 5),
  'raised builtins.OverflowError: date value out of range'),
 ('microseconds', 86400000000, (0, 1, 0), 'raised builtins.ValueError: year 0 is out of range'),
 ('microseconds',
  1099511627776,
  (2015, 123, 5),
  'datetime datetime.datetime(2015, 5, 15, 17, 25, 11, 627776)'),
 ('microseconds',
  1099511627776,
  (9999, 365, 5),
  'raised builtins.OverflowError: date value out of range'),
 ('microseconds', 1099511627776, (0, 1, 0), 'raised builtins.ValueError: year 0 is out of range'),
 ('microseconds',
  9223372036854775808,
  (2015, 123, 5),
  'raised builtins.OverflowError: date value out of range'),
 ('microseconds',
  9223372036854775808,
  (9999, 365, 5),
  'raised builtins.OverflowError: date value out of range'),
 ('microseconds',
  9223372036854775808,
  (0, 1, 0),
  'raised builtins.ValueError: year 0 is out of range'),
 ('microseconds',
  18446744073709551615,
  (2015, 123, 5),
  'raised builtins.OverflowError: date value out of range'),
 ('microseconds',
  18446744073709551615,
  (9999, 365, 5),
  'raised builtins.OverflowError: date value out of range'),
 ('microseconds',
  18446744073709551615,
  (0, 1, 0),
  'raised builtins.ValueError: year 0 is out of range'),
 ('microseconds', None, (2015, 123, 5), 'raised builtins.OverflowError: date value out of range'),
 ('microseconds', None, (9999, 365, 5), 'raised builtins.OverflowError: date value out of range'),
 ('microseconds', None, (0, 1, 0), 'raised builtins.ValueError: year 0 is out of range'),
 ('truncated',
  0,
  'raised construct.core.StreamError: Error in path (parsing) -> preamble -> '
  'record_sequence_number\n'
  'stream read less than specified amount, expected 4, found 0'),
 ('truncated',
  1,
  'raised construct.core.StreamError: Error in path (parsing) -> preamble -> '
  'record_sequence_number\n'
  'stream read less than specified amount, expected 4, found 1'),
 ('truncated',
  2,
  'raised construct.core.StreamError: Error in path (parsing) -> preamble -> '
  'record_sequence_number\n'
  'stream read less than specified amount, expected 4, found 2'),
 ('truncated',
  3,
  'raised construct.core.StreamError: Error in path (parsing) -> preamble -> '
  'record_sequence_number\n'
  'stream read less than specified amount, expected 4, found 3'),
 ('truncated',
  4,
  'raised construct.core.StreamError: Error in path (parsing) -> preamble -> first_record_subtype\n'
  'stream read less than specified amount, expected 1, found 0'),
 ('truncated',
  5,
  'raised construct.core.StreamError: Error in path (parsing) -> preamble -> record_type\n'
  'stream read less than specified amount, expected 1, found 0'),
 ('truncated',
  6,
  'raised construct.core.StreamError: Error in path (parsing) -> preamble -> '
  'second_record_subtype\n'
  'stream read less than specified amount, expected 1, found 0'),
 ('truncated',
  7,
  'raised construct.core.StreamError: Error in path (parsing) -> preamble -> third_record_subtype\n'
  'stream read less than specified amount, expected 1, found 0'),
 ('truncated',
  8,
  'raised construct.core.StreamError: Error in path (parsing) -> preamble -> record_length\n'
  'stream read less than specified amount, expected 4, found 0'),
 ('truncated',
  9,
  'raised construct.core.StreamError: Error in path (parsing) -> preamble -> record_length\n'
  'stream read less than specified amount, expected 4, found 1'),
 ('truncated',
  10,
  'raised construct.core.StreamError: Error in path (parsing) -> preamble -> record_length\n'
  'stream read less than specified amount, expected 4, found 2'),
 ('truncated',
  11,
  'raised construct.core.StreamError: Error in path (parsing) -> preamble -> record_length\n'
  'stream read less than specified amount, expected 4, found 3'),
 ('truncated',
  12,
  'raised construct.core.StreamError: Error in path (parsing) -> sar_image_data_line_number\n'
  'stream read less than specified amount, expected 4, found 0'),
 ('truncated',
  13,
  'raised construct.core.StreamError: Error in path (parsing) -> sar_image_data_line_number\n'
  'stream read less than specified amount, expected 4, found 1'),
 ('truncated',
  14,
  'raised construct.core.StreamError: Error in path (parsing) -> sar_image_data_line_number\n'
  'stream read less than specified amount, expected 4, found 2'),
 ('truncated',
  15,
  'raised construct.core.StreamError: Error in path (parsing) -> sar_image_data_line_number\n'
  'stream read less than specified amount, expected 4, found 3'),
 ('truncated',
  16,
  'raised construct.core.StreamError: Error in path (parsing) -> sar_image_data_record_index\n'
  'stream read less than specified amount, expected 4, found 0'),
 ('truncated',
  17,
  'raised construct.core.StreamError: Error in path (parsing) -> sar_image_data_record_index\n'
  'stream read less than specified amount, expected 4, found 1'),
 ('truncated',
  18,
  'raised construct.core.StreamError: Error in path (parsing) -> sar_image_data_record_index\n'
  'stream read less than specified amount, expected 4, found 2'),
 ('truncated',
  19,
  'raised construct.core.StreamError: Error in path (parsing) -> sar_image_data_record_index\n'
  'stream read less than specified amount, expected 4, found 3'),
 ('truncated',
  20,
  'raised construct.core.StreamError: Error in path (parsing) -> actual_count_of_left_fill_pixels\n'
  'stream read less than specified amount, expected 4, found 0'),
 ('truncated',
  21,
  'raised construct.core.StreamError: Error in path (parsing) -> actual_count_of_left_fill_pixels\n'
  'stream read less than specified amount, expected 4, found 1'),
 ('truncated',
  22,
  'raised construct.core.StreamError: Error in path (parsing) -> actual_count_of_left_fill_pixels\n'
  'stream read less than specified amount, expected 4, found 2'),
 ('truncated',
  23,
  'raised construct.core.StreamError: Error in path (parsing) -> actual_count_of_left_fill_pixels\n'
  'stream read less than specified amount, expected 4, found 3'),
 ('truncated',
  24,
  'raised construct.core.StreamError: Error in path (parsing) -> actual_count_of_data_pixels\n'
  'stream read less than specified amount, expected 4, found 0'),
 ('truncated',
  25,
  'raised construct.core.StreamError: Error in path (parsing) -> actual_count_of_data_pixels\n'
  'stream read less than specified amount, expected 4, found 1'),
 ('truncated',
  26,
  'raised construct.core.StreamError: Error in path (parsing) -> actual_count_of_data_pixels\n'
  'stream read less than specified amount, expected 4, found 2'),
 ('truncated',
  27,
  'raised construct.core.StreamError: Error in path (parsing) -> actual_count_of_data_pixels\n'
  'stream read less than specified amount, expected 4, found 3'),
 ('truncated',
  28,
  'raised construct.core.StreamError: Error in path (parsing) -> '
  'actual_count_of_right_fill_pixels\n'
  'stream read less than specified amount, expected 4, found 0'),
 ('truncated',
  29,
  'raised construct.core.StreamError: Error in path (parsing) -> '
  'actual_count_of_right_fill_pixels\n'
  'stream read less than specified amount, expected 4, found 1'),
 ('truncated',
  30,
  'raised construct.core.StreamError: Error in path (parsing) -> '
  'actual_count_of_right_fill_pixels\n'
  'stream read less than specified amount, expected 4, found 2'),
 ('truncated',
  31,
  'raised construct.core.StreamError: Error in path (parsing) -> '
  'actual_count_of_right_fill_pixels\n'
  'stream read less than specified amount, expected 4, found 3'),
 ('truncated',
  32,
  'raised construct.core.StreamError: Error in path (parsing) -> sensor_parameters_update_flag\n'
  'stream read less than specified amount, expected 4, found 0'),
 ('truncated',
  33,
  'raised construct.core.StreamError: Error in path (parsing) -> sensor_parameters_update_flag\n'
  'stream read less than specified amount, expected 4, found 1'),
 ('truncated',
  34,
  'raised construct.core.StreamError: Error in path (parsing) -> sensor_parameters_update_flag\n'
  'stream read less than specified amount, expected 4, found 2'),
 ('truncated',
  35,
  'raised construct.core.StreamError: Error in path (parsing) -> sensor_parameters_update_flag\n'
  'stream read less than specified amount, expected 4, found 3'),
 ('truncated',
  36,
  'raised construct.core.StreamError: Error in path (parsing) -> sensor_acquisition_date -> year\n'
  'stream read less than specified amount, expected 4, found 0'),
 ('truncated',
  37,
  'raised construct.core.StreamError: Error in path (parsing) -> sensor_acquisition_date -> year\n'
  'stream read less than specified amount, expected 4, found 1'),
 ('truncated',
  38,
  'raised construct.core.StreamError: Error in path (parsing) -> sensor_acquisition_date -> year\n'
  'stream read less than specified amount, expected 4, found 2'),
 ('truncated',
  39,
  'raised construct.core.StreamError: Error in path (parsing) -> sensor_acquisition_date -> year\n'
  'stream read less than specified amount, expected 4, found 3'),
 ('truncated',
  40,
  'raised construct.core.StreamError: Error in path (parsing) -> sensor_acquisition_date -> '
  'day_of_year\n'
  'stream read less than specified amount, expected 4, found 0'),
 ('truncated',
  41,
  'raised construct.core.StreamError: Error in path (parsing) -> sensor_acquisition_date -> '
  'day_of_year\n'
  'stream read less than specified amount, expected 4, found 1'),
 ('truncated',
  42,
  'raised construct.core.StreamError: Error in path (parsing) -> sensor_acquisition_date -> '
  'day_of_year\n'
  'stream read less than specified amount, expected 4, found 2'),
 ('truncated',
  43,
  'raised construct.core.StreamError: Error in path (parsing) -> sensor_acquisition_date -> '
  'day_of_year\n'
  'stream read less than specified amount, expected 4, found 3'),
 ('truncated',
  44,
  'raised construct.core.StreamError: Error in path (parsing) -> sensor_acquisition_date -> '
  'milliseconds\n'
  'stream read less than specified amount, expected 4, found 0'),
 ('truncated',
  45,
  'raised construct.core.StreamError: Error in path (parsing) -> sensor_acquisition_date -> '
  'milliseconds\n'
  'stream read less than specified amount, expected 4, found 1'),
 ('truncated',
  46,
  'raised construct.core.StreamError: Error in path (parsing) -> sensor_acquisition_date -> '
  'milliseconds\n'
  'stream read less than specified amount, expected 4, found 2'),
 ('truncated',
  47,
  'raised construct.core.StreamError: Error in path (parsing) -> sensor_acquisition_date -> '
  'milliseconds\n'
  'stream read less than specified amount, expected 4, found 3'),
 ('truncated',
  48,
  'raised construct.core.StreamError: Error in path (parsing) -> sar_channel_id\n'
  'stream read less than specified amount, expected 2, found 0'),
 ('truncated',
  49,
  'raised construct.core.StreamError: Error in path (parsing) -> sar_channel_id\n'
  'stream read less than specified amount, expected 2, found 1'),
 ('truncated',
  50,
  'raised construct.core.StreamError: Error in path (parsing) -> sar_channel_code\n'
  'stream read less than specified amount, expected 2, found 0'),
 ('truncated',
  51,
  'raised construct.core.StreamError: Error in path (parsing) -> sar_channel_code\n'
  'stream read less than specified amount, expected 2, found 1'),
 ('truncated',
  52,
  'raised construct.core.StreamError: Error in path (parsing) -> transmitted_pulse_polarization\n'
  'stream read less than specified amount, expected 2, found 0'),
 ('truncated',
  53,
  'raised construct.core.StreamError: Error in path (parsing) -> transmitted_pulse_polarization\n'
  'stream read less than specified amount, expected 2, found 1'),
 ('truncated',
  54,
  'raised construct.core.StreamError: Error in path (parsing) -> received_pulse_polarization\n'
  'stream read less than specified amount, expected 2, found 0'),
 ('truncated',
  55,
  'raised construct.core.StreamError: Error in path (parsing) -> received_pulse_polarization\n'
  'stream read less than specified amount, expected 2, found 1'),
 ('truncated',
  56,
  'raised construct.core.StreamError: Error in path (parsing) -> prf\n'
  'stream read less than specified amount, expected 4, found 0'),
 ('truncated',
  57,
  'raised construct.core.StreamError: Error in path (parsing) -> prf\n'
  'stream read less than specified amount, expected 4, found 1'),
 ('truncated',
  58,
  'raised construct.core.StreamError: Error in path (parsing) -> prf\n'
  'stream read less than specified amount, expected 4, found 2'),
 ('truncated',
  59,
  'raised construct.core.StreamError: Error in path (parsing) -> prf\n'
  'stream read less than specified amount, expected 4, found 3'),
 ('truncated',
  60,
  'raised construct.core.StreamError: Error in path (parsing) -> scan_id\n'
  'stream read less than specified amount, expected 4, found 0'),
 ('truncated',
  61,
  'raised construct.core.StreamError: Error in path (parsing) -> scan_id\n'
  'stream read less than specified amount, expected 4, found 1'),
 ('truncated',
  62,
  'raised construct.core.StreamError: Error in path (parsing) -> scan_id\n'
  'stream read less than specified amount, expected 4, found 2'),
 ('truncated',
  63,
  'raised construct.core.StreamError: Error in path (parsing) -> scan_id\n'
  'stream read less than specified amount, expected 4, found 3'),
 ('truncated',
  64,
  'raised construct.core.StreamError: Error in path (parsing) -> onboard_range_compressed_flag\n'
  'stream read less than specified amount, expected 2, found 0'),
 ('truncated',
  65,
  'raised construct.core.StreamError: Error in path (parsing) -> onboard_range_compressed_flag\n'
  'stream read less than specified amount, expected 2, found 1'),
 ('truncated',
  66,
  'raised construct.core.StreamError: Error in path (parsing) -> chirp_type_designator\n'
  'stream read less than specified amount, expected 2, found 0'),
 ('truncated',
  67,
  'raised construct.core.StreamError: Error in path (parsing) -> chirp_type_designator\n'
  'stream read less than specified amount, expected 2, found 1'),
 ('truncated',
  68,
  'raised construct.core.StreamError: Error in path (parsing) -> chirp_length\n'
  'stream read less than specified amount, expected 4, found 0'),
 ('truncated',
  69,
  'raised construct.core.StreamError: Error in path (parsing) -> chirp_length\n'
  'stream read less than specified amount, expected 4, found 1'),
 ('truncated',
  70,
  'raised construct.core.StreamError: Error in path (parsing) -> chirp_length\n'
  'stream read less than specified amount, expected 4, found 2'),
 ('truncated',
  71,
  'raised construct.core.StreamError: Error in path (parsing) -> chirp_length\n'
  'stream read less than specified amount, expected 4, found 3'),
 ('truncated',
  72,
  'raised construct.core.StreamError: Error in path (parsing) -> chirp_constant_coefficient\n'
  'stream read less than specified amount, expected 4, found 0'),
 ('truncated',
  73,
  'raised construct.core.StreamError: Error in path (parsing) -> chirp_constant_coefficient\n'
  'stream read less than specified amount, expected 4, found 1'),
 ('truncated',
  74,
  'raised construct.core.StreamError: Error in path (parsing) -> chirp_constant_coefficient\n'
  'stream read less than specified amount, expected 4, found 2'),
 ('truncated',
  75,
  'raised construct.core.StreamError: Error in path (parsing) -> chirp_constant_coefficient\n'
  'stream read less than specified amount, expected 4, found 3'),
 ('truncated',
  76,
  'raised construct.core.StreamError: Error in path (parsing) -> chirp_linear_coefficient\n'
  'stream read less than specified amount, expected 4, found 0'),
 ('truncated',
  77,
  'raised construct.core.StreamError: Error in path (parsing) -> chirp_linear_coefficient\n'
  'stream read less than specified amount, expected 4, found 1'),
 ('truncated',
  78,
  'raised construct.core.StreamError: Error in path (parsing) -> chirp_linear_coefficient\n'
  'stream read less than specified amount, expected 4, found 2'),
 ('truncated',
  79,
  'raised construct.core.StreamError: Error in path (parsing) -> chirp_linear_coefficient\n'
  'stream read less than specified amount, expected 4, found 3'),
 ('truncated',
  80,
  'raised construct.core.StreamError: Error in path (parsing) -> chirp_quadratic_coefficient\n'
  'stream read less than specified amount, expected 4, found 0'),
 ('truncated',
  81,
  'raised construct.core.StreamError: Error in path (parsing) -> chirp_quadratic_coefficient\n'
  'stream read less than specified amount, expected 4, found 1'),
 ('truncated',
  82,
  'raised construct.core.StreamError: Error in path (parsing) -> chirp_quadratic_coefficient\n'
  'stream read less than specified amount, expected 4, found 2'),
 ('truncated',
  83,
  'raised construct.core.StreamError: Error in path (parsing) -> chirp_quadratic_coefficient\n'
  'stream read less than specified amount, expected 4, found 3'),
 ('truncated',
  84,
  'raised construct.core.StreamError: Error in path (parsing) -> '
  'sensor_acquisition_date_microseconds\n'
  'stream read less than specified amount, expected 8, found 0'),
 ('truncated',
  85,
  'raised construct.core.StreamError: Error in path (parsing) -> '
  'sensor_acquisition_date_microseconds\n'
  'stream read less than specified amount, expected 8, found 1'),
 ('truncated',
  86,
  'raised construct.core.StreamError: Error in path (parsing) -> '
  'sensor_acquisition_date_microseconds\n'
  'stream read less than specified amount, expected 8, found 2'),
 ('truncated',
  87,
  'raised construct.core.StreamError: Error in path (parsing) -> '
  'sensor_acquisition_date_microseconds\n'
  'stream read less than specified amount, expected 8, found 3'),
 ('truncated',
  88,
  'raised construct.core.StreamError: Error in path (parsing) -> '
  'sensor_acquisition_date_microseconds\n'
  'stream read less than specified amount, expected 8, found 4'),
 ('truncated',
  89,
  'raised construct.core.StreamError: Error in path (parsing) -> '
  'sensor_acquisition_date_microseconds\n'
  'stream read less than specified amount, expected 8, found 5'),
 ('truncated',
  90,
  'raised construct.core.StreamError: Error in path (parsing) -> '
  'sensor_acquisition_date_microseconds\n'
  'stream read less than specified amount, expected 8, found 6'),
 ('truncated',
  91,
  'raised construct.core.StreamError: Error in path (parsing) -> '
  'sensor_acquisition_date_microseconds\n'
  'stream read less than specified amount, expected 8, found 7'),
 ('truncated',
  92,
  'raised construct.core.StreamError: Error in path (parsing) -> receiver_gain\n'
  'stream read less than specified amount, expected 4, found 0'),
 ('truncated',
  93,
  'raised construct.core.StreamError: Error in path (parsing) -> receiver_gain\n'
  'stream read less than specified amount, expected 4, found 1'),
 ('truncated',
  94,
  'raised construct.core.StreamError: Error in path (parsing) -> receiver_gain\n'
  'stream read less than specified amount, expected 4, found 2'),
 ('truncated',
  95,
  'raised construct.core.StreamError: Error in path (parsing) -> receiver_gain\n'
  'stream read less than specified amount, expected 4, found 3'),
 ('truncated',
  96,
  'raised construct.core.StreamError: Error in path (parsing) -> invalid_line_flag\n'
  'stream read less than specified amount, expected 4, found 0'),
 ('truncated',
  97,
  'raised construct.core.StreamError: Error in path (parsing) -> invalid_line_flag\n'
  'stream read less than specified amount, expected 4, found 1'),
 ('truncated',
  98,
  'raised construct.core.StreamError: Error in path (parsing) -> invalid_line_flag\n'
  'stream read less than specified amount, expected 4, found 2'),
 ('truncated',
  99,
  'raised construct.core.StreamError: Error in path (parsing) -> invalid_line_flag\n'
  'stream read less than specified amount, expected 4, found 3'),
 ('truncated',
  100,
  'raised construct.core.StreamError: Error in path (parsing) -> '
  'elevation_angle_at_nadir_of_antenna -> electronic\n'
  'stream read less than specified amount, expected 4, found 0'),
 ('truncated',
  101,
  'raised construct.core.StreamError: Error in path (parsing) -> '
  'elevation_angle_at_nadir_of_antenna -> electronic\n'
  'stream read less than specified amount, expected 4, found 1'),
 ('truncated',
  102,
  'raised construct.core.StreamError: Error in path (parsing) -> '
  'elevation_angle_at_nadir_of_antenna -> electronic\n'
  'stream read less than specified amount, expected 4, found 2'),
 ('truncated',
  103,
  'raised construct.core.StreamError: Error in path (parsing) -> '
  'elevation_angle_at_nadir_of_antenna -> electronic\n'
  'stream read less than specified amount, expected 4, found 3'),
 ('truncated',
  104,
  'raised construct.core.StreamError: Error in path (parsing) -> '
  'elevation_angle_at_nadir_of_antenna -> mechanic\n'
  'stream read less than specified amount, expected 4, found 0'),
 ('truncated',
  105,
  'raised construct.core.StreamError: Error in path (parsing) -> '
  'elevation_angle_at_nadir_of_antenna -> mechanic\n'
  'stream read less than specified amount, expected 4, found 1'),
 ('truncated',
  106,
  'raised construct.core.StreamError: Error in path (parsing) -> '
  'elevation_angle_at_nadir_of_antenna -> mechanic\n'
  'stream read less than specified amount, expected 4, found 2'),
 ('truncated',
  107,
  'raised construct.core.StreamError: Error in path (parsing) -> '
  'elevation_angle_at_nadir_of_antenna -> mechanic\n'
  'stream read less than specified amount, expected 4, found 3'),
 ('truncated',
  108,
  'raised construct.core.StreamError: Error in path (parsing) -> antenna_squint_angle -> '
  'electronic\n'
  'stream read less than specified amount, expected 4, found 0'),
 ('truncated',
  109,
  'raised construct.core.StreamError: Error in path (parsing) -> antenna_squint_angle -> '
  'electronic\n'
  'stream read less than specified amount, expected 4, found 1'),
 ('truncated',
  110,
  'raised construct.core.StreamError: Error in path (parsing) -> antenna_squint_angle -> '
  'electronic\n'
  'stream read less than specified amount, expected 4, found 2'),
 ('truncated',
  111,
  'raised construct.core.StreamError: Error in path (parsing) -> antenna_squint_angle -> '
  'electronic\n'
  'stream read less than specified amount, expected 4, found 3'),
 ('truncated',
  112,
  'raised construct.core.StreamError: Error in path (parsing) -> antenna_squint_angle -> mechanic\n'
  'stream read less than specified amount, expected 4, found 0'),
 ('truncated',
  113,
  'raised construct.core.StreamError: Error in path (parsing) -> antenna_squint_angle -> mechanic\n'
  'stream read less than specified amount, expected 4, found 1'),
 ('truncated',
  114,
  'raised construct.core.StreamError: Error in path (parsing) -> antenna_squint_angle -> mechanic\n'
  'stream read less than specified amount, expected 4, found 2'),
 ('truncated',
  115,
  'raised construct.core.StreamError: Error in path (parsing) -> antenna_squint_angle -> mechanic\n'
  'stream read less than specified amount, expected 4, found 3'),
 ('truncated',
  116,
  'raised construct.core.StreamError: Error in path (parsing) -> slant_range_to_first_data_sample\n'
  'stream read less than specified amount, expected 4, found 0'),
 ('truncated',
  117,
  'raised construct.core.StreamError: Error in path (parsing) -> slant_range_to_first_data_sample\n'
  'stream read less than specified amount, expected 4, found 1'),
 ('truncated',
  118,
  'raised construct.core.StreamError: Error in path (parsing) -> slant_range_to_first_data_sample\n'
  'stream read less than specified amount, expected 4, found 2'),
 ('truncated',
  119,
  'raised construct.core.StreamError: Error in path (parsing) -> slant_range_to_first_data_sample\n'
  'stream read less than specified amount, expected 4, found 3'),
 ('truncated',
  120,
  'raised construct.core.StreamError: Error in path (parsing) -> data_record_window_position\n'
  'stream read less than specified amount, expected 4, found 0'),
 ('truncated',
  121,
  'raised construct.core.StreamError: Error in path (parsing) -> data_record_window_position\n'
  'stream read less than specified amount, expected 4, found 1'),
 ('truncated',
  122,
  'raised construct.core.StreamError: Error in path (parsing) -> data_record_window_position\n'
  'stream read less than specified amount, expected 4, found 2'),
 ('truncated',
  123,
  'raised construct.core.StreamError: Error in path (parsing) -> data_record_window_position\n'
  'stream read less than specified amount, expected 4, found 3'),
 ('truncated',
  124,
  'raised construct.core.StreamError: Error in path (parsing) -> blanks1\n'
  'stream read less than specified amount, expected 4, found 0'),
 ('truncated',
  125,
  'raised construct.core.StreamError: Error in path (parsing) -> blanks1\n'
  'stream read less than specified amount, expected 4, found 1'),
 ('truncated',
  126,
  'raised construct.core.StreamError: Error in path (parsing) -> blanks1\n'
  'stream read less than specified amount, expected 4, found 2'),
 ('truncated',
  127,
  'raised construct.core.StreamError: Error in path (parsing) -> blanks1\n'
  'stream read less than specified amount, expected 4, found 3'),
 ('truncated',
  128,
  'raised construct.core.StreamError: Error in path (parsing) -> '
  'platform_position_parameters_update_flag\n'
  'stream read less than specified amount, expected 4, found 0'),
 ('truncated',
  129,
  'raised construct.core.StreamError: Error in path (parsing) -> '
  'platform_position_parameters_update_flag\n'
  'stream read less than specified amount, expected 4, found 1'),
 ('truncated',
  130,
  'raised construct.core.StreamError: Error in path (parsing) -> '
  'platform_position_parameters_update_flag\n'
  'stream read less than specified amount, expected 4, found 2'),
 ('truncated',
  131,
  'raised construct.core.StreamError: Error in path (parsing) -> '
  'platform_position_parameters_update_flag\n'
  'stream read less than specified amount, expected 4, found 3'),
 ('truncated',
  132,
  'raised construct.core.StreamError: Error in path (parsing) -> platform_latitude\n'
  'stream read less than specified amount, expected 4, found 0'),
 ('truncated',
  133,
  'raised construct.core.StreamError: Error in path (parsing) -> platform_latitude\n'
  'stream read less than specified amount, expected 4, found 1'),
 ('truncated',
  134,
  'raised construct.core.StreamError: Error in path (parsing) -> platform_latitude\n'
  'stream read less than specified amount, expected 4, found 2'),
 ('truncated',
  135,
  'raised construct.core.StreamError: Error in path (parsing) -> platform_latitude\n'
  'stream read less than specified amount, expected 4, found 3'),
 ('truncated',
  136,
  'raised construct.core.StreamError: Error in path (parsing) -> platform_longitude\n'
  'stream read less than specified amount, expected 4, found 0'),
 ('truncated',
  137,
  'raised construct.core.StreamError: Error in path (parsing) -> platform_longitude\n'
  'stream read less than specified amount, expected 4, found 1'),
 ('truncated',
  138,
  'raised construct.core.StreamError: Error in path (parsing) -> platform_longitude\n'
  'stream read less than specified amount, expected 4, found 2'),
 ('truncated',
  139,
  'raised construct.core.StreamError: Error in path (parsing) -> platform_longitude\n'
  'stream read less than specified amount, expected 4, found 3'),
 ('truncated',
  140,
  'raised construct.core.StreamError: Error in path (parsing) -> platform_altitude\n'
  'stream read less than specified amount, expected 4, found 0'),
 ('truncated',
  141,
  'raised construct.core.StreamError: Error in path (parsing) -> platform_altitude\n'
  'stream read less than specified amount, expected 4, found 1'),
 ('truncated',
  142,
  'raised construct.core.StreamError: Error in path (parsing) -> platform_altitude\n'
  'stream read less than specified amount, expected 4, found 2'),
 ('truncated',
  143,
  'raised construct.core.StreamError: Error in path (parsing) -> platform_altitude\n'
  'stream read less than specified amount, expected 4, found 3'),
 ('truncated',
  144,
  'raised construct.core.StreamError: Error in path (parsing) -> platform_ground_speed\n'
  'stream read less than specified amount, expected 4, found 0'),
 ('truncated',
  145,
  'raised construct.core.StreamError: Error in path (parsing) -> platform_ground_speed\n'
  'stream read less than specified amount, expected 4, found 1'),
 ('truncated',
  146,
  'raised construct.core.StreamError: Error in path (parsing) -> platform_ground_speed\n'
  'stream read less than specified amount, expected 4, found 2'),
 ('truncated',
  147,
  'raised construct.core.StreamError: Error in path (parsing) -> platform_ground_speed\n'
  'stream read less than specified amount, expected 4, found 3'),
 ('truncated',
  148,
  'raised construct.core.StreamError: Error in path (parsing) -> platform_velocity -> x\n'
  'stream read less than specified amount, expected 4, found 0'),
 ('truncated',
  149,
  'raised construct.core.StreamError: Error in path (parsing) -> platform_velocity -> x\n'
  'stream read less than specified amount, expected 4, found 1'),
 ('truncated',
  150,
  'raised construct.core.StreamError: Error in path (parsing) -> platform_velocity -> x\n'
  'stream read less than specified amount, expected 4, found 2'),
 ('truncated',
  151,
  'raised construct.core.StreamError: Error in path (parsing) -> platform_velocity -> x\n'
  'stream read less than specified amount, expected 4, found 3'),
 ('truncated',
  152,
  'raised construct.core.StreamError: Error in path (parsing) -> platform_velocity -> y\n'
  'stream read less than specified amount, expected 4, found 0'),
 ('truncated',
  153,
  'raised construct.core.StreamError: Error in path (parsing) -> platform_velocity -> y\n'
  'stream read less than specified amount, expected 4, found 1'),
 ('truncated',
  154,
  'raised construct.core.StreamError: Error in path (parsing) -> platform_velocity -> y\n'
  'stream read less than specified amount, expected 4, found 2'),
 ('truncated',
  155,
  'raised construct.core.StreamError: Error in path (parsing) -> platform_velocity -> y\n'
  'stream read less than specified amount, expected 4, found 3'),
 ('truncated',
  156,
  'raised construct.core.StreamError: Error in path (parsing) -> platform_velocity -> z\n'
  'stream read less than specified amount, expected 4, found 0'),
 ('truncated',
  157,
  'raised construct.core.StreamError: Error in path (parsing) -> platform_velocity -> z\n'
  'stream read less than specified amount, expected 4, found 1'),
 ('truncated',
  158,
  'raised construct.core.StreamError: Error in path (parsing) -> platform_velocity -> z\n'
  'stream read less than specified amount, expected 4, found 2'),
 ('truncated',
  159,
  'raised construct.core.StreamError: Error in path (parsing) -> platform_velocity -> z\n'
  'stream read less than specified amount, expected 4, found 3'),
 ('truncated',
  160,
  'raised construct.core.StreamError: Error in path (parsing) -> platform_acceleration -> x\n'
  'stream read less than specified amount, expected 4, found 0'),
 ('truncated',
  161,
  'raised construct.core.StreamError: Error in path (parsing) -> platform_acceleration -> x\n'
  'stream read less than specified amount, expected 4, found 1'),
 ('truncated',
  162,
  'raised construct.core.StreamError: Error in path (parsing) -> platform_acceleration -> x\n'
  'stream read less than specified amount, expected 4, found 2'),
 ('truncated',
  163,
  'raised construct.core.StreamError: Error in path (parsing) -> platform_acceleration -> x\n'
  'stream read less than specified amount, expected 4, found 3'),
 ('truncated',
  164,
  'raised construct.core.StreamError: Error in path (parsing) -> platform_acceleration -> y\n'
  'stream read less than specified amount, expected 4, found 0'),
 ('truncated',
  165,
  'raised construct.core.StreamError: Error in path (parsing) -> platform_acceleration -> y\n'
  'stream read less than specified amount, expected 4, found 1'),
 ('truncated',
  166,
  'raised construct.core.StreamError: Error in path (parsing) -> platform_acceleration -> y\n'
  'stream read less than specified amount, expected 4, found 2'),
 ('truncated',
  167,
  'raised construct.core.StreamError: Error in path (parsing) -> platform_acceleration -> y\n'
  'stream read less than specified amount, expected 4, found 3'),
 ('truncated',
  168,
  'raised construct.core.StreamError: Error in path (parsing) -> platform_acceleration -> z\n'
  'stream read less than specified amount, expected 4, found 0'),
 ('truncated',
  169,
  'raised construct.core.StreamError: Error in path (parsing) -> platform_acceleration -> z\n'
  'stream read less than specified amount, expected 4, found 1'),
 ('truncated',
  170,
  'raised construct.core.StreamError: Error in path (parsing) -> platform_acceleration -> z\n'
  'stream read less than specified amount, expected 4, found 2'),
 ('truncated',
  171,
  'raised construct.core.StreamError: Error in path (parsing) -> platform_acceleration -> z\n'
  'stream read less than specified amount, expected 4, found 3'),
 ('truncated',
  172,
  'raised construct.core.StreamError: Error in path (parsing) -> platform_track_angle\n'
  'stream read less than specified amount, expected 4, found 0'),
 ('truncated',
  173,
  'raised construct.core.StreamError: Error in path (parsing) -> platform_track_angle\n'
  'stream read less than specified amount, expected 4, found 1'),
 ('truncated',
  174,
  'raised construct.core.StreamError: Error in path (parsing) -> platform_track_angle\n'
  'stream read less than specified amount, expected 4, found 2'),
 ('truncated',
  175,
  'raised construct.core.StreamError: Error in path (parsing) -> platform_track_angle\n'
  'stream read less than specified amount, expected 4, found 3'),
 ('truncated',
  176,
  'raised construct.core.StreamError: Error in path (parsing) -> platform_true_track_angle\n'
  'stream read less than specified amount, expected 4, found 0'),
 ('truncated',
  177,
  'raised construct.core.StreamError: Error in path (parsing) -> platform_true_track_angle\n'
  'stream read less than specified amount, expected 4, found 1'),
 ('truncated',
  178,
  'raised construct.core.StreamError: Error in path (parsing) -> platform_true_track_angle\n'
  'stream read less than specified amount, expected 4, found 2'),
 ('truncated',
  179,
  'raised construct.core.StreamError: Error in path (parsing) -> platform_true_track_angle\n'
  'stream read less than specified amount, expected 4, found 3'),
 ('truncated',
  180,
  'raised construct.core.StreamError: Error in path (parsing) -> platform_attitude -> pitch\n'
  'stream read less than specified amount, expected 4, found 0'),
 ('truncated',
  181,
  'raised construct.core.StreamError: Error in path (parsing) -> platform_attitude -> pitch\n'
  'stream read less than specified amount, expected 4, found 1'),
 ('truncated',
  182,
  'raised construct.core.StreamError: Error in path (parsing) -> platform_attitude -> pitch\n'
  'stream read less than specified amount, expected 4, found 2'),
 ('truncated',
  183,
  'raised construct.core.StreamError: Error in path (parsing) -> platform_attitude -> pitch\n'
  'stream read less than specified amount, expected 4, found 3'),
 ('truncated',
  184,
  'raised construct.core.StreamError: Error in path (parsing) -> platform_attitude -> roll\n'
  'stream read less than specified amount, expected 4, found 0'),
 ('truncated',
  185,
  'raised construct.core.StreamError: Error in path (parsing) -> platform_attitude -> roll\n'
  'stream read less than specified amount, expected 4, found 1'),
 ('truncated',
  186,
  'raised construct.core.StreamError: Error in path (parsing) -> platform_attitude -> roll\n'
  'stream read less than specified amount, expected 4, found 2'),
 ('truncated',
  187,
  'raised construct.core.StreamError: Error in path (parsing) -> platform_attitude -> roll\n'
  'stream read less than specified amount, expected 4, found 3'),
 ('truncated',
  188,
  'raised construct.core.StreamError: Error in path (parsing) -> platform_attitude -> yaw\n'
  'stream read less than specified amount, expected 4, found 0'),
 ('truncated',
  189,
  'raised construct.core.StreamError: Error in path (parsing) -> platform_attitude -> yaw\n'
  'stream read less than specified amount, expected 4, found 1'),
 ('truncated',
  190,
  'raised construct.core.StreamError: Error in path (parsing) -> platform_attitude -> yaw\n'
  'stream read less than specified amount, expected 4, found 2'),
 ('truncated',
  191,
  'raised construct.core.StreamError: Error in path (parsing) -> platform_attitude -> yaw\n'
  'stream read less than specified amount, expected 4, found 3'),
 ('truncated',
  192,
  'raised construct.core.StreamError: Error in path (parsing) -> latitude_of_first_pixel\n'
  'stream read less than specified amount, expected 4, found 0'),
 ('truncated',
  193,
  'raised construct.core.StreamError: Error in path (parsing) -> latitude_of_first_pixel\n'
  'stream read less than specified amount, expected 4, found 1'),
 ('truncated',
  194,
  'raised construct.core.StreamError: Error in path (parsing) -> latitude_of_first_pixel\n'
  'stream read less than specified amount, expected 4, found 2'),
 ('truncated',
  195,
  'raised construct.core.StreamError: Error in path (parsing) -> latitude_of_first_pixel\n'
  'stream read less than specified amount, expected 4, found 3'),
 ('truncated',
  196,
  'raised construct.core.StreamError: Error in path (parsing) -> latitude_of_center_pixel\n'
  'stream read less than specified amount, expected 4, found 0'),
 ('truncated',
  197,
  'raised construct.core.StreamError: Error in path (parsing) -> latitude_of_center_pixel\n'
  'stream read less than specified amount, expected 4, found 1'),
 ('truncated',
  198,
  'raised construct.core.StreamError: Error in path (parsing) -> latitude_of_center_pixel\n'
  'stream read less than specified amount, expected 4, found 2'),
 ('truncated',
  199,
  'raised construct.core.StreamError: Error in path (parsing) -> latitude_of_center_pixel\n'
  'stream read less than specified amount, expected 4, found 3'),
 ('truncated',
  200,
  'raised construct.core.StreamError: Error in path (parsing) -> latitude_of_last_pixel\n'
  'stream read less than specified amount, expected 4, found 0'),
 ('truncated',
  201,
  'raised construct.core.StreamError: Error in path (parsing) -> latitude_of_last_pixel\n'
  'stream read less than specified amount, expected 4, found 1'),
 ('truncated',
  202,
  'raised construct.core.StreamError: Error in path (parsing) -> latitude_of_last_pixel\n'
  'stream read less than specified amount, expected 4, found 2'),
 ('truncated',
  203,
  'raised construct.core.StreamError: Error in path (parsing) -> latitude_of_last_pixel\n'
  'stream read less than specified amount, expected 4, found 3'),
 ('truncated',
  204,
  'raised construct.core.StreamError: Error in path (parsing) -> longitude_of_first_pixel\n'
  'stream read less than specified amount, expected 4, found 0'),
 ('truncated',
  205,
  'raised construct.core.StreamError: Error in path (parsing) -> longitude_of_first_pixel\n'
  'stream read less than specified amount, expected 4, found 1'),
 ('truncated',
  206,
  'raised construct.core.StreamError: Error in path (parsing) -> longitude_of_first_pixel\n'
  'stream read less than specified amount, expected 4, found 2'),
 ('truncated',
  207,
  'raised construct.core.StreamError: Error in path (parsing) -> longitude_of_first_pixel\n'
  'stream read less than specified amount, expected 4, found 3'),
 ('truncated',
  208,
  'raised construct.core.StreamError: Error in path (parsing) -> longitude_of_center_pixel\n'
  'stream read less than specified amount, expected 4, found 0'),
 ('truncated',
  209,
  'raised construct.core.StreamError: Error in path (parsing) -> longitude_of_center_pixel\n'
  'stream read less than specified amount, expected 4, found 1'),
 ('truncated',
  210,
  'raised construct.core.StreamError: Error in path (parsing) -> longitude_of_center_pixel\n'
  'stream read less than specified amount, expected 4, found 2'),
 ('truncated',
  211,
  'raised construct.core.StreamError: Error in path (parsing) -> longitude_of_center_pixel\n'
  'stream read less than specified amount, expected 4, found 3'),
 ('truncated',
  212,
  'raised construct.core.StreamError: Error in path (parsing) -> longitude_of_last_pixel\n'
  'stream read less than specified amount, expected 4, found 0'),
 ('truncated',
  213,
  'raised construct.core.StreamError: Error in path (parsing) -> longitude_of_last_pixel\n'
  'stream read less than specified amount, expected 4, found 1'),
 ('truncated',
  214,
  'raised construct.core.StreamError: Error in path (parsing) -> longitude_of_last_pixel\n'
  'stream read less than specified amount, expected 4, found 2'),
 ('truncated',
  215,
  'raised construct.core.StreamError: Error in path (parsing) -> longitude_of_last_pixel\n'
  'stream read less than specified amount, expected 4, found 3'),
 ('truncated',
  216,
  'raised construct.core.StreamError: Error in path (parsing) -> burst_number\n'
  'stream read less than specified amount, expected 4, found 0'),
 ('truncated',
  217,
  'raised construct.core.StreamError: Error in path (parsing) -> burst_number\n'
  'stream read less than specified amount, expected 4, found 1'),
 ('truncated',
  218,
  'raised construct.core.StreamError: Error in path (parsing) -> burst_number\n'
  'stream read less than specified amount, expected 4, found 2'),
 ('truncated',
  219,
  'raised construct.core.StreamError: Error in path (parsing) -> burst_number\n'
  'stream read less than specified amount, expected 4, found 3'),
 ('truncated',
  220,
  'raised construct.core.StreamError: Error in path (parsing) -> line_number_in_this_burst\n'
  'stream read less than specified amount, expected 4, found 0'),
 ('truncated',
  221,
  'raised construct.core.StreamError: Error in path (parsing) -> line_number_in_this_burst\n'
  'stream read less than specified amount, expected 4, found 1'),
 ('truncated',
  222,
  'raised construct.core.StreamError: Error in path (parsing) -> line_number_in_this_burst\n'
  'stream read less than specified amount, expected 4, found 2'),
 ('truncated',
  223,
  'raised construct.core.StreamError: Error in path (parsing) -> line_number_in_this_burst\n'
  'stream read less than specified amount, expected 4, found 3'),
 ('truncated',
  224,
  'raised construct.core.StreamError: Error in path (parsing) -> blanks2\n'
  'stream read less than specified amount, expected 60, found 0'),
 ('truncated',
  225,
  'raised construct.core.StreamError: Error in path (parsing) -> blanks2\n'
  'stream read less than specified amount, expected 60, found 1'),
 ('truncated',
  226,
  'raised construct.core.StreamError: Error in path (parsing) -> blanks2\n'
  'stream read less than specified amount, expected 60, found 2'),
 ('truncated',
  227,
  'raised construct.core.StreamError: Error in path (parsing) -> blanks2\n'
  'stream read less than specified amount, expected 60, found 3'),
 ('truncated',
  228,
  'raised construct.core.StreamError: Error in path (parsing) -> blanks2\n'
  'stream read less than specified amount, expected 60, found 4'),
 ('truncated',
  229,
  'raised construct.core.StreamError: Error in path (parsing) -> blanks2\n'
  'stream read less than specified amount, expected 60, found 5'),
 ('truncated',
  230,
  'raised construct.core.StreamError: Error in path (parsing) -> blanks2\n'
  'stream read less than specified amount, expected 60, found 6'),
 ('truncated',
  231,
  'raised construct.core.StreamError: Error in path (parsing) -> blanks2\n'
  'stream read less than specified amount, expected 60, found 7'),
 ('truncated',
  232,
  'raised construct.core.StreamError: Error in path (parsing) -> blanks2\n'
  'stream read less than specified amount, expected 60, found 8'),
 ('truncated',
  233,
  'raised construct.core.StreamError: Error in path (parsing) -> blanks2\n'
  'stream read less than specified amount, expected 60, found 9'),
 ('truncated',
  234,
  'raised construct.core.StreamError: Error in path (parsing) -> blanks2\n'
  'stream read less than specified amount, expected 60, found 10'),
 ('truncated',
  235,
  'raised construct.core.StreamError: Error in path (parsing) -> blanks2\n'
  'stream read less than specified amount, expected 60, found 11'),
 ('truncated',
  236,
  'raised construct.core.StreamError: Error in path (parsing) -> blanks2\n'
  'stream read less than specified amount, expected 60, found 12'),
 ('truncated',
  237,
  'raised construct.core.StreamError: Error in path (parsing) -> blanks2\n'
  'stream read less than specified amount, expected 60, found 13'),
 ('truncated',
  238,
  'raised construct.core.StreamError: Error in path (parsing) -> blanks2\n'
  'stream read less than specified amount, expected 60, found 14'),
 ('truncated',
  239,
  'raised construct.core.StreamError: Error in path (parsing) -> blanks2\n'
  'stream read less than specified amount, expected 60, found 15'),
 ('truncated',
  240,
  'raised construct.core.StreamError: Error in path (parsing) -> blanks2\n'
  'stream read less than specified amount, expected 60, found 16'),
 ('truncated',
  241,
  'raised construct.core.StreamError: Error in path (parsing) -> blanks2\n'
  'stream read less than specified amount, expected 60, found 17'),
 ('truncated',
  242,
  'raised construct.core.StreamError: Error in path (parsing) -> blanks2\n'
  'stream read less than specified amount, expected 60, found 18'),
 ('truncated',
  243,
  'raised construct.core.StreamError: Error in path (parsing) -> blanks2\n'
  'stream read less than specified amount, expected 60, found 19'),
 ('truncated',
  244,
  'raised construct.core.StreamError: Error in path (parsing) -> blanks2\n'
  'stream read less than specified amount, expected 60, found 20'),
 ('truncated',
  245,
  'raised construct.core.StreamError: Error in path (parsing) -> blanks2\n'
  'stream read less than specified amount, expected 60, found 21'),
 ('truncated',
  246,
  'raised construct.core.StreamError: Error in path (parsing) -> blanks2\n'
  'stream read less than specified amount, expected 60, found 22'),
 ('truncated',
  247,
  'raised construct.core.StreamError: Error in path (parsing) -> blanks2\n'
  'stream read less than specified amount, expected 60, found 23'),
 ('truncated',
  248,
  'raised construct.core.StreamError: Error in path (parsing) -> blanks2\n'
  'stream read less than specified amount, expected 60, found 24'),
 ('truncated',
  249,
  'raised construct.core.StreamError: Error in path (parsing) -> blanks2\n'
  'stream read less than specified amount, expected 60, found 25'),
 ('truncated',
  250,
  'raised construct.core.StreamError: Error in path (parsing) -> blanks2\n'
  'stream read less than specified amount, expected 60, found 26'),
 ('truncated',
  251,
  'raised construct.core.StreamError: Error in path (parsing) -> blanks2\n'
  'stream read less than specified amount, expected 60, found 27'),
 ('truncated',
  252,
  'raised construct.core.StreamError: Error in path (parsing) -> blanks2\n'
  'stream read less than specified amount, expected 60, found 28'),
 ('truncated',
  253,
  'raised construct.core.StreamError: Error in path (parsing) -> blanks2\n'
  'stream read less than specified amount, expected 60, found 29'),
 ('truncated',
  254,
  'raised construct.core.StreamError: Error in path (parsing) -> blanks2\n'
  'stream read less than specified amount, expected 60, found 30'),
 ('truncated',
  255,
  'raised construct.core.StreamError: Error in path (parsing) -> blanks2\n'
  'stream read less than specified amount, expected 60, found 31'),
 ('truncated',
  256,
  'raised construct.core.StreamError: Error in path (parsing) -> blanks2\n'
  'stream read less than specified amount, expected 60, found 32'),
 ('truncated',
  257,
  'raised construct.core.StreamError: Error in path (parsing) -> blanks2\n'
  'stream read less than specified amount, expected 60, found 33'),
 ('truncated',
  258,
  'raised construct.core.StreamError: Error in path (parsing) -> blanks2\n'
  'stream read less than specified amount, expected 60, found 34'),
 ('truncated',
  259,
  'raised construct.core.StreamError: Error in path (parsing) -> blanks2\n'
  'stream read less than specified amount, expected 60, found 35'),
 ('truncated',
  260,
  'raised construct.core.StreamError: Error in path (parsing) -> blanks2\n'
  'stream read less than specified amount, expected 60, found 36'),
 ('truncated',
  261,
  'raised construct.core.StreamError: Error in path (parsing) -> blanks2\n'
  'stream read less than specified amount, expected 60, found 37'),
 ('truncated',
  262,
  'raised construct.core.StreamError: Error in path (parsing) -> blanks2\n'
  'stream read less than specified amount, expected 60, found 38'),
 ('truncated',
  263,
  'raised construct.core.StreamError: Error in path (parsing) -> blanks2\n'
  'stream read less than specified amount, expected 60, found 39'),
 ('truncated',
  264,
  'raised construct.core.StreamError: Error in path (parsing) -> blanks2\n'
  'stream read less than specified amount, expected 60, found 40'),
 ('truncated',
  265,
  'raised construct.core.StreamError: Error in path (parsing) -> blanks2\n'
  'stream read less than specified amount, expected 60, found 41'),
 ('truncated',
  266,
  'raised construct.core.StreamError: Error in path (parsing) -> blanks2\n'
  'stream read less than specified amount, expected 60, found 42'),
 ('truncated',
  267,
  'raised construct.core.StreamError: Error in path (parsing) -> blanks2\n'
  'stream read less than specified amount, expected 60, found 43'),
 ('truncated',
  268,
  'raised construct.core.StreamError: Error in path (parsing) -> blanks2\n'
  'stream read less than specified amount, expected 60, found 44'),
 ('truncated',
  269,
  'raised construct.core.StreamError: Error in path (parsing) -> blanks2\n'
  'stream read less than specified amount, expected 60, found 45'),
 ('truncated',
  270,
  'raised construct.core.StreamError: Error in path (parsing) -> blanks2\n'
  'stream read less than specified amount, expected 60, found 46'),
 ('truncated',
  271,
  'raised construct.core.StreamError: Error in path (parsing) -> blanks2\n'
  'stream read less than specified amount, expected 60, found 47'),
 ('truncated',
  272,
  'raised construct.core.StreamError: Error in path (parsing) -> blanks2\n'
  'stream read less than specified amount, expected 60, found 48'),
 ('truncated',
  273,
  'raised construct.core.StreamError: Error in path (parsing) -> blanks2\n'
  'stream read less than specified amount, expected 60, found 49'),
 ('truncated',
  274,
  'raised construct.core.StreamError: Error in path (parsing) -> blanks2\n'
  'stream read less than specified amount, expected 60, found 50'),
 ('truncated',
  275,
  'raised construct.core.StreamError: Error in path (parsing) -> blanks2\n'
  'stream read less than specified amount, expected 60, found 51'),
 ('truncated',
  276,
  'raised construct.core.StreamError: Error in path (parsing) -> blanks2\n'
  'stream read less than specified amount, expected 60, found 52'),
 ('truncated',
  277,
  'raised construct.core.StreamError: Error in path (parsing) -> blanks2\n'
  'stream read less than specified amount, expected 60, found 53'),
 ('truncated',
  278,
  'raised construct.core.StreamError: Error in path (parsing) -> blanks2\n'
  'stream read less than specified amount, expected 60, found 54'),
 ('truncated',
  279,
  'raised construct.core.StreamError: Error in path (parsing) -> blanks2\n'
  'stream read less than specified amount, expected 60, found 55'),
 ('truncated',
  280,
  'raised construct.core.StreamError: Error in path (parsing) -> blanks2\n'
  'stream read less than specified amount, expected 60, found 56'),
 ('truncated',
  281,
  'raised construct.core.StreamError: Error in path (parsing) -> blanks2\n'
  'stream read less than specified amount, expected 60, found 57'),
 ('truncated',
  282,
  'raised construct.core.StreamError: Error in path (parsing) -> blanks2\n'
  'stream read less than specified amount, expected 60, found 58'),
 ('truncated',
  283,
  'raised construct.core.StreamError: Error in path (parsing) -> blanks2\n'
  'stream read less than specified amount, expected 60, found 59'),
 ('truncated',
  284,
  'raised construct.core.StreamError: Error in path (parsing) -> alos2_frame_number\n'
  'stream read less than specified amount, expected 4, found 0'),
 ('truncated',
  285,
  'raised construct.core.StreamError: Error in path (parsing) -> alos2_frame_number\n'
  'stream read less than specified amount, expected 4, found 1'),
 ('truncated',
  286,
  'raised construct.core.StreamError: Error in path (parsing) -> alos2_frame_number\n'
  'stream read less than specified amount, expected 4, found 2'),
 ('truncated',
  287,
  'raised construct.core.StreamError: Error in path (parsing) -> alos2_frame_number\n'
  'stream read less than specified amount, expected 4, found 3'),
 ('truncated',
  288,
  'raised construct.core.StreamError: Error in path (parsing) -> palsar_auxiliary_data\n'
  'stream read less than specified amount, expected 256, found 0'),
 ('truncated',
  289,
  'raised construct.core.StreamError: Error in path (parsing) -> palsar_auxiliary_data\n'
  'stream read less than specified amount, expected 256, found 1'),
 ('truncated',
  290,
  'raised construct.core.StreamError: Error in path (parsing) -> palsar_auxiliary_data\n'
  'stream read less than specified amount, expected 256, found 2'),
 ('truncated',
  291,
  'raised construct.core.StreamError: Error in path (parsing) -> palsar_auxiliary_data\n'
  'stream read less than specified amount, expected 256, found 3'),
 ('truncated',
  292,
  'raised construct.core.StreamError: Error in path (parsing) -> palsar_auxiliary_data\n'
  'stream read less than specified amount, expected 256, found 4'),
 ('truncated',
  293,
  'raised construct.core.StreamError: Error in path (parsing) -> palsar_auxiliary_data\n'
  'stream read less than specified amount, expected 256, found 5'),
 ('truncated',
  294,
  'raised construct.core.StreamError: Error in path (parsing) -> palsar_auxiliary_data\n'
  'stream read less than specified amount, expected 256, found 6'),
 ('truncated',
  295,
  'raised construct.core.StreamError: Error in path (parsing) -> palsar_auxiliary_data\n'
  'stream read less than specified amount, expected 256, found 7'),
 ('truncated',
  296,
  'raised construct.core.StreamError: Error in path (parsing) -> palsar_auxiliary_data\n'
  'stream read less than specified amount, expected 256, found 8'),
 ('truncated',
  297,
  'raised construct.core.StreamError: Error in path (parsing) -> palsar_auxiliary_data\n'
  'stream read less than specified amount, expected 256, found 9'),
 ('truncated',
  298,
  'raised construct.core.StreamError: Error in path (parsing) -> palsar_auxiliary_data\n'
  'stream read less than specified amount, expected 256, found 10'),
 ('truncated',
  299,
  'raised construct.core.StreamError: Error in path (parsing) -> palsar_auxiliary_data\n'
  'stream read less than specified amount, expected 256, found 11'),
 ('truncated',
  300,
  'raised construct.core.StreamError: Error in path (parsing) -> palsar_auxiliary_data\n'
  'stream read less than specified amount, expected 256, found 12'),
 ('truncated',
  301,
  'raised construct.core.StreamError: Error in path (parsing) -> palsar_auxiliary_data\n'
  'stream read less than specified amount, expected 256, found 13'),
 ('truncated',
  302,
  'raised construct.core.StreamError: Error in path (parsing) -> palsar_auxiliary_data\n'
  'stream read less than specified amount, expected 256, found 14'),
 ('truncated',
  303,
  'raised construct.core.StreamError: Error in path (parsing) -> palsar_auxiliary_data\n'
  'stream read less than specified amount, expected 256, found 15'),
 ('truncated',
  304,
  'raised construct.core.StreamError: Error in path (parsing) -> palsar_auxiliary_data\n'
  'stream read less than specified amount, expected 256, found 16'),
 ('truncated',
  305,
  'raised construct.core.StreamError: Error in path (parsing) -> palsar_auxiliary_data\n'
  'stream read less than specified amount, expected 256, found 17'),
 ('truncated',
  306,
  'raised construct.core.StreamError: Error in path (parsing) -> palsar_auxiliary_data\n'
  'stream read less than specified amount, expected 256, found 18'),
 ('truncated',
  307,
  'raised construct.core.StreamError: Error in path (parsing) -> palsar_auxiliary_data\n'
  'stream read less than specified amount, expected 256, found 19'),
 ('truncated',
  308,
  'raised construct.core.StreamError: Error in path (parsing) -> palsar_auxiliary_data\n'
  'stream read less than specified amount, expected 256, found 20'),
 ('truncated',
  309,
  'raised construct.core.StreamError: Error in path (parsing) -> palsar_auxiliary_data\n'
  'stream read less than specified amount, expected 256, found 21'),
 ('truncated',
  310,
  'raised construct.core.StreamError: Error in path (parsing) -> palsar_auxiliary_data\n'
  'stream read less than specified amount, expected 256, found 22'),
 ('truncated',
  311,
  'raised construct.core.StreamError: Error in path (parsing) -> palsar_auxiliary_data\n'
  'stream read less than specified amount, expected 256, found 23'),
 ('truncated',
  312,
  'raised construct.core.StreamError: Error in path (parsing) -> palsar_auxiliary_data\n'
  'stream read less than specified amount, expected 256, found 24'),
 ('truncated',
  313,
  'raised construct.core.StreamError: Error in path (parsing) -> palsar_auxiliary_data\n'
  'stream read less than specified amount, expected 256, found 25'),
 ('truncated',
  314,
  'raised construct.core.StreamError: Error in path (parsing) -> palsar_auxiliary_data\n'
  'stream read less than specified amount, expected 256, found 26'),
 ('truncated',
  315,
  'raised construct.core.StreamError: Error in path (parsing) -> palsar_auxiliary_data\n'
  'stream read less than specified amount, expected 256, found 27'),
 ('truncated',
  316,
  'raised construct.core.StreamError: Error in path (parsing) -> palsar_auxiliary_data\n'
  'stream read less than specified amount, expected 256, found 28'),
 ('truncated',
  317,
  'raised construct.core.StreamError: Error in path (parsing) -> palsar_auxiliary_data\n'
  'stream read less than specified amount, expected 256, found 29'),
 ('truncated',
  318,
  'raised construct.core.StreamError: Error in path (parsing) -> palsar_auxiliary_data\n'
  'stream read less than specified amount, expected 256, found 30'),
 ('truncated',
  319,
  'raised construct.core.StreamError: Error in path (parsing) -> palsar_auxiliary_data\n'
  'stream read less than specified amount, expected 256, found 31'),
 ('truncated',
  320,
  'raised construct.core.StreamError: Error in path (parsing) -> palsar_auxiliary_data\n'
  'stream read less than specified amount, expected 256, found 32'),
 ('truncated',
  321,
  'raised construct.core.StreamError: Error in path (parsing) -> palsar_auxiliary_data\n'
  'stream read less than specified amount, expected 256, found 33'),
 ('truncated',
  322,
  'raised construct.core.StreamError: Error in path (parsing) -> palsar_auxiliary_data\n'
  'stream read less than specified amount, expected 256, found 34'),
 ('truncated',
  323,
  'raised construct.core.StreamError: Error in path (parsing) -> palsar_auxiliary_data\n'
  'stream read less than specified amount, expected 256, found 35'),
 ('truncated',
  324,
  'raised construct.core.StreamError: Error in path (parsing) -> palsar_auxiliary_data\n'
  'stream read less than specified amount, expected 256, found 36'),
 ('truncated',
  325,
  'raised construct.core.StreamError: Error in path (parsing) -> palsar_auxiliary_data\n'
  'stream read less than specified amount, expected 256, found 37'),
 ('truncated',
  326,
  'raised construct.core.StreamError: Error in path (parsing) -> palsar_auxiliary_data\n'
  'stream read less than specified amount, expected 256, found 38'),
 ('truncated',
  327,
  'raised construct.core.StreamError: Error in path (parsing) -> palsar_auxiliary_data\n'
  'stream read less than specified amount, expected 256, found 39'),
 ('truncated',
  328,
  'raised construct.core.StreamError: Error in path (parsing) -> palsar_auxiliary_data\n'
  'stream read less than specified amount, expected 256, found 40'),
 ('truncated',
  329,
  'raised construct.core.StreamError: Error in path (parsing) -> palsar_auxiliary_data\n'
  'stream read less than specified amount, expected 256, found 41'),
 ('truncated',
  330,
  'raised construct.core.StreamError: Error in path (parsing) -> palsar_auxiliary_data\n'
  'stream read less than specified amount, expected 256, found 42'),
 ('truncated',
  331,
  'raised construct.core.StreamError: Error in path (parsing) -> palsar_auxiliary_data\n'
  'stream read less than specified amount, expected 256, found 43'),
 ('truncated',
  332,
  'raised construct.core.StreamError: Error in path (parsing) -> palsar_auxiliary_data\n'
  'stream read less than specified amount, expected 256, found 44'),
 ('truncated',
  333,
  'raised construct.core.StreamError: Error in path (parsing) -> palsar_auxiliary_data\n'
  'stream read less than specified amount, expected 256, found 45'),
 ('truncated',
  334,
  'raised construct.core.StreamError: Error in path (parsing) -> palsar_auxiliary_data\n'
  'stream read less than specified amount, expected 256, found 46'),
 ('truncated',
  335,
  'raised construct.core.StreamError: Error in path (parsing) -> palsar_auxiliary_data\n'
  'stream read less than specified amount, expected 256, found 47'),
 ('truncated',
  336,
  'raised construct.core.StreamError: Error in path (parsing) -> palsar_auxiliary_data\n'
  'stream read less than specified amount, expected 256, found 48'),
 ('truncated',
  337,
  'raised construct.core.StreamError: Error in path (parsing) -> palsar_auxiliary_data\n'
  'stream read less than specified amount, expected 256, found 49'),
 ('truncated',
  338,
  'raised construct.core.StreamError: Error in path (parsing) -> palsar_auxiliary_data\n'
  'stream read less than specified amount, expected 256, found 50'),
 ('truncated',
  339,
  'raised construct.core.StreamError: Error in path (parsing) -> palsar_auxiliary_data\n'
  'stream read less than specified amount, expected 256, found 51'),
 ('truncated',
  340,
  'raised construct.core.StreamError: Error in path (parsing) -> palsar_auxiliary_data\n'
  'stream read less than specified amount, expected 256, found 52'),
 ('truncated',
  341,
  'raised construct.core.StreamError: Error in path (parsing) -> palsar_auxiliary_data\n'
  'stream read less than specified amount, expected 256, found 53'),
 ('truncated',
  342,
  'raised construct.core.StreamError: Error in path (parsing) -> palsar_auxiliary_data\n'
  'stream read less than specified amount, expected 256, found 54'),
 ('truncated',
  343,
  'raised construct.core.StreamError: Error in path (parsing) -> palsar_auxiliary_data\n'
  'stream read less than specified amount, expected 256, found 55'),
 ('truncated',
  344,
  'raised construct.core.StreamError: Error in path (parsing) -> palsar_auxiliary_data\n'
  'stream read less than specified amount, expected 256, found 56'),
 ('truncated',
  345,
  'raised construct.core.StreamError: Error in path (parsing) -> palsar_auxiliary_data\n'
  'stream read less than specified amount, expected 256, found 57'),
 ('truncated',
  346,
  'raised construct.core.StreamError: Error in path (parsing) -> palsar_auxiliary_data\n'
  'stream read less than specified amount, expected 256, found 58'),
 ('truncated',
  347,
  'raised construct.core.StreamError: Error in path (parsing) -> palsar_auxiliary_data\n'
  'stream read less than specified amount, expected 256, found 59'),
 ('truncated',
  348,
  'raised construct.core.StreamError: Error in path (parsing) -> palsar_auxiliary_data\n'
  'stream read less than specified amount, expected 256, found 60'),
 ('truncated',
  349,
  'raised construct.core.StreamError: Error in path (parsing) -> palsar_auxiliary_data\n'
  'stream read less than specified amount, expected 256, found 61'),
 ('truncated',
  350,
  'raised construct.core.StreamError: Error in path (parsing) -> palsar_auxiliary_data\n'
  'stream read less than specified amount, expected 256, found 62'),
 ('truncated',
  351,
  'raised construct.core.StreamError: Error in path (parsing) -> palsar_auxiliary_data\n'
  'stream read less than specified amount, expected 256, found 63'),
 ('truncated',
  352,
  'raised construct.core.StreamError: Error in path (parsing) -> palsar_auxiliary_data\n'
  'stream read less than specified amount, expected 256, found 64'),
 ('truncated',
  353,
  'raised construct.core.StreamError: Error in path (parsing) -> palsar_auxiliary_data\n'
  'stream read less than specified amount, expected 256, found 65'),
 ('truncated',
  354,
  'raised construct.core.StreamError: Error in path (parsing) -> palsar_auxiliary_data\n'
  'stream read less than specified amount, expected 256, found 66'),
 ('truncated',
  355,
  'raised construct.core.StreamError: Error in path (parsing) -> palsar_auxiliary_data\n'
  'stream read less than specified amount, expected 256, found 67'),
 ('truncated',
  356,
  'raised construct.core.StreamError: Error in path (parsing) -> palsar_auxiliary_data\n'
  'stream read less than specified amount, expected 256, found 68'),
 ('truncated',
  357,
  'raised construct.core.StreamError: Error in path (parsing) -> palsar_auxiliary_data\n'
  'stream read less than specified amount, expected 256, found 69'),
 ('truncated',
  358,
  'raised construct.core.StreamError: Error in path (parsing) -> palsar_auxiliary_data\n'
  'stream read less than specified amount, expected 256, found 70'),
 ('truncated',
  359,
  'raised construct.core.StreamError: Error in path (parsing) -> palsar_auxiliary_data\n'
  'stream read less than specified amount, expected 256, found 71'),
 ('truncated',
  360,
  'raised construct.core.StreamError: Error in path (parsing) -> palsar_auxiliary_data\n'
  'stream read less than specified amount, expected 256, found 72'),
 ('truncated',
  361,
  'raised construct.core.StreamError: Error in path (parsing) -> palsar_auxiliary_data\n'
  'stream read less than specified amount, expected 256, found 73'),
 ('truncated',
  362,
  'raised construct.core.StreamError: Error in path (parsing) -> palsar_auxiliary_data\n'
  'stream read less than specified amount, expected 256, found 74'),
 ('truncated',
  363,
  'raised construct.core.StreamError: Error in path (parsing) -> palsar_auxiliary_data\n'
  'stream read less than specified amount, expected 256, found 75'),
 ('truncated',
  364,
  'raised construct.core.StreamError: Error in path (parsing) -> palsar_auxiliary_data\n'
  'stream read less than specified amount, expected 256, found 76'),
 ('truncated',
  365,
  'raised construct.core.StreamError: Error in path (parsing) -> palsar_auxiliary_data\n'
  'stream read less than specified amount, expected 256, found 77'),
 ('truncated',
  366,
  'raised construct.core.StreamError: Error in path (parsing) -> palsar_auxiliary_data\n'
  'stream read less than specified amount, expected 256, found 78'),
 ('truncated',
  367,
  'raised construct.core.StreamError: Error in path (parsing) -> palsar_auxiliary_data\n'
  'stream read less than specified amount, expected 256, found 79'),
 ('truncated',
  368,
  'raised construct.core.StreamError: Error in path (parsing) -> palsar_auxiliary_data\n'
  'stream read less than specified amount, expected 256, found 80'),
 ('truncated',
  369,
  'raised construct.core.StreamError: Error in path (parsing) -> palsar_auxiliary_data\n'
  'stream read less than specified amount, expected 256, found 81'),
 ('truncated',
  370,
  'raised construct.core.StreamError: Error in path (parsing) -> palsar_auxiliary_data\n'
  'stream read less than specified amount, expected 256, found 82'),
 ('truncated',
  371,
  'raised construct.core.StreamError: Error in path (parsing) -> palsar_auxiliary_data\n'
  'stream read less than specified amount, expected 256, found 83'),
 ('truncated',
  372,
  'raised construct.core.StreamError: Error in path (parsing) -> palsar_auxiliary_data\n'
  'stream read less than specified amount, expected 256, found 84'),
 ('truncated',
  373,
  'raised construct.core.StreamError: Error in path (parsing) -> palsar_auxiliary_data\n'
  'stream read less than specified amount, expected 256, found 85'),
 ('truncated',
  374,
  'raised construct.core.StreamError: Error in path (parsing) -> palsar_auxiliary_data\n'
  'stream read less than specified amount, expected 256, found 86'),
 ('truncated',
  375,
  'raised construct.core.StreamError: Error in path (parsing) -> palsar_auxiliary_data\n'
  'stream read less than specified amount, expected 256, found 87'),
 ('truncated',
  376,
  'raised construct.core.StreamError: Error in path (parsing) -> palsar_auxiliary_data\n'
  'stream read less than specified amount, expected 256, found 88'),
 ('truncated',
  377,
  'raised construct.core.StreamError: Error in path (parsing) -> palsar_auxiliary_data\n'
  'stream read less than specified amount, expected 256, found 89'),
 ('truncated',
  378,
  'raised construct.core.StreamError: Error in path (parsing) -> palsar_auxiliary_data\n'
  'stream read less than specified amount, expected 256, found 90'),
 ('truncated',
  379,
  'raised construct.core.StreamError: Error in path (parsing) -> palsar_auxiliary_data\n'
  'stream read less than specified amount, expected 256, found 91'),
 ('truncated',
  380,
  'raised construct.core.StreamError: Error in path (parsing) -> palsar_auxiliary_data\n'
  'stream read less than specified amount, expected 256, found 92'),
 ('truncated',
  381,
  'raised construct.core.StreamError: Error in path (parsing) -> palsar_auxiliary_data\n'
  'stream read less than specified amount, expected 256, found 93'),
 ('truncated',
  382,
  'raised construct.core.StreamError: Error in path (parsing) -> palsar_auxiliary_data\n'
  'stream read less than specified amount, expected 256, found 94'),
 ('truncated',
  383,
  'raised construct.core.StreamError: Error in path (parsing) -> palsar_auxiliary_data\n'
  'stream read less than specified amount, expected 256, found 95'),
 ('truncated',
  384,
  'raised construct.core.StreamError: Error in path (parsing) -> palsar_auxiliary_data\n'
  'stream read less than specified amount, expected 256, found 96'),
 ('truncated',
  385,
  'raised construct.core.StreamError: Error in path (parsing) -> palsar_auxiliary_data\n'
  'stream read less than specified amount, expected 256, found 97'),
 ('truncated',
  386,
  'raised construct.core.StreamError: Error in path (parsing) -> palsar_auxiliary_data\n'
  'stream read less than specified amount, expected 256, found 98'),
 ('truncated',
  387,
  'raised construct.core.StreamError: Error in path (parsing) -> palsar_auxiliary_data\n'
  'stream read less than specified amount, expected 256, found 99'),
 ('truncated',
  388,
  'raised construct.core.StreamError: Error in path (parsing) -> palsar_auxiliary_data\n'
  'stream read less than specified amount, expected 256, found 100'),
 ('truncated',
  389,
  'raised construct.core.StreamError: Error in path (parsing) -> palsar_auxiliary_data\n'
  'stream read less than specified amount, expected 256, found 101'),
 ('truncated',
  390,
  'raised construct.core.StreamError: Error in path (parsing) -> palsar_auxiliary_data\n'
  'stream read less than specified amount, expected 256, found 102'),
 ('truncated',
  391,
  'raised construct.core.StreamError: Error in path (parsing) -> palsar_auxiliary_data\n'
  'stream read less than specified amount, expected 256, found 103'),
 ('truncated',
  392,
  'raised construct.core.StreamError: Error in path (parsing) -> palsar_auxiliary_data\n'
  'stream read less than specified amount, expected 256, found 104'),
 ('truncated',
  393,
  'raised construct.core.StreamError: Error in path (parsing) -> palsar_auxiliary_data\n'
  'stream read less than specified amount, expected 256, found 105'),
 ('truncated',
  394,
  'raised construct.core.StreamError: Error in path (parsing) -> palsar_auxiliary_data\n'
  'stream read less than specified amount, expected 256, found 106'),
 ('truncated',
  395,
  'raised construct.core.StreamError: Error in path (parsing) -> palsar_auxiliary_data\n'
  'stream read less than specified amount, expected 256, found 107'),
 ('truncated',
  396,
  'raised construct.core.StreamError: Error in path (parsing) -> palsar_auxiliary_data\n'
  'stream read less than specified amount, expected 256, found 108'),
 ('truncated',
  397,
  'raised construct.core.StreamError: Error in path (parsing) -> palsar_auxiliary_data\n'
  'stream read less than specified amount, expected 256, found 109'),
 ('truncated',
  398,
  'raised construct.core.StreamError: Error in path (parsing) -> palsar_auxiliary_data\n'
  'stream read less than specified amount, expected 256, found 110'),
 ('truncated',
  399,
  'raised construct.core.StreamError: Error in path (parsing) -> palsar_auxiliary_data\n'
  'stream read less than specified amount, expected 256, found 111'),
 ('truncated',
  400,
  'raised construct.core.StreamError: Error in path (parsing) -> palsar_auxiliary_data\n'
  'stream read less than specified amount, expected 256, found 112'),
 ('truncated',
  401,
  'raised construct.core.StreamError: Error in path (parsing) -> palsar_auxiliary_data\n'
  'stream read less than specified amount, expected 256, found 113'),
 ('truncated',
  402,
  'raised construct.core.StreamError: Error in path (parsing) -> palsar_auxiliary_data\n'
  'stream read less than specified amount, expected 256, found 114'),
 ('truncated',
  403,
  'raised construct.core.StreamError: Error in path (parsing) -> palsar_auxiliary_data\n'
  'stream read less than specified amount, expected 256, found 115'),
 ('truncated',
  404,
  'raised construct.core.StreamError: Error in path (parsing) -> palsar_auxiliary_data\n'
  'stream read less than specified amount, expected 256, found 116'),
 ('truncated',
  405,
  'raised construct.core.StreamError: Error in path (parsing) -> palsar_auxiliary_data\n'
  'stream read less than specified amount, expected 256, found 117'),
 ('truncated',
  406,
  'raised construct.core.StreamError: Error in path (parsing) -> palsar_auxiliary_data\n'
  'stream read less than specified amount, expected 256, found 118'),
 ('truncated',
  407,
  'raised construct.core.StreamError: Error in path (parsing) -> palsar_auxiliary_data\n'
  'stream read less than specified amount, expected 256, found 119'),
 ('truncated',
  408,
  'raised construct.core.StreamError: Error in path (parsing) -> palsar_auxiliary_data\n'
  'stream read less than specified amount, expected 256, found 120'),
 ('truncated',
  409,
  'raised construct.core.StreamError: Error in path (parsing) -> palsar_auxiliary_data\n'
  'stream read less than specified amount, expected 256, found 121'),
 ('truncated',
  410,
  'raised construct.core.StreamError: Error in path (parsing) -> palsar_auxiliary_data\n'
  'stream read less than specified amount, expected 256, found 122'),
 ('truncated',
  411,
  'raised construct.core.StreamError: Error in path (parsing) -> palsar_auxiliary_data\n'
  'stream read less than specified amount, expected 256, found 123'),
 ('truncated',
  412,
  'raised construct.core.StreamError: Error in path (parsing) -> palsar_auxiliary_data\n'
  'stream read less than specified amount, expected 256, found 124'),
 ('truncated',
  413,
  'raised construct.core.StreamError: Error in path (parsing) -> palsar_auxiliary_data\n'
  'stream read less than specified amount, expected 256, found 125'),
 ('truncated',
  414,
  'raised construct.core.StreamError: Error in path (parsing) -> palsar_auxiliary_data\n'
  'stream read less than specified amount, expected 256, found 126'),
 ('truncated',
  415,
  'raised construct.core.StreamError: Error in path (parsing) -> palsar_auxiliary_data\n'
  'stream read less than specified amount, expected 256, found 127'),
 ('truncated',
  416,
  'raised construct.core.StreamError: Error in path (parsing) -> palsar_auxiliary_data\n'
  'stream read less than specified amount, expected 256, found 128'),
 ('truncated',
  417,
  'raised construct.core.StreamError: Error in path (parsing) -> palsar_auxiliary_data\n'
  'stream read less than specified amount, expected 256, found 129'),
 ('truncated',
  418,
  'raised construct.core.StreamError: Error in path (parsing) -> palsar_auxiliary_data\n'
  'stream read less than specified amount, expected 256, found 130'),
 ('truncated',
  419,
  'raised construct.core.StreamError: Error in path (parsing) -> palsar_auxiliary_data\n'
  'stream read less than specified amount, expected 256, found 131'),
 ('truncated',
  420,
  'raised construct.core.StreamError: Error in path (parsing) -> palsar_auxiliary_data\n'
  'stream read less than specified amount, expected 256, found 132'),
 ('truncated',
  421,
  'raised construct.core.StreamError: Error in path (parsing) -> palsar_auxiliary_data\n'
  'stream read less than specified amount, expected 256, found 133'),
 ('truncated',
  422,
  'raised construct.core.StreamError: Error in path (parsing) -> palsar_auxiliary_data\n'
  'stream read less than specified amount, expected 256, found 134'),
 ('truncated',
  423,
  'raised construct.core.StreamError: Error in path (parsing) -> palsar_auxiliary_data\n'
  'stream read less than specified amount, expected 256, found 135'),
 ('truncated',
  424,
  'raised construct.core.StreamError: Error in path (parsing) -> palsar_auxiliary_data\n'
  'stream read less than specified amount, expected 256, found 136'),
 ('truncated',
  425,
  'raised construct.core.StreamError: Error in path (parsing) -> palsar_auxiliary_data\n'
  'stream read less than specified amount, expected 256, found 137'),
 ('truncated',
  426,
  'raised construct.core.StreamError: Error in path (parsing) -> palsar_auxiliary_data\n'
  'stream read less than specified amount, expected 256, found 138'),
 ('truncated',
  427,
  'raised construct.core.StreamError: Error in path (parsing) -> palsar_auxiliary_data\n'
  'stream read less than specified amount, expected 256, found 139'),
 ('truncated',
  428,
  'raised construct.core.StreamError: Error in path (parsing) -> palsar_auxiliary_data\n'
  'stream read less than specified amount, expected 256, found 140'),
 ('truncated',
  429,
  'raised construct.core.StreamError: Error in path (parsing) -> palsar_auxiliary_data\n'
  'stream read less than specified amount, expected 256, found 141'),
 ('truncated',
  430,
  'raised construct.core.StreamError: Error in path (parsing) -> palsar_auxiliary_data\n'
  'stream read less than specified amount, expected 256, found 142'),
 ('truncated',
  431,
  'raised construct.core.StreamError: Error in path (parsing) -> palsar_auxiliary_data\n'
  'stream read less than specified amount, expected 256, found 143'),
 ('truncated',
  432,
  'raised construct.core.StreamError: Error in path (parsing) -> palsar_auxiliary_data\n'
  'stream read less than specified amount, expected 256, found 144'),
 ('truncated',
  433,
  'raised construct.core.StreamError: Error in path (parsing) -> palsar_auxiliary_data\n'
  'stream read less than specified amount, expected 256, found 145'),
 ('truncated',
  434,
  'raised construct.core.StreamError: Error in path (parsing) -> palsar_auxiliary_data\n'
  'stream read less than specified amount, expected 256, found 146'),
 ('truncated',
  435,
  'raised construct.core.StreamError: Error in path (parsing) -> palsar_auxiliary_data\n'
  'stream read less than specified amount, expected 256, found 147'),
 ('truncated',
  436,
  'raised construct.core.StreamError: Error in path (parsing) -> palsar_auxiliary_data\n'
  'stream read less than specified amount, expected 256, found 148'),
 ('truncated',
  437,
  'raised construct.core.StreamError: Error in path (parsing) -> palsar_auxiliary_data\n'
  'stream read less than specified amount, expected 256, found 149'),
 ('truncated',
  438,
  'raised construct.core.StreamError: Error in path (parsing) -> palsar_auxiliary_data\n'
  'stream read less than specified amount, expected 256, found 150'),
 ('truncated',
  439,
  'raised construct.core.StreamError: Error in path (parsing) -> palsar_auxiliary_data\n'
  'stream read less than specified amount, expected 256, found 151'),
 ('truncated',
  440,
  'raised construct.core.StreamError: Error in path (parsing) -> palsar_auxiliary_data\n'
  'stream read less than specified amount, expected 256, found 152'),
 ('truncated',
  441,
  'raised construct.core.StreamError: Error in path (parsing) -> palsar_auxiliary_data\n'
  'stream read less than specified amount, expected 256, found 153'),
 ('truncated',
  442,
  'raised construct.core.StreamError: Error in path (parsing) -> palsar_auxiliary_data\n'
  'stream read less than specified amount, expected 256, found 154'),
 ('truncated',
  443,
  'raised construct.core.StreamError: Error in path (parsing) -> palsar_auxiliary_data\n'
  'stream read less than specified amount, expected 256, found 155'),
 ('truncated',
  444,
  'raised construct.core.StreamError: Error in path (parsing) -> palsar_auxiliary_data\n'
  'stream read less than specified amount, expected 256, found 156'),
 ('truncated',
  445,
  'raised construct.core.StreamError: Error in path (parsing) -> palsar_auxiliary_data\n'
  'stream read less than specified amount, expected 256, found 157'),
 ('truncated',
  446,
  'raised construct.core.StreamError: Error in path (parsing) -> palsar_auxiliary_data\n'
  'stream read less than specified amount, expected 256, found 158'),
 ('truncated',
  447,
  'raised construct.core.StreamError: Error in path (parsing) -> palsar_auxiliary_data\n'
  'stream read less than specified amount, expected 256, found 159'),
 ('truncated',
  448,
  'raised construct.core.StreamError: Error in path (parsing) -> palsar_auxiliary_data\n'
  'stream read less than specified amount, expected 256, found 160'),
 ('truncated',
  449,
  'raised construct.core.StreamError: Error in path (parsing) -> palsar_auxiliary_data\n'
  'stream read less than specified amount, expected 256, found 161'),
 ('truncated',
  450,
  'raised construct.core.StreamError: Error in path (parsing) -> palsar_auxiliary_data\n'
  'stream read less than specified amount, expected 256, found 162'),
 ('truncated',
  451,
  'raised construct.core.StreamError: Error in path (parsing) -> palsar_auxiliary_data\n'
  'stream read less than specified amount, expected 256, found 163'),
 ('truncated',
  452,
  'raised construct.core.StreamError: Error in path (parsing) -> palsar_auxiliary_data\n'
  'stream read less than specified amount, expected 256, found 164'),
 ('truncated',
  453,
  'raised construct.core.StreamError: Error in path (parsing) -> palsar_auxiliary_data\n'
  'stream read less than specified amount, expected 256, found 165'),
 ('truncated',
  454,
  'raised construct.core.StreamError: Error in path (parsing) -> palsar_auxiliary_data\n'
  'stream read less than specified amount, expected 256, found 166'),
 ('truncated',
  455,
  'raised construct.core.StreamError: Error in path (parsing) -> palsar_auxiliary_data\n'
  'stream read less than specified amount, expected 256, found 167'),
 ('truncated',
  456,
  'raised construct.core.StreamError: Error in path (parsing) -> palsar_auxiliary_data\n'
  'stream read less than specified amount, expected 256, found 168'),
 ('truncated',
  457,
  'raised construct.core.StreamError: Error in path (parsing) -> palsar_auxiliary_data\n'
  'stream read less than specified amount, expected 256, found 169'),
 ('truncated',
  458,
  'raised construct.core.StreamError: Error in path (parsing) -> palsar_auxiliary_data\n'
  'stream read less than specified amount, expected 256, found 170'),
 ('truncated',
  459,
  'raised construct.core.StreamError: Error in path (parsing) -> palsar_auxiliary_data\n'
  'stream read less than specified amount, expected 256, found 171'),
 ('truncated',
  460,
  'raised construct.core.StreamError: Error in path (parsing) -> palsar_auxiliary_data\n'
  'stream read less than specified amount, expected 256, found 172'),
 ('truncated',
  461,
  'raised construct.core.StreamError: Error in path (parsing) -> palsar_auxiliary_data\n'
  'stream read less than specified amount, expected 256, found 173'),
 ('truncated',
  462,
  'raised construct.core.StreamError: Error in path (parsing) -> palsar_auxiliary_data\n'
  'stream read less than specified amount, expected 256, found 174'),
 ('truncated',
  463,
  'raised construct.core.StreamError: Error in path (parsing) -> palsar_auxiliary_data\n'
  'stream read less than specified amount, expected 256, found 175'),
 ('truncated',
  464,
  'raised construct.core.StreamError: Error in path (parsing) -> palsar_auxiliary_data\n'
  'stream read less than specified amount, expected 256, found 176'),
 ('truncated',
  465,
  'raised construct.core.StreamError: Error in path (parsing) -> palsar_auxiliary_data\n'
  'stream read less than specified amount, expected 256, found 177'),
 ('truncated',
  466,
  'raised construct.core.StreamError: Error in path (parsing) -> palsar_auxiliary_data\n'
  'stream read less than specified amount, expected 256, found 178'),
 ('truncated',
  467,
  'raised construct.core.StreamError: Error in path (parsing) -> palsar_auxiliary_data\n'
  'stream read less than specified amount, expected 256, found 179'),
 ('truncated',
  468,
  'raised construct.core.StreamError: Error in path (parsing) -> palsar_auxiliary_data\n'
  'stream read less than specified amount, expected 256, found 180'),
 ('truncated',
  469,
  'raised construct.core.StreamError: Error in path (parsing) -> palsar_auxiliary_data\n'
  'stream read less than specified amount, expected 256, found 181'),
 ('truncated',
  470,
  'raised construct.core.StreamError: Error in path (parsing) -> palsar_auxiliary_data\n'
  'stream read less than specified amount, expected 256, found 182'),
 ('truncated',
  471,
  'raised construct.core.StreamError: Error in path (parsing) -> palsar_auxiliary_data\n'
  'stream read less than specified amount, expected 256, found 183'),
 ('truncated',
  472,
  'raised construct.core.StreamError: Error in path (parsing) -> palsar_auxiliary_data\n'
  'stream read less than specified amount, expected 256, found 184'),
 ('truncated',
  473,
  'raised construct.core.StreamError: Error in path (parsing) -> palsar_auxiliary_data\n'
  'stream read less than specified amount, expected 256, found 185'),
 ('truncated',
  474,
  'raised construct.core.StreamError: Error in path (parsing) -> palsar_auxiliary_data\n'
  'stream read less than specified amount, expected 256, found 186'),
 ('truncated',
  475,
  'raised construct.core.StreamError: Error in path (parsing) -> palsar_auxiliary_data\n'
  'stream read less than specified amount, expected 256, found 187'),
 ('truncated',
  476,
  'raised construct.core.StreamError: Error in path (parsing) -> palsar_auxiliary_data\n'
  'stream read less than specified amount, expected 256, found 188'),
 ('truncated',
  477,
  'raised construct.core.StreamError: Error in path (parsing) -> palsar_auxiliary_data\n'
  'stream read less than specified amount, expected 256, found 189'),
 ('truncated',
  478,
  'raised construct.core.StreamError: Error in path (parsing) -> palsar_auxiliary_data\n'
  'stream read less than specified amount, expected 256, found 190'),
 ('truncated',
  479,
  'raised construct.core.StreamError: Error in path (parsing) -> palsar_auxiliary_data\n'
  'stream read less than specified amount, expected 256, found 191'),
 ('truncated',
  480,
  'raised construct.core.StreamError: Error in path (parsing) -> palsar_auxiliary_data\n'
  'stream read less than specified amount, expected 256, found 192'),
 ('truncated',
  481,
  'raised construct.core.StreamError: Error in path (parsing) -> palsar_auxiliary_data\n'
  'stream read less than specified amount, expected 256, found 193'),
 ('truncated',
  482,
  'raised construct.core.StreamError: Error in path (parsing) -> palsar_auxiliary_data\n'
  'stream read less than specified amount, expected 256, found 194'),
 ('truncated',
  483,
  'raised construct.core.StreamError: Error in path (parsing) -> palsar_auxiliary_data\n'
  'stream read less than specified amount, expected 256, found 195'),
 ('truncated',
  484,
  'raised construct.core.StreamError: Error in path (parsing) -> palsar_auxiliary_data\n'
  'stream read less than specified amount, expected 256, found 196'),
 ('truncated',
  485,
  'raised construct.core.StreamError: Error in path (parsing) -> palsar_auxiliary_data\n'
  'stream read less than specified amount, expected 256, found 197'),
 ('truncated',
  486,
  'raised construct.core.StreamError: Error in path (parsing) -> palsar_auxiliary_data\n'
  'stream read less than specified amount, expected 256, found 198'),
 ('truncated',
  487,
  'raised construct.core.StreamError: Error in path (parsing) -> palsar_auxiliary_data\n'
  'stream read less than specified amount, expected 256, found 199'),
 ('truncated',
  488,
  'raised construct.core.StreamError: Error in path (parsing) -> palsar_auxiliary_data\n'
  'stream read less than specified amount, expected 256, found 200'),
 ('truncated',
  489,
  'raised construct.core.StreamError: Error in path (parsing) -> palsar_auxiliary_data\n'
  'stream read less than specified amount, expected 256, found 201'),
 ('truncated',
  490,
  'raised construct.core.StreamError: Error in path (parsing) -> palsar_auxiliary_data\n'
  'stream read less than specified amount, expected 256, found 202'),
 ('truncated',
  491,
  'raised construct.core.StreamError: Error in path (parsing) -> palsar_auxiliary_data\n'
  'stream read less than specified amount, expected 256, found 203'),
 ('truncated',
  492,
  'raised construct.core.StreamError: Error in path (parsing) -> palsar_auxiliary_data\n'
  'stream read less than specified amount, expected 256, found 204'),
 ('truncated',
  493,
  'raised construct.core.StreamError: Error in path (parsing) -> palsar_auxiliary_data\n'
  'stream read less than specified amount, expected 256, found 205'),
 ('truncated',
  494,
  'raised construct.core.StreamError: Error in path (parsing) -> palsar_auxiliary_data\n'
  'stream read less than specified amount, expected 256, found 206'),
 ('truncated',
  495,
  'raised construct.core.StreamError: Error in path (parsing) -> palsar_auxiliary_data\n'
  'stream read less than specified amount, expected 256, found 207'),
 ('truncated',
  496,
  'raised construct.core.StreamError: Error in path (parsing) -> palsar_auxiliary_data\n'
  'stream read less than specified amount, expected 256, found 208'),
 ('truncated',
  497,
  'raised construct.core.StreamError: Error in path (parsing) -> palsar_auxiliary_data\n'
  'stream read less than specified amount, expected 256, found 209'),
 ('truncated',
  498,
  'raised construct.core.StreamError: Error in path (parsing) -> palsar_auxiliary_data\n'
  'stream read less than specified amount, expected 256, found 210'),
 ('truncated',
  499,
  'raised construct.core.StreamError: Error in path (parsing) -> palsar_auxiliary_data\n'
  'stream read less than specified amount, expected 256, found 211'),
 ('truncated',
  500,
  'raised construct.core.StreamError: Error in path (parsing) -> palsar_auxiliary_data\n'
  'stream read less than specified amount, expected 256, found 212'),
 ('truncated',
  501,
  'raised construct.core.StreamError: Error in path (parsing) -> palsar_auxiliary_data\n'
  'stream read less than specified amount, expected 256, found 213'),
 ('truncated',
  502,
  'raised construct.core.StreamError: Error in path (parsing) -> palsar_auxiliary_data\n'
  'stream read less than specified amount, expected 256, found 214'),
 ('truncated',
  503,
  'raised construct.core.StreamError: Error in path (parsing) -> palsar_auxiliary_data\n'
  'stream read less than specified amount, expected 256, found 215'),
 ('truncated',
  504,
  'raised construct.core.StreamError: Error in path (parsing) -> palsar_auxiliary_data\n'
  'stream read less than specified amount, expected 256, found 216'),
 ('truncated',
  505,
  'raised construct.core.StreamError: Error in path (parsing) -> palsar_auxiliary_data\n'
  'stream read less than specified amount, expected 256, found 217'),
 ('truncated',
  506,
  'raised construct.core.StreamError: Error in path (parsing) -> palsar_auxiliary_data\n'
  'stream read less than specified amount, expected 256, found 218'),
 ('truncated',
  507,
  'raised construct.core.StreamError: Error in path (parsing) -> palsar_auxiliary_data\n'
  'stream read less than specified amount, expected 256, found 219'),
 ('truncated',
  508,
  'raised construct.core.StreamError: Error in path (parsing) -> palsar_auxiliary_data\n'
  'stream read less than specified amount, expected 256, found 220'),
 ('truncated',
  509,
  'raised construct.core.StreamError: Error in path (parsing) -> palsar_auxiliary_data\n'
  'stream read less than specified amount, expected 256, found 221'),
 ('truncated',
  510,
  'raised construct.core.StreamError: Error in path (parsing) -> palsar_auxiliary_data\n'
  'stream read less than specified amount, expected 256, found 222'),
 ('truncated',
  511,
  'raised construct.core.StreamError: Error in path (parsing) -> palsar_auxiliary_data\n'
  'stream read less than specified amount, expected 256, found 223'),
 ('truncated',
  512,
  'raised construct.core.StreamError: Error in path (parsing) -> palsar_auxiliary_data\n'
  'stream read less than specified amount, expected 256, found 224'),
 ('truncated',
  513,
  'raised construct.core.StreamError: Error in path (parsing) -> palsar_auxiliary_data\n'
  'stream read less than specified amount, expected 256, found 225'),
 ('truncated',
  514,
  'raised construct.core.StreamError: Error in path (parsing) -> palsar_auxiliary_data\n'
  'stream read less than specified amount, expected 256, found 226'),
 ('truncated',
  515,
  'raised construct.core.StreamError: Error in path (parsing) -> palsar_auxiliary_data\n'
  'stream read less than specified amount, expected 256, found 227'),
 ('truncated',
  516,
  'raised construct.core.StreamError: Error in path (parsing) -> palsar_auxiliary_data\n'
  'stream read less than specified amount, expected 256, found 228'),
 ('truncated',
  517,
  'raised construct.core.StreamError: Error in path (parsing) -> palsar_auxiliary_data\n'
  'stream read less than specified amount, expected 256, found 229'),
 ('truncated',
  518,
  'raised construct.core.StreamError: Error in path (parsing) -> palsar_auxiliary_data\n'
  'stream read less than specified amount, expected 256, found 230'),
 ('truncated',
  519,
  'raised construct.core.StreamError: Error in path (parsing) -> palsar_auxiliary_data\n'
  'stream read less than specified amount, expected 256, found 231'),
 ('truncated',
  520,
  'raised construct.core.StreamError: Error in path (parsing) -> palsar_auxiliary_data\n'
  'stream read less than specified amount, expected 256, found 232'),
 ('truncated',
  521,
  'raised construct.core.StreamError: Error in path (parsing) -> palsar_auxiliary_data\n'
  'stream read less than specified amount, expected 256, found 233'),
 ('truncated',
  522,
  'raised construct.core.StreamError: Error in path (parsing) -> palsar_auxiliary_data\n'
  'stream read less than specified amount, expected 256, found 234'),
 ('truncated',
  523,
  'raised construct.core.StreamError: Error in path (parsing) -> palsar_auxiliary_data\n'
  'stream read less than specified amount, expected 256, found 235'),
 ('truncated',
  524,
  'raised construct.core.StreamError: Error in path (parsing) -> palsar_auxiliary_data\n'
  'stream read less than specified amount, expected 256, found 236'),
 ('truncated',
  525,
  'raised construct.core.StreamError: Error in path (parsing) -> palsar_auxiliary_data\n'
  'stream read less than specified amount, expected 256, found 237'),
 ('truncated',
  526,
  'raised construct.core.StreamError: Error in path (parsing) -> palsar_auxiliary_data\n'
  'stream read less than specified amount, expected 256, found 238'),
 ('truncated',
  527,
  'raised construct.core.StreamError: Error in path (parsing) -> palsar_auxiliary_data\n'
  'stream read less than specified amount, expected 256, found 239'),
 ('truncated',
  528,
  'raised construct.core.StreamError: Error in path (parsing) -> palsar_auxiliary_data\n'
  'stream read less than specified amount, expected 256, found 240'),
 ('truncated',
  529,
  'raised construct.core.StreamError: Error in path (parsing) -> palsar_auxiliary_data\n'
  'stream read less than specified amount, expected 256, found 241'),
 ('truncated',
  530,
  'raised construct.core.StreamError: Error in path (parsing) -> palsar_auxiliary_data\n'
  'stream read less than specified amount, expected 256, found 242'),
 ('truncated',
  531,
  'raised construct.core.StreamError: Error in path (parsing) -> palsar_auxiliary_data\n'
  'stream read less than specified amount, expected 256, found 243'),
 ('truncated',
  532,
  'raised construct.core.StreamError: Error in path (parsing) -> palsar_auxiliary_data\n'
  'stream read less than specified amount, expected 256, found 244'),
 ('truncated',
  533,
  'raised construct.core.StreamError: Error in path (parsing) -> palsar_auxiliary_data\n'
  'stream read less than specified amount, expected 256, found 245'),
 ('truncated',
  534,
  'raised construct.core.StreamError: Error in path (parsing) -> palsar_auxiliary_data\n'
  'stream read less than specified amount, expected 256, found 246'),
 ('truncated',
  535,
  'raised construct.core.StreamError: Error in path (parsing) -> palsar_auxiliary_data\n'
  'stream read less than specified amount, expected 256, found 247'),
 ('truncated',
  536,
  'raised construct.core.StreamError: Error in path (parsing) -> palsar_auxiliary_data\n'
  'stream read less than specified amount, expected 256, found 248'),
 ('truncated',
  537,
  'raised construct.core.StreamError: Error in path (parsing) -> palsar_auxiliary_data\n'
  'stream read less than specified amount, expected 256, found 249'),
 ('truncated',
  538,
  'raised construct.core.StreamError: Error in path (parsing) -> palsar_auxiliary_data\n'
  'stream read less than specified amount, expected 256, found 250'),
 ('truncated',
  539,
  'raised construct.core.StreamError: Error in path (parsing) -> palsar_auxiliary_data\n'
  'stream read less than specified amount, expected 256, found 251'),
 ('truncated',
  540,
  'raised construct.core.StreamError: Error in path (parsing) -> palsar_auxiliary_data\n'
  'stream read less than specified amount, expected 256, found 252'),
 ('truncated',
  541,
  'raised construct.core.StreamError: Error in path (parsing) -> palsar_auxiliary_data\n'
  'stream read less than specified amount, expected 256, found 253'),
 ('truncated',
  542,
  'raised construct.core.StreamError: Error in path (parsing) -> palsar_auxiliary_data\n'
  'stream read less than specified amount, expected 256, found 254'),
 ('truncated',
  543,
  'raised construct.core.StreamError: Error in path (parsing) -> palsar_auxiliary_data\n'
  'stream read less than specified amount, expected 256, found 255'),
 ('truncated',
  544,
  "dict {'record_start': 0, 'preamble': {'record_sequence_number': 5, 'first_record_subtype': 50, "
  "'record_type': 10, 'second_record_subtype': 18, 'third_record_subtype': 20, 'record_length': "
  "600}, 'sar_image_data_line_number': 3364906953, 'sar_image_data_record_index': 2378702067, "
  "'actual_count_of_left_fill_pixels': 1224063067, 'actual_count_of_data_pixels': 2872709318, "
  "'actual_count_of_right_fill_pixels': 2902144823, 'sensor_parameters_update_flag': 2128380402, "
  "'sensor_acquisition_date': datetime.datetime(2015, 5, 3, 1, 16, 7, 890000), 'sar_channel_id': "
  "'dual_polarization', 'sar_channel_code': 'KA', 'transmitted_pulse_polarization': 2, "
  "'received_pulse_polarization': 'vertical', 'prf': (1948910283, {'units': 'mHz'}), 'scan_id': "
  "2933748478, 'onboard_range_compressed_flag': True, 'chirp_type_designator': 2, 'chirp_length': "
  "(3974640166, {'units': 'ns'}), 'chirp_constant_coefficient': (373876836, {'units': 'Hz'}), "
  "'chirp_linear_coefficient': (3461668439, {'units': 'Hz/µs'}), 'chirp_quadratic_coefficient': "
  "(1202743109, {'units': 'Hz/µs^2'}), 'sensor_acquisition_date_microseconds': "
  "datetime.datetime(2015, 5, 3, 1, 16, 7, 890123), 'receiver_gain': (30375509, {'units': 'dB'}), "
  "'invalid_line_flag': False, 'elevation_angle_at_nadir_of_antenna': {'electronic': (2451485281, "
  "{'units': 'deg'}), 'mechanic': (3620770497, {'units': 'deg'})}, 'antenna_squint_angle': "
  "{'electronic': (1213092598, {'units': 'deg'}), 'mechanic': (456934726, {'units': 'deg'})}, "
  "'slant_range_to_first_data_sample': (3296722741, {'units': 'm'}), "
  "'data_record_window_position': (4114240901, {'units': 'ns'}), 'blanks1': 2765183548, "
  "'platform_position_parameters_update_flag': 2, 'platform_latitude': (2305.032492, {'units': "
  "'deg'}), 'platform_longitude': (3882.355886, {'units': 'deg'}), 'platform_altitude': "
  "(324572710, {'units': 'deg'}), 'platform_ground_speed': (1088025560, {'units': 'cm/s'}), "
  "'platform_velocity': {'x': (3805132616, {'units': 'cm/s'}), 'y': (2925180730, {'units': "
  "'cm/s'}), 'z': (2531460531, {'units': 'cm/s'})}, 'platform_acceleration': {'x': (3490576374, "
  "{'units': 'cm/s^2'}), 'y': (3485081991, {'units': 'cm/s^2'}), 'z': (1209029931, {'units': "
  "'cm/s^2'})}, 'platform_track_angle': (779.266533, {'units': 'deg'}), "
  "'platform_true_track_angle': (3045.421305, {'units': 'deg'}), 'platform_attitude': {'pitch': "
  "(1361.7889069999999, {'units': 'deg'}), 'roll': (3062.5568, {'units': 'deg'}), 'yaw': "
  "(3641.0167619999997, {'units': 'deg'})}, 'latitude_of_first_pixel': (3980.484063, {'units': "
  "'deg'}), 'latitude_of_center_pixel': (1713.377395, {'units': 'deg'}), 'latitude_of_last_pixel': "
  "(4190.662456, {'units': 'deg'}), 'longitude_of_first_pixel': (2560.396596, {'units': 'deg'}), "
  "'longitude_of_center_pixel': (2034.351786, {'units': 'deg'}), 'longitude_of_last_pixel': "
  "(261.723678, {'units': 'deg'}), 'burst_number': 264956501, 'line_number_in_this_burst': "
  "1815596369, 'blanks2': "
  "b'Z\\x85\\x93XM\\x97\\xd0\\xee\\xf9\\x90Y\\xd5S\\xd7@\\x13\\x8e\\r\\xdc\\xeb\\x1e\\x18\\xbe\\xe1\\xb7\\x1a\\xbb\\xbaNz\\xe8y\\x16\\xd9\\x98b\\x83\\x1d`\\xf9Ji\\x12\\x02]!\\xc4\\x82\\xf2\\xe9\\xc9\\xbc}\\xa6\\xb54\\xb0{]\\xaf', "
  "'alos2_frame_number': 2177684528, 'palsar_auxiliary_data': "
  'b\'#=n\\xfb\\n\\xb3\\xbf\\x94\\xeaQ\\x9c\\xbf\\xb8{\\x18\\x81\\xa7\\xd5\\x87\\x1d+D}\\x17\\xf9\\xeb\\xcf4\\x03.\\x8fw\\x7f\\xb1\\x14$\\xe1Y\\xef\\xbf\\xdbI\\xf5\\rc\\xe5;\\x10\\xac\\xd1\\x14\\x0e*\\xf2\\x15\\x8b\\x91k\\x10I\\xd6\\xa0\\x1bN,5\\x89\\xdd\\x07\\x0f\\xefz\\x1cQ\\x1f\\xea]_//\\x00\\xddr\\x8fy\\xb0|\\x8ez\\xfb"\\xee\\xf9"w\\xb5)\\xc9\\xcf&~\\xd5\\xbe\\xc5\\xaci\\x19W\\xa8\\xe9\\xf3\\xdf\\xa5\\xfa\\xa0\\xa1\\x17~\\xb4!\\xb3\\x9b\\x04#k\\xb4\\xa2\\xacun\\xe4\\xffD\\xab^\\xa0\\x8d\\x91\\xe2TC\\x83\\x86\\x1e\\x9a&\\x9dB\\x06\\\\\\xbcD;K\\xb5\\xe9.V\\x9e3\\x12"\\xcah[\\x91\\xcd\\x0c\\xbe\\xc9|\\xe1--\\xea\\xed\\xdebksDJ\\x93\\xf7\\x14\\x0b7>A\\x08jJ\\xff\\xe6\\x80a\\xc2\\x88\\r\\x07>\\x11\\xe6\\xfeh\\xe8\\x1dLs\\xae\\t4\\xd3I;:<\\xdb\\x88#\\xa3\\xcb\\x05\\xf2;\\xba\\x05\\xebx\\x8e\\x1d\\x92\\x0fj\\x1f\\xab\\xf2\\xb2!;W\\nv\\x85\\xb2W\\xb2\\r\\xb5\\xbc\\xaa\\x98V\\x9dq)\', '
  "'data': {'start': 544, 'size': 56, 'stop': 600}}"),
 ('truncated',
  545,
  "dict {'record_start': 0, 'preamble': {'record_sequence_number': 5, 'first_record_subtype': 50, "
  "'record_type': 10, 'second_record_subtype': 18, 'third_record_subtype': 20, 'record_length': "
  "600}, 'sar_image_data_line_number': 3364906953, 'sar_image_data_record_index': 2378702067, "
  "'actual_count_of_left_fill_pixels': 1224063067, 'actual_count_of_data_pixels': 2872709318, "
  "'actual_count_of_right_fill_pixels': 2902144823, 'sensor_parameters_update_flag': 2128380402, "
  "'sensor_acquisition_date': datetime.datetime(2015, 5, 3, 1, 16, 7, 890000), 'sar_channel_id': "
  "'dual_polarization', 'sar_channel_code': 'KA', 'transmitted_pulse_polarization': 2, "
  "'received_pulse_polarization': 'vertical', 'prf': (1948910283, {'units': 'mHz'}), 'scan_id': "
  "2933748478, 'onboard_range_compressed_flag': True, 'chirp_type_designator': 2, 'chirp_length': "
  "(3974640166, {'units': 'ns'}), 'chirp_constant_coefficient': (373876836, {'units': 'Hz'}), "
  "'chirp_linear_coefficient': (3461668439, {'units': 'Hz/µs'}), 'chirp_quadratic_coefficient': "
  "(1202743109, {'units': 'Hz/µs^2'}), 'sensor_acquisition_date_microseconds': "
  "datetime.datetime(2015, 5, 3, 1, 16, 7, 890123), 'receiver_gain': (30375509, {'units': 'dB'}), "
  "'invalid_line_flag': False, 'elevation_angle_at_nadir_of_antenna': {'electronic': (2451485281, "
  "{'units': 'deg'}), 'mechanic': (3620770497, {'units': 'deg'})}, 'antenna_squint_angle': "
  "{'electronic': (1213092598, {'units': 'deg'}), 'mechanic': (456934726, {'units': 'deg'})}, "
  "'slant_range_to_first_data_sample': (3296722741, {'units': 'm'}), "
  "'data_record_window_position': (4114240901, {'units': 'ns'}), 'blanks1': 2765183548, "
  "'platform_position_parameters_update_flag': 2, 'platform_latitude': (2305.032492, {'units': "
  "'deg'}), 'platform_longitude': (3882.355886, {'units': 'deg'}), 'platform_altitude': "
  "(324572710, {'units': 'deg'}), 'platform_ground_speed': (1088025560, {'units': 'cm/s'}), "
  "'platform_velocity': {'x': (3805132616, {'units': 'cm/s'}), 'y': (2925180730, {'units': "
  "'cm/s'}), 'z': (2531460531, {'units': 'cm/s'})}, 'platform_acceleration': {'x': (3490576374, "
  "{'units': 'cm/s^2'}), 'y': (3485081991, {'units': 'cm/s^2'}), 'z': (1209029931, {'units': "
  "'cm/s^2'})}, 'platform_track_angle': (779.266533, {'units': 'deg'}), "
  "'platform_true_track_angle': (3045.421305, {'units': 'deg'}), 'platform_attitude': {'pitch': "
  "(1361.7889069999999, {'units': 'deg'}), 'roll': (3062.5568, {'units': 'deg'}), 'yaw': "
  "(3641.0167619999997, {'units': 'deg'})}, 'latitude_of_first_pixel': (3980.484063, {'units': "
  "'deg'}), 'latitude_of_center_pixel': (1713.377395, {'units': 'deg'}), 'latitude_of_last_pixel': "
  "(4190.662456, {'units': 'deg'}), 'longitude_of_first_pixel': (2560.396596, {'units': 'deg'}), "
  "'longitude_of_center_pixel': (2034.351786, {'units': 'deg'}), 'longitude_of_last_pixel': "
  "(261.723678, {'units': 'deg'}), 'burst_number': 264956501, 'line_number_in_this_burst': "
  "1815596369, 'blanks2': "
  "b'Z\\x85\\x93XM\\x97\\xd0\\xee\\xf9\\x90Y\\xd5S\\xd7@\\x13\\x8e\\r\\xdc\\xeb\\x1e\\x18\\xbe\\xe1\\xb7\\x1a\\xbb\\xbaNz\\xe8y\\x16\\xd9\\x98b\\x83\\x1d`\\xf9Ji\\x12\\x02]!\\xc4\\x82\\xf2\\xe9\\xc9\\xbc}\\xa6\\xb54\\xb0{]\\xaf', "
  "'alos2_frame_number': 2177684528, 'palsar_auxiliary_data': "
  'b\'#=n\\xfb\\n\\xb3\\xbf\\x94\\xeaQ\\x9c\\xbf\\xb8{\\x18\\x81\\xa7\\xd5\\x87\\x1d+D}\\x17\\xf9\\xeb\\xcf4\\x03.\\x8fw\\x7f\\xb1\\x14$\\xe1Y\\xef\\xbf\\xdbI\\xf5\\rc\\xe5;\\x10\\xac\\xd1\\x14\\x0e*\\xf2\\x15\\x8b\\x91k\\x10I\\xd6\\xa0\\x1bN,5\\x89\\xdd\\x07\\x0f\\xefz\\x1cQ\\x1f\\xea]_//\\x00\\xddr\\x8fy\\xb0|\\x8ez\\xfb"\\xee\\xf9"w\\xb5)\\xc9\\xcf&~\\xd5\\xbe\\xc5\\xaci\\x19W\\xa8\\xe9\\xf3\\xdf\\xa5\\xfa\\xa0\\xa1\\x17~\\xb4!\\xb3\\x9b\\x04#k\\xb4\\xa2\\xacun\\xe4\\xffD\\xab^\\xa0\\x8d\\x91\\xe2TC\\x83\\x86\\x1e\\x9a&\\x9dB\\x06\\\\\\xbcD;K\\xb5\\xe9.V\\x9e3\\x12"\\xcah[\\x91\\xcd\\x0c\\xbe\\xc9|\\xe1--\\xea\\xed\\xdebksDJ\\x93\\xf7\\x14\\x0b7>A\\x08jJ\\xff\\xe6\\x80a\\xc2\\x88\\r\\x07>\\x11\\xe6\\xfeh\\xe8\\x1dLs\\xae\\t4\\xd3I;:<\\xdb\\x88#\\xa3\\xcb\\x05\\xf2;\\xba\\x05\\xebx\\x8e\\x1d\\x92\\x0fj\\x1f\\xab\\xf2\\xb2!;W\\nv\\x85\\xb2W\\xb2\\r\\xb5\\xbc\\xaa\\x98V\\x9dq)\', '
  "'data': {'start': 544, 'size': 56, 'stop': 600}}"),
 ('truncated',
  546,
  "dict {'record_start': 0, 'preamble': {'record_sequence_number': 5, 'first_record_subtype': 50, "
  "'record_type': 10, 'second_record_subtype': 18, 'third_record_subtype': 20, 'record_length': "
  "600}, 'sar_image_data_line_number': 3364906953, 'sar_image_data_record_index': 2378702067, "
  "'actual_count_of_left_fill_pixels': 1224063067, 'actual_count_of_data_pixels': 2872709318, "
  "'actual_count_of_right_fill_pixels': 2902144823, 'sensor_parameters_update_flag': 2128380402, "
  "'sensor_acquisition_date': datetime.datetime(2015, 5, 3, 1, 16, 7, 890000), 'sar_channel_id': "
  "'dual_polarization', 'sar_channel_code': 'KA', 'transmitted_pulse_polarization': 2, "
  "'received_pulse_polarization': 'vertical', 'prf': (1948910283, {'units': 'mHz'}), 'scan_id': "
  "2933748478, 'onboard_range_compressed_flag': True, 'chirp_type_designator': 2, 'chirp_length': "
  "(3974640166, {'units': 'ns'}), 'chirp_constant_coefficient': (373876836, {'units': 'Hz'}), "
  "'chirp_linear_coefficient': (3461668439, {'units': 'Hz/µs'}), 'chirp_quadratic_coefficient': "
  "(1202743109, {'units': 'Hz/µs^2'}), 'sensor_acquisition_date_microseconds': "
  "datetime.datetime(2015, 5, 3, 1, 16, 7, 890123), 'receiver_gain': (30375509, {'units': 'dB'}), "
  "'invalid_line_flag': False, 'elevation_angle_at_nadir_of_antenna': {'electronic': (2451485281, "
  "{'units': 'deg'}), 'mechanic': (3620770497, {'units': 'deg'})}, 'antenna_squint_angle': "
  "{'electronic': (1213092598, {'units': 'deg'}), 'mechanic': (456934726, {'units': 'deg'})}, "
  "'slant_range_to_first_data_sample': (3296722741, {'units': 'm'}), "
  "'data_record_window_position': (4114240901, {'units': 'ns'}), 'blanks1': 2765183548, "
  "'platform_position_parameters_update_flag': 2, 'platform_latitude': (2305.032492, {'units': "
  "'deg'}), 'platform_longitude': (3882.355886, {'units': 'deg'}), 'platform_altitude': "
  "(324572710, {'units': 'deg'}), 'platform_ground_speed': (1088025560, {'units': 'cm/s'}), "
  "'platform_velocity': {'x': (3805132616, {'units': 'cm/s'}), 'y': (2925180730, {'units': "
  "'cm/s'}), 'z': (2531460531, {'units': 'cm/s'})}, 'platform_acceleration': {'x': (3490576374, "
  "{'units': 'cm/s^2'}), 'y': (3485081991, {'units': 'cm/s^2'}), 'z': (1209029931, {'units': "
  "'cm/s^2'})}, 'platform_track_angle': (779.266533, {'units': 'deg'}), "
  "'platform_true_track_angle': (3045.421305, {'units': 'deg'}), 'platform_attitude': {'pitch': "
  "(1361.7889069999999, {'units': 'deg'}), 'roll': (3062.5568, {'units': 'deg'}), 'yaw': "
  "(3641.0167619999997, {'units': 'deg'})}, 'latitude_of_first_pixel': (3980.484063, {'units': "
  "'deg'}), 'latitude_of_center_pixel': (1713.377395, {'units': 'deg'}), 'latitude_of_last_pixel': "
  "(4190.662456, {'units': 'deg'}), 'longitude_of_first_pixel': (2560.396596, {'units': 'deg'}), "
  "'longitude_of_center_pixel': (2034.351786, {'units': 'deg'}), 'longitude_of_last_pixel': "
  "(261.723678, {'units': 'deg'}), 'burst_number': 264956501, 'line_number_in_this_burst': "
  "1815596369, 'blanks2': "
  "b'Z\\x85\\x93XM\\x97\\xd0\\xee\\xf9\\x90Y\\xd5S\\xd7@\\x13\\x8e\\r\\xdc\\xeb\\x1e\\x18\\xbe\\xe1\\xb7\\x1a\\xbb\\xbaNz\\xe8y\\x16\\xd9\\x98b\\x83\\x1d`\\xf9Ji\\x12\\x02]!\\xc4\\x82\\xf2\\xe9\\xc9\\xbc}\\xa6\\xb54\\xb0{]\\xaf', "
  "'alos2_frame_number': 2177684528, 'palsar_auxiliary_data': "
  'b\'#=n\\xfb\\n\\xb3\\xbf\\x94\\xeaQ\\x9c\\xbf\\xb8{\\x18\\x81\\xa7\\xd5\\x87\\x1d+D}\\x17\\xf9\\xeb\\xcf4\\x03.\\x8fw\\x7f\\xb1\\x14$\\xe1Y\\xef\\xbf\\xdbI\\xf5\\rc\\xe5;\\x10\\xac\\xd1\\x14\\x0e*\\xf2\\x15\\x8b\\x91k\\x10I\\xd6\\xa0\\x1bN,5\\x89\\xdd\\x07\\x0f\\xefz\\x1cQ\\x1f\\xea]_//\\x00\\xddr\\x8fy\\xb0|\\x8ez\\xfb"\\xee\\xf9"w\\xb5)\\xc9\\xcf&~\\xd5\\xbe\\xc5\\xaci\\x19W\\xa8\\xe9\\xf3\\xdf\\xa5\\xfa\\xa0\\xa1\\x17~\\xb4!\\xb3\\x9b\\x04#k\\xb4\\xa2\\xacun\\xe4\\xffD\\xab^\\xa0\\x8d\\x91\\xe2TC\\x83\\x86\\x1e\\x9a&\\x9dB\\x06\\\\\\xbcD;K\\xb5\\xe9.V\\x9e3\\x12"\\xcah[\\x91\\xcd\\x0c\\xbe\\xc9|\\xe1--\\xea\\xed\\xdebksDJ\\x93\\xf7\\x14\\x0b7>A\\x08jJ\\xff\\xe6\\x80a\\xc2\\x88\\r\\x07>\\x11\\xe6\\xfeh\\xe8\\x1dLs\\xae\\t4\\xd3I;:<\\xdb\\x88#\\xa3\\xcb\\x05\\xf2;\\xba\\x05\\xebx\\x8e\\x1d\\x92\\x0fj\\x1f\\xab\\xf2\\xb2!;W\\nv\\x85\\xb2W\\xb2\\r\\xb5\\xbc\\xaa\\x98V\\x9dq)\', '
  "'data': {'start': 544, 'size': 56, 'stop': 600}}"),
 ('truncated',
  547,
  "dict {'record_start': 0, 'preamble': {'record_sequence_number': 5, 'first_record_subtype': 50, "
  "'record_type': 10, 'second_record_subtype': 18, 'third_record_subtype': 20, 'record_length': "
  "600}, 'sar_image_data_line_number': 3364906953, 'sar_image_data_record_index': 2378702067, "
  "'actual_count_of_left_fill_pixels': 1224063067, 'actual_count_of_data_pixels': 2872709318, "
  "'actual_count_of_right_fill_pixels': 2902144823, 'sensor_parameters_update_flag': 2128380402, "
  "'sensor_acquisition_date': datetime.datetime(2015, 5, 3, 1, 16, 7, 890000), 'sar_channel_id': "
  "'dual_polarization', 'sar_channel_code': 'KA', 'transmitted_pulse_polarization': 2, "
  "'received_pulse_polarization': 'vertical', 'prf': (1948910283, {'units': 'mHz'}), 'scan_id': "
  "2933748478, 'onboard_range_compressed_flag': True, 'chirp_type_designator': 2, 'chirp_length': "
  "(3974640166, {'units': 'ns'}), 'chirp_constant_coefficient': (373876836, {'units': 'Hz'}), "
  "'chirp_linear_coefficient': (3461668439, {'units': 'Hz/µs'}), 'chirp_quadratic_coefficient': "
  "(1202743109, {'units': 'Hz/µs^2'}), 'sensor_acquisition_date_microseconds': "
  "datetime.datetime(2015, 5, 3, 1, 16, 7, 890123), 'receiver_gain': (30375509, {'units': 'dB'}), "
  "'invalid_line_flag': False, 'elevation_angle_at_nadir_of_antenna': {'electronic': (2451485281, "
  "{'units': 'deg'}), 'mechanic': (3620770497, {'units': 'deg'})}, 'antenna_squint_angle': "
  "{'electronic': (1213092598, {'units': 'deg'}), 'mechanic': (456934726, {'units': 'deg'})}, "
  "'slant_range_to_first_data_sample': (3296722741, {'units': 'm'}), "
  "'data_record_window_position': (4114240901, {'units': 'ns'}), 'blanks1': 2765183548, "
  "'platform_position_parameters_update_flag': 2, 'platform_latitude': (2305.032492, {'units': "
  "'deg'}), 'platform_longitude': (3882.355886, {'units': 'deg'}), 'platform_altitude': "
  "(324572710, {'units': 'deg'}), 'platform_ground_speed': (1088025560, {'units': 'cm/s'}), "
  "'platform_velocity': {'x': (3805132616, {'units': 'cm/s'}), 'y': (2925180730, {'units': "
  "'cm/s'}), 'z': (2531460531, {'units': 'cm/s'})}, 'platform_acceleration': {'x': (3490576374, "
  "{'units': 'cm/s^2'}), 'y': (3485081991, {'units': 'cm/s^2'}), 'z': (1209029931, {'units': "
  "'cm/s^2'})}, 'platform_track_angle': (779.266533, {'units': 'deg'}), "
  "'platform_true_track_angle': (3045.421305, {'units': 'deg'}), 'platform_attitude': {'pitch': "
  "(1361.7889069999999, {'units': 'deg'}), 'roll': (3062.5568, {'units': 'deg'}), 'yaw': "
  "(3641.0167619999997, {'units': 'deg'})}, 'latitude_of_first_pixel': (3980.484063, {'units': "
  "'deg'}), 'latitude_of_center_pixel': (1713.377395, {'units': 'deg'}), 'latitude_of_last_pixel': "
  "(4190.662456, {'units': 'deg'}), 'longitude_of_first_pixel': (2560.396596, {'units': 'deg'}), "
  "'longitude_of_center_pixel': (2034.351786, {'units': 'deg'}), 'longitude_of_last_pixel': "
  "(261.723678, {'units': 'deg'}), 'burst_number': 264956501, 'line_number_in_this_burst': "
  "1815596369, 'blanks2': "
  "b'Z\\x85\\x93XM\\x97\\xd0\\xee\\xf9\\x90Y\\xd5S\\xd7@\\x13\\x8e\\r\\xdc\\xeb\\x1e\\x18\\xbe\\xe1\\xb7\\x1a\\xbb\\xbaNz\\xe8y\\x16\\xd9\\x98b\\x83\\x1d`\\xf9Ji\\x12\\x02]!\\xc4\\x82\\xf2\\xe9\\xc9\\xbc}\\xa6\\xb54\\xb0{]\\xaf', "
  "'alos2_frame_number': 2177684528, 'palsar_auxiliary_data': "
  'b\'#=n\\xfb\\n\\xb3\\xbf\\x94\\xeaQ\\x9c\\xbf\\xb8{\\x18\\x81\\xa7\\xd5\\x87\\x1d+D}\\x17\\xf9\\xeb\\xcf4\\x03.\\x8fw\\x7f\\xb1\\x14$\\xe1Y\\xef\\xbf\\xdbI\\xf5\\rc\\xe5;\\x10\\xac\\xd1\\x14\\x0e*\\xf2\\x15\\x8b\\x91k\\x10I\\xd6\\xa0\\x1bN,5\\x89\\xdd\\x07\\x0f\\xefz\\x1cQ\\x1f\\xea]_//\\x00\\xddr\\x8fy\\xb0|\\x8ez\\xfb"\\xee\\xf9"w\\xb5)\\xc9\\xcf&~\\xd5\\xbe\\xc5\\xaci\\x19W\\xa8\\xe9\\xf3\\xdf\\xa5\\xfa\\xa0\\xa1\\x17~\\xb4!\\xb3\\x9b\\x04#k\\xb4\\xa2\\xacun\\xe4\\xffD\\xab^\\xa0\\x8d\\x91\\xe2TC\\x83\\x86\\x1e\\x9a&\\x9dB\\x06\\\\\\xbcD;K\\xb5\\xe9.V\\x9e3\\x12"\\xcah[\\x91\\xcd\\x0c\\xbe\\xc9|\\xe1--\\xea\\xed\\xdebksDJ\\x93\\xf7\\x14\\x0b7>A\\x08jJ\\xff\\xe6\\x80a\\xc2\\x88\\r\\x07>\\x11\\xe6\\xfeh\\xe8\\x1dLs\\xae\\t4\\xd3I;:<\\xdb\\x88#\\xa3\\xcb\\x05\\xf2;\\xba\\x05\\xebx\\x8e\\x1d\\x92\\x0fj\\x1f\\xab\\xf2\\xb2!;W\\nv\\x85\\xb2W\\xb2\\r\\xb5\\xbc\\xaa\\x98V\\x9dq)\', '
  "'data': {'start': 544, 'size': 56, 'stop': 600}}"),
 ('truncated',
  548,
  "dict {'record_start': 0, 'preamble': {'record_sequence_number': 5, 'first_record_subtype': 50, "
  "'record_type': 10, 'second_record_subtype': 18, 'third_record_subtype': 20, 'record_length': "
  "600}, 'sar_image_data_line_number': 3364906953, 'sar_image_data_record_index': 2378702067, "
  "'actual_count_of_left_fill_pixels': 1224063067, 'actual_count_of_data_pixels': 2872709318, "
  "'actual_count_of_right_fill_pixels': 2902144823, 'sensor_parameters_update_flag': 2128380402, "
  "'sensor_acquisition_date': datetime.datetime(2015, 5, 3, 1, 16, 7, 890000), 'sar_channel_id': "
  "'dual_polarization', 'sar_channel_code': 'KA', 'transmitted_pulse_polarization': 2, "
  "'received_pulse_polarization': 'vertical', 'prf': (1948910283, {'units': 'mHz'}), 'scan_id': "
  "2933748478, 'onboard_range_compressed_flag': True, 'chirp_type_designator': 2, 'chirp_length': "
  "(3974640166, {'units': 'ns'}), 'chirp_constant_coefficient': (373876836, {'units': 'Hz'}), "
  "'chirp_linear_coefficient': (3461668439, {'units': 'Hz/µs'}), 'chirp_quadratic_coefficient': "
  "(1202743109, {'units': 'Hz/µs^2'}), 'sensor_acquisition_date_microseconds': "
  "datetime.datetime(2015, 5, 3, 1, 16, 7, 890123), 'receiver_gain': (30375509, {'units': 'dB'}), "
  "'invalid_line_flag': False, 'elevation_angle_at_nadir_of_antenna': {'electronic': (2451485281, "
  "{'units': 'deg'}), 'mechanic': (3620770497, {'units': 'deg'})}, 'antenna_squint_angle': "
  "{'electronic': (1213092598, {'units': 'deg'}), 'mechanic': (456934726, {'units': 'deg'})}, "
  "'slant_range_to_first_data_sample': (3296722741, {'units': 'm'}), "
  "'data_record_window_position': (4114240901, {'units': 'ns'}), 'blanks1': 2765183548, "
  "'platform_position_parameters_update_flag': 2, 'platform_latitude': (2305.032492, {'units': "
  "'deg'}), 'platform_longitude': (3882.355886, {'units': 'deg'}), 'platform_altitude': "
  "(324572710, {'units': 'deg'}), 'platform_ground_speed': (1088025560, {'units': 'cm/s'}), "
  "'platform_velocity': {'x': (3805132616, {'units': 'cm/s'}), 'y': (2925180730, {'units': "
  "'cm/s'}), 'z': (2531460531, {'units': 'cm/s'})}, 'platform_acceleration': {'x': (3490576374, "
  "{'units': 'cm/s^2'}), 'y': (3485081991, {'units': 'cm/s^2'}), 'z': (1209029931, {'units': "
  "'cm/s^2'})}, 'platform_track_angle': (779.266533, {'units': 'deg'}), "
  "'platform_true_track_angle': (3045.421305, {'units': 'deg'}), 'platform_attitude': {'pitch': "
  "(1361.7889069999999, {'units': 'deg'}), 'roll': (3062.5568, {'units': 'deg'}), 'yaw': "
  "(3641.0167619999997, {'units': 'deg'})}, 'latitude_of_first_pixel': (3980.484063, {'units': "
  "'deg'}), 'latitude_of_center_pixel': (1713.377395, {'units': 'deg'}), 'latitude_of_last_pixel': "
  "(4190.662456, {'units': 'deg'}), 'longitude_of_first_pixel': (2560.396596, {'units': 'deg'}), "
  "'longitude_of_center_pixel': (2034.351786, {'units': 'deg'}), 'longitude_of_last_pixel': "
  "(261.723678, {'units': 'deg'}), 'burst_number': 264956501, 'line_number_in_this_burst': "
  "1815596369, 'blanks2': "
  "b'Z\\x85\\x93XM\\x97\\xd0\\xee\\xf9\\x90Y\\xd5S\\xd7@\\x13\\x8e\\r\\xdc\\xeb\\x1e\\x18\\xbe\\xe1\\xb7\\x1a\\xbb\\xbaNz\\xe8y\\x16\\xd9\\x98b\\x83\\x1d`\\xf9Ji\\x12\\x02]!\\xc4\\x82\\xf2\\xe9\\xc9\\xbc}\\xa6\\xb54\\xb0{]\\xaf', "
  "'alos2_frame_number': 2177684528, 'palsar_auxiliary_data': "
  'b\'#=n\\xfb\\n\\xb3\\xbf\\x94\\xeaQ\\x9c\\xbf\\xb8{\\x18\\x81\\xa7\\xd5\\x87\\x1d+D}\\x17\\xf9\\xeb\\xcf4\\x03.\\x8fw\\x7f\\xb1\\x14$\\xe1Y\\xef\\xbf\\xdbI\\xf5\\rc\\xe5;\\x10\\xac\\xd1\\x14\\x0e*\\xf2\\x15\\x8b\\x91k\\x10I\\xd6\\xa0\\x1bN,5\\x89\\xdd\\x07\\x0f\\xefz\\x1cQ\\x1f\\xea]_//\\x00\\xddr\\x8fy\\xb0|\\x8ez\\xfb"\\xee\\xf9"w\\xb5)\\xc9\\xcf&~\\xd5\\xbe\\xc5\\xaci\\x19W\\xa8\\xe9\\xf3\\xdf\\xa5\\xfa\\xa0\\xa1\\x17~\\xb4!\\xb3\\x9b\\x04#k\\xb4\\xa2\\xacun\\xe4\\xffD\\xab^\\xa0\\x8d\\x91\\xe2TC\\x83\\x86\\x1e\\x9a&\\x9dB\\x06\\\\\\xbcD;K\\xb5\\xe9.V\\x9e3\\x12"\\xcah[\\x91\\xcd\\x0c\\xbe\\xc9|\\xe1--\\xea\\xed\\xdebksDJ\\x93\\xf7\\x14\\x0b7>A\\x08jJ\\xff\\xe6\\x80a\\xc2\\x88\\r\\x07>\\x11\\xe6\\xfeh\\xe8\\x1dLs\\xae\\t4\\xd3I;:<\\xdb\\x88#\\xa3\\xcb\\x05\\xf2;\\xba\\x05\\xebx\\x8e\\x1d\\x92\\x0fj\\x1f\\xab\\xf2\\xb2!;W\\nv\\x85\\xb2W\\xb2\\r\\xb5\\xbc\\xaa\\x98V\\x9dq)\', '
  "'data': {'start': 544, 'size': 56, 'stop': 600}}"),
 ('truncated',
  549,
  "dict {'record_start': 0, 'preamble': {'record_sequence_number': 5, 'first_record_subtype': 50, "
  "'record_type': 10, 'second_record_subtype': 18, 'third_record_subtype': 20, 'record_length': "
  "600}, 'sar_image_data_line_number': 3364906953, 'sar_image_data_record_index': 2378702067, "
  "'actual_count_of_left_fill_pixels': 1224063067, 'actual_count_of_data_pixels': 2872709318, "
  "'actual_count_of_right_fill_pixels': 2902144823, 'sensor_parameters_update_flag': 2128380402, "
  "'sensor_acquisition_date': datetime.datetime(2015, 5, 3, 1, 16, 7, 890000), 'sar_channel_id': "
  "'dual_polarization', 'sar_channel_code': 'KA', 'transmitted_pulse_polarization': 2, "
  "'received_pulse_polarization': 'vertical', 'prf': (1948910283, {'units': 'mHz'}), 'scan_id': "
  "2933748478, 'onboard_range_compressed_flag': True, 'chirp_type_designator': 2, 'chirp_length': "
  "(3974640166, {'units': 'ns'}), 'chirp_constant_coefficient': (373876836, {'units': 'Hz'}), "
  "'chirp_linear_coefficient': (3461668439, {'units': 'Hz/µs'}), 'chirp_quadratic_coefficient': "
  "(1202743109, {'units': 'Hz/µs^2'}), 'sensor_acquisition_date_microseconds': "
  "datetime.datetime(2015, 5, 3, 1, 16, 7, 890123), 'receiver_gain': (30375509, {'units': 'dB'}), "
  "'invalid_line_flag': False, 'elevation_angle_at_nadir_of_antenna': {'electronic': (2451485281, "
  "{'units': 'deg'}), 'mechanic': (3620770497, {'units': 'deg'})}, 'antenna_squint_angle': "
  "{'electronic': (1213092598, {'units': 'deg'}), 'mechanic': (456934726, {'units': 'deg'})}, "
  "'slant_range_to_first_data_sample': (3296722741, {'units': 'm'}), "
  "'data_record_window_position': (4114240901, {'units': 'ns'}), 'blanks1': 2765183548, "
  "'platform_position_parameters_update_flag': 2, 'platform_latitude': (2305.032492, {'units': "
  "'deg'}), 'platform_longitude': (3882.355886, {'units': 'deg'}), 'platform_altitude': "
  "(324572710, {'units': 'deg'}), 'platform_ground_speed': (1088025560, {'units': 'cm/s'}), "
  "'platform_velocity': {'x': (3805132616, {'units': 'cm/s'}), 'y': (2925180730, {'units': "
  "'cm/s'}), 'z': (2531460531, {'units': 'cm/s'})}, 'platform_acceleration': {'x': (3490576374, "
  "{'units': 'cm/s^2'}), 'y': (3485081991, {'units': 'cm/s^2'}), 'z': (1209029931, {'units': "
  "'cm/s^2'})}, 'platform_track_angle': (779.266533, {'units': 'deg'}), "
  "'platform_true_track_angle': (3045.421305, {'units': 'deg'}), 'platform_attitude': {'pitch': "
  "(1361.7889069999999, {'units': 'deg'}), 'roll': (3062.5568, {'units': 'deg'}), 'yaw': "
  "(3641.0167619999997, {'units': 'deg'})}, 'latitude_of_first_pixel': (3980.484063, {'units': "
  "'deg'}), 'latitude_of_center_pixel': (1713.377395, {'units': 'deg'}), 'latitude_of_last_pixel': "
  "(4190.662456, {'units': 'deg'}), 'longitude_of_first_pixel': (2560.396596, {'units': 'deg'}), "
  "'longitude_of_center_pixel': (2034.351786, {'units': 'deg'}), 'longitude_of_last_pixel': "
  "(261.723678, {'units': 'deg'}), 'burst_number': 264956501, 'line_number_in_this_burst': "
  "1815596369, 'blanks2': "
  "b'Z\\x85\\x93XM\\x97\\xd0\\xee\\xf9\\x90Y\\xd5S\\xd7@\\x13\\x8e\\r\\xdc\\xeb\\x1e\\x18\\xbe\\xe1\\xb7\\x1a\\xbb\\xbaNz\\xe8y\\x16\\xd9\\x98b\\x83\\x1d`\\xf9Ji\\x12\\x02]!\\xc4\\x82\\xf2\\xe9\\xc9\\xbc}\\xa6\\xb54\\xb0{]\\xaf', "
  "'alos2_frame_number': 2177684528, 'palsar_auxiliary_data': "
  'b\'#=n\\xfb\\n\\xb3\\xbf\\x94\\xeaQ\\x9c\\xbf\\xb8{\\x18\\x81\\xa7\\xd5\\x87\\x1d+D}\\x17\\xf9\\xeb\\xcf4\\x03.\\x8fw\\x7f\\xb1\\x14$\\xe1Y\\xef\\xbf\\xdbI\\xf5\\rc\\xe5;\\x10\\xac\\xd1\\x14\\x0e*\\xf2\\x15\\x8b\\x91k\\x10I\\xd6\\xa0\\x1bN,5\\x89\\xdd\\x07\\x0f\\xefz\\x1cQ\\x1f\\xea]_//\\x00\\xddr\\x8fy\\xb0|\\x8ez\\xfb"\\xee\\xf9"w\\xb5)\\xc9\\xcf&~\\xd5\\xbe\\xc5\\xaci\\x19W\\xa8\\xe9\\xf3\\xdf\\xa5\\xfa\\xa0\\xa1\\x17~\\xb4!\\xb3\\x9b\\x04#k\\xb4\\xa2\\xacun\\xe4\\xffD\\xab^\\xa0\\x8d\\x91\\xe2TC\\x83\\x86\\x1e\\x9a&\\x9dB\\x06\\\\\\xbcD;K\\xb5\\xe9.V\\x9e3\\x12"\\xcah[\\x91\\xcd\\x0c\\xbe\\xc9|\\xe1--\\xea\\xed\\xdebksDJ\\x93\\xf7\\x14\\x0b7>A\\x08jJ\\xff\\xe6\\x80a\\xc2\\x88\\r\\x07>\\x11\\xe6\\xfeh\\xe8\\x1dLs\\xae\\t4\\xd3I;:<\\xdb\\x88#\\xa3\\xcb\\x05\\xf2;\\xba\\x05\\xebx\\x8e\\x1d\\x92\\x0fj\\x1f\\xab\\xf2\\xb2!;W\\nv\\x85\\xb2W\\xb2\\r\\xb5\\xbc\\xaa\\x98V\\x9dq)\', '
  "'data': {'start': 544, 'size': 56, 'stop': 600}}"),
 ('truncated',
  550,
  "dict {'record_start': 0, 'preamble': {'record_sequence_number': 5, 'first_record_subtype': 50, "
  "'record_type': 10, 'second_record_subtype': 18, 'third_record_subtype': 20, 'record_length': "
  "600}, 'sar_image_data_line_number': 3364906953, 'sar_image_data_record_index': 2378702067, "
  "'actual_count_of_left_fill_pixels': 1224063067, 'actual_count_of_data_pixels': 2872709318, "
  "'actual_count_of_right_fill_pixels': 2902144823, 'sensor_parameters_update_flag': 2128380402, "
  "'sensor_acquisition_date': datetime.datetime(2015, 5, 3, 1, 16, 7, 890000), 'sar_channel_id': "
  "'dual_polarization', 'sar_channel_code': 'KA', 'transmitted_pulse_polarization': 2, "
  "'received_pulse_polarization': 'vertical', 'prf': (1948910283, {'units': 'mHz'}), 'scan_id': "
  "2933748478, 'onboard_range_compressed_flag': True, 'chirp_type_designator': 2, 'chirp_length': "
  "(3974640166, {'units': 'ns'}), 'chirp_constant_coefficient': (373876836, {'units': 'Hz'}), "
  "'chirp_linear_coefficient': (3461668439, {'units': 'Hz/µs'}), 'chirp_quadratic_coefficient': "
  "(1202743109, {'units': 'Hz/µs^2'}), 'sensor_acquisition_date_microseconds': "
  "datetime.datetime(2015, 5, 3, 1, 16, 7, 890123), 'receiver_gain': (30375509, {'units': 'dB'}), "
  "'invalid_line_flag': False, 'elevation_angle_at_nadir_of_antenna': {'electronic': (2451485281, "
  "{'units': 'deg'}), 'mechanic': (3620770497, {'units': 'deg'})}, 'antenna_squint_angle': "
  "{'electronic': (1213092598, {'units': 'deg'}), 'mechanic': (456934726, {'units': 'deg'})}, "
  "'slant_range_to_first_data_sample': (3296722741, {'units': 'm'}), "
  "'data_record_window_position': (4114240901, {'units': 'ns'}), 'blanks1': 2765183548, "
  "'platform_position_parameters_update_flag': 2, 'platform_latitude': (2305.032492, {'units': "
  "'deg'}), 'platform_longitude': (3882.355886, {'units': 'deg'}), 'platform_altitude': "
  "(324572710, {'units': 'deg'}), 'platform_ground_speed': (1088025560, {'units': 'cm/s'}), "
  "'platform_velocity': {'x': (3805132616, {'units': 'cm/s'}), 'y': (2925180730, {'units': "
  "'cm/s'}), 'z': (2531460531, {'units': 'cm/s'})}, 'platform_acceleration': {'x': (3490576374, "
  "{'units': 'cm/s^2'}), 'y': (3485081991, {'units': 'cm/s^2'}), 'z': (1209029931, {'units': "
  "'cm/s^2'})}, 'platform_track_angle': (779.266533, {'units': 'deg'}), "
  "'platform_true_track_angle': (3045.421305, {'units': 'deg'}), 'platform_attitude': {'pitch': "
  "(1361.7889069999999, {'units': 'deg'}), 'roll': (3062.5568, {'units': 'deg'}), 'yaw': "
  "(3641.0167619999997, {'units': 'deg'})}, 'latitude_of_first_pixel': (3980.484063, {'units': "
  "'deg'}), 'latitude_of_center_pixel': (1713.377395, {'units': 'deg'}), 'latitude_of_last_pixel': "
  "(4190.662456, {'units': 'deg'}), 'longitude_of_first_pixel': (2560.396596, {'units': 'deg'}), "
  "'longitude_of_center_pixel': (2034.351786, {'units': 'deg'}), 'longitude_of_last_pixel': "
  "(261.723678, {'units': 'deg'}), 'burst_number': 264956501, 'line_number_in_this_burst': "
  "1815596369, 'blanks2': "
  "b'Z\\x85\\x93XM\\x97\\xd0\\xee\\xf9\\x90Y\\xd5S\\xd7@\\x13\\x8e\\r\\xdc\\xeb\\x1e\\x18\\xbe\\xe1\\xb7\\x1a\\xbb\\xbaNz\\xe8y\\x16\\xd9\\x98b\\x83\\x1d`\\xf9Ji\\x12\\x02]!\\xc4\\x82\\xf2\\xe9\\xc9\\xbc}\\xa6\\xb54\\xb0{]\\xaf', "
  "'alos2_frame_number': 2177684528, 'palsar_auxiliary_data': "
  'b\'#=n\\xfb\\n\\xb3\\xbf\\x94\\xeaQ\\x9c\\xbf\\xb8{\\x18\\x81\\xa7\\xd5\\x87\\x1d+D}\\x17\\xf9\\xeb\\xcf4\\x03.\\x8fw\\x7f\\xb1\\x14$\\xe1Y\\xef\\xbf\\xdbI\\xf5\\rc\\xe5;\\x10\\xac\\xd1\\x14\\x0e*\\xf2\\x15\\x8b\\x91k\\x10I\\xd6\\xa0\\x1bN,5\\x89\\xdd\\x07\\x0f\\xefz\\x1cQ\\x1f\\xea]_//\\x00\\xddr\\x8fy\\xb0|\\x8ez\\xfb"\\xee\\xf9"w\\xb5)\\xc9\\xcf&~\\xd5\\xbe\\xc5\\xaci\\x19W\\xa8\\xe9\\xf3\\xdf\\xa5\\xfa\\xa0\\xa1\\x17~\\xb4!\\xb3\\x9b\\x04#k\\xb4\\xa2\\xacun\\xe4\\xffD\\xab^\\xa0\\x8d\\x91\\xe2TC\\x83\\x86\\x1e\\x9a&\\x9dB\\x06\\\\\\xbcD;K\\xb5\\xe9.V\\x9e3\\x12"\\xcah[\\x91\\xcd\\x0c\\xbe\\xc9|\\xe1--\\xea\\xed\\xdebksDJ\\x93\\xf7\\x14\\x0b7>A\\x08jJ\\xff\\xe6\\x80a\\xc2\\x88\\r\\x07>\\x11\\xe6\\xfeh\\xe8\\x1dLs\\xae\\t4\\xd3I;:<\\xdb\\x88#\\xa3\\xcb\\x05\\xf2;\\xba\\x05\\xebx\\x8e\\x1d\\x92\\x0fj\\x1f\\xab\\xf2\\xb2!;W\\nv\\x85\\xb2W\\xb2\\r\\xb5\\xbc\\xaa\\x98V\\x9dq)\', '
  "'data': {'start': 544, 'size': 56, 'stop': 600}}"),
 ('truncated',
  551,
  "dict {'record_start': 0, 'preamble': {'record_sequence_number': 5, 'first_record_subtype': 50, "
  "'record_type': 10, 'second_record_subtype': 18, 'third_record_subtype': 20, 'record_length': "
  "600}, 'sar_image_data_line_number': 3364906953, 'sar_image_data_record_index': 2378702067, "
  "'actual_count_of_left_fill_pixels': 1224063067, 'actual_count_of_data_pixels': 2872709318, "
  "'actual_count_of_right_fill_pixels': 2902144823, 'sensor_parameters_update_flag': 2128380402, "
  "'sensor_acquisition_date': datetime.datetime(2015, 5, 3, 1, 16, 7, 890000), 'sar_channel_id': "
  "'dual_polarization', 'sar_channel_code': 'KA', 'transmitted_pulse_polarization': 2, "
  "'received_pulse_polarization': 'vertical', 'prf': (1948910283, {'units': 'mHz'}), 'scan_id': "
  "2933748478, 'onboard_range_compressed_flag': True, 'chirp_type_designator': 2, 'chirp_length': "
  "(3974640166, {'units': 'ns'}), 'chirp_constant_coefficient': (373876836, {'units': 'Hz'}), "
  "'chirp_linear_coefficient': (3461668439, {'units': 'Hz/µs'}), 'chirp_quadratic_coefficient': "
  "(1202743109, {'units': 'Hz/µs^2'}), 'sensor_acquisition_date_microseconds': "
  "datetime.datetime(2015, 5, 3, 1, 16, 7, 890123), 'receiver_gain': (30375509, {'units': 'dB'}), "
  "'invalid_line_flag': False, 'elevation_angle_at_nadir_of_antenna': {'electronic': (2451485281, "
  "{'units': 'deg'}), 'mechanic': (3620770497, {'units': 'deg'})}, 'antenna_squint_angle': "
  "{'electronic': (1213092598, {'units': 'deg'}), 'mechanic': (456934726, {'units': 'deg'})}, "
  "'slant_range_to_first_data_sample': (3296722741, {'units': 'm'}), "
  "'data_record_window_position': (4114240901, {'units': 'ns'}), 'blanks1': 2765183548, "
  "'platform_position_parameters_update_flag': 2, 'platform_latitude': (2305.032492, {'units': "
  "'deg'}), 'platform_longitude': (3882.355886, {'units': 'deg'}), 'platform_altitude': "
  "(324572710, {'units': 'deg'}), 'platform_ground_speed': (1088025560, {'units': 'cm/s'}), "
  "'platform_velocity': {'x': (3805132616, {'units': 'cm/s'}), 'y': (2925180730, {'units': "
  "'cm/s'}), 'z': (2531460531, {'units': 'cm/s'})}, 'platform_acceleration': {'x': (3490576374, "
  "{'units': 'cm/s^2'}), 'y': (3485081991, {'units': 'cm/s^2'}), 'z': (1209029931, {'units': "
  "'cm/s^2'})}, 'platform_track_angle': (779.266533, {'units': 'deg'}), "
  "'platform_true_track_angle': (3045.421305, {'units': 'deg'}), 'platform_attitude': {'pitch': "
  "(1361.7889069999999, {'units': 'deg'}), 'roll': (3062.5568, {'units': 'deg'}), 'yaw': "
  "(3641.0167619999997, {'units': 'deg'})}, 'latitude_of_first_pixel': (3980.484063, {'units': "
  "'deg'}), 'latitude_of_center_pixel': (1713.377395, {'units': 'deg'}), 'latitude_of_last_pixel': "
  "(4190.662456, {'units': 'deg'}), 'longitude_of_first_pixel': (2560.396596, {'units': 'deg'}), "
  "'longitude_of_center_pixel': (2034.351786, {'units': 'deg'}), 'longitude_of_last_pixel': "
  "(261.723678, {'units': 'deg'}), 'burst_number': 264956501, 'line_number_in_this_burst': "
  "1815596369, 'blanks2': "
  "b'Z\\x85\\x93XM\\x97\\xd0\\xee\\xf9\\x90Y\\xd5S\\xd7@\\x13\\x8e\\r\\xdc\\xeb\\x1e\\x18\\xbe\\xe1\\xb7\\x1a\\xbb\\xbaNz\\xe8y\\x16\\xd9\\x98b\\x83\\x1d`\\xf9Ji\\x12\\x02]!\\xc4\\x82\\xf2\\xe9\\xc9\\xbc}\\xa6\\xb54\\xb0{]\\xaf', "
  "'alos2_frame_number': 2177684528, 'palsar_auxiliary_data': "
  'b\'#=n\\xfb\\n\\xb3\\xbf\\x94\\xeaQ\\x9c\\xbf\\xb8{\\x18\\x81\\xa7\\xd5\\x87\\x1d+D}\\x17\\xf9\\xeb\\xcf4\\x03.\\x8fw\\x7f\\xb1\\x14$\\xe1Y\\xef\\xbf\\xdbI\\xf5\\rc\\xe5;\\x10\\xac\\xd1\\x14\\x0e*\\xf2\\x15\\x8b\\x91k\\x10I\\xd6\\xa0\\x1bN,5\\x89\\xdd\\x07\\x0f\\xefz\\x1cQ\\x1f\\xea]_//\\x00\\xddr\\x8fy\\xb0|\\x8ez\\xfb"\\xee\\xf9"w\\xb5)\\xc9\\xcf&~\\xd5\\xbe\\xc5\\xaci\\x19W\\xa8\\xe9\\xf3\\xdf\\xa5\\xfa\\xa0\\xa1\\x17~\\xb4!\\xb3\\x9b\\x04#k\\xb4\\xa2\\xacun\\xe4\\xffD\\xab^\\xa0\\x8d\\x91\\xe2TC\\x83\\x86\\x1e\\x9a&\\x9dB\\x06\\\\\\xbcD;K\\xb5\\xe9.V\\x9e3\\x12"\\xcah[\\x91\\xcd\\x0c\\xbe\\xc9|\\xe1--\\xea\\xed\\xdebksDJ\\x93\\xf7\\x14\\x0b7>A\\x08jJ\\xff\\xe6\\x80a\\xc2\\x88\\r\\x07>\\x11\\xe6\\xfeh\\xe8\\x1dLs\\xae\\t4\\xd3I;:<\\xdb\\x88#\\xa3\\xcb\\x05\\xf2;\\xba\\x05\\xebx\\x8e\\x1d\\x92\\x0fj\\x1f\\xab\\xf2\\xb2!;W\\nv\\x85\\xb2W\\xb2\\r\\xb5\\xbc\\xaa\\x98V\\x9dq)\', '
  "'data': {'start': 544, 'size': 56, 'stop': 600}}"),
 ('stream offset', 0, "tuple (0, {'start': 544, 'size': 156, 'stop': 700}, 700)"),
 ('stream offset', 1, "tuple (1, {'start': 545, 'size': 156, 'stop': 701}, 701)"),
 ('stream offset', 720, "tuple (720, {'start': 1264, 'size': 156, 'stop': 1420}, 1420)"),
 ('stream offset', 12345, "tuple (12345, {'start': 12889, 'size': 156, 'stop': 13045}, 13045)"),
 ('array', 0, 'list []'),
 ('array', 1, "list [(0, 1952164105, {'start': 544, 'size': 0, 'stop': 544})]"),
 ('array',
  2,
  "list [(0, 1952164105, {'start': 544, 'size': 0, 'stop': 544}), (544, 145573645, {'start': 1088, "
  "'size': 16, 'stop': 1104})]"),
 ('array',
  3,
  "list [(0, 1952164105, {'start': 544, 'size': 0, 'stop': 544}), (544, 145573645, {'start': 1088, "
  "'size': 16, 'stop': 1104}), (1104, 2634016017, {'start': 1648, 'size': 56, 'stop': 1704})]"),
 ('array',
  4,
  "list [(0, 1952164105, {'start': 544, 'size': 0, 'stop': 544}), (544, 145573645, {'start': 1088, "
  "'size': 16, 'stop': 1104}), (1104, 2634016017, {'start': 1648, 'size': 56, 'stop': 1704}), "
  "(1704, 810648342, {'start': 2248, 'size': 956, 'stop': 3204})]"),
 ('array',
  5,
  "list [(0, 1952164105, {'start': 544, 'size': 0, 'stop': 544}), (544, 145573645, {'start': 1088, "
  "'size': 16, 'stop': 1104}), (1104, 2634016017, {'start': 1648, 'size': 56, 'stop': 1704}), "
  "(1704, 810648342, {'start': 2248, 'size': 956, 'stop': 3204}), (3204, 3299025178, {'start': "
  "3748, 'size': 0, 'stop': 3748})]"),
 ('array',
  6,
  "list [(0, 1952164105, {'start': 544, 'size': 0, 'stop': 544}), (544, 145573645, {'start': 1088, "
  "'size': 16, 'stop': 1104}), (1104, 2634016017, {'start': 1648, 'size': 56, 'stop': 1704}), "
  "(1704, 810648342, {'start': 2248, 'size': 956, 'stop': 3204}), (3204, 3299025178, {'start': "
  "3748, 'size': 0, 'stop': 3748}), (3748, 1492500254, {'start': 4292, 'size': 233, 'stop': "
  '4525})]'),
 ('array',
  7,
  'raised construct.core.StreamError: Error in path (parsing) -> preamble -> '
  'record_sequence_number\n'
  'stream read less than specified amount, expected 4, found 0'),
 ('parse_chunk', 600, "str '7d7e39ade13c873d4cc2c4faaa183707ea1ffdb3bafcb794a1c7f15c856544e5'"),
 ('parse_chunk',
  300,
  'raised construct.core.StreamError: Error in path (parsing) -> preamble -> '
  'record_sequence_number\n'
  'stream read less than specified amount, expected 4, found 0'),
 ('parse_chunk',
  200,
  'raised construct.core.StreamError: Error in path (parsing) -> preamble -> '
  'record_sequence_number\n'
  'stream read less than specified amount, expected 4, found 0'),
 ('parse_chunk',
  599,
  'raised builtins.ValueError: sizes mismatch: chunksize is 2995 but got 3000 bytes'),
 ('parse_chunk', 3000, "str 'c941e83ed54c83f95b1624fee0118ef08bd84a58f0eb71770dbb7e8f3de669d4'"),
 ('bulk first',
  "dict {'record_start': 0, 'preamble': {'record_sequence_number': 100, 'first_record_subtype': "
  "50, 'record_type': 10, 'second_record_subtype': 18, 'third_record_subtype': 20, "
  "'record_length': 544}, 'sar_image_data_line_number': 3018787677, 'sar_image_data_record_index': "
  "1840613586, 'actual_count_of_left_fill_pixels': 2403719283, 'actual_count_of_data_pixels': "
  "2109078902, 'actual_count_of_right_fill_pixels': 3679993167, 'sensor_parameters_update_flag': "
  "2395086000, 'sensor_acquisition_date': datetime.datetime(2030, 4, 11, 0, 1, 37, 700000), "
  "'sar_channel_id': 'single_polarization', 'sar_channel_code': 'C', "
  "'transmitted_pulse_polarization': 'vertical', 'received_pulse_polarization': 'horizontal', "
  "'prf': (125414683, {'units': 'mHz'}), 'scan_id': 4169551853, 'onboard_range_compressed_flag': "
  "False, 'chirp_type_designator': 'phase_modulators', 'chirp_length': (1504350465, {'units': "
  "'ns'}), 'chirp_constant_coefficient': (1386805867, {'units': 'Hz'}), "
  "'chirp_linear_coefficient': (3964284314, {'units': 'Hz/µs'}), 'chirp_quadratic_coefficient': "
  "(153398851, {'units': 'Hz/µs^2'}), 'sensor_acquisition_date_microseconds': "
  "datetime.datetime(2030, 4, 11, 0, 13, 11, 900000), 'receiver_gain': (612626652, {'units': "
  "'dB'}), 'invalid_line_flag': False, 'elevation_angle_at_nadir_of_antenna': {'electronic': "
  "(156981188, {'units': 'deg'}), 'mechanic': (4104421640, {'units': 'deg'})}, "
  "'antenna_squint_angle': {'electronic': (2687538865, {'units': 'deg'}), 'mechanic': (4019395188, "
  "{'units': 'deg'})}, 'slant_range_to_first_data_sample': (128110403, {'units': 'm'}), "
  "'data_record_window_position': (1265679188, {'units': 'ns'}), 'blanks1': 1615929626, "
  "'platform_position_parameters_update_flag': 'update', 'platform_latitude': (3386.748119, "
  "{'units': 'deg'}), 'platform_longitude': (2792.3970449999997, {'units': 'deg'}), "
  "'platform_altitude': (1692831512, {'units': 'deg'}), 'platform_ground_speed': (3872593396, "
  "{'units': 'cm/s'}), 'platform_velocity': {'x': (1326247038, {'units': 'cm/s'}), 'y': "
  "(111352553, {'units': 'cm/s'}), 'z': (2901402281, {'units': 'cm/s'})}, 'platform_acceleration': "
  "{'x': (662816882, {'units': 'cm/s^2'}), 'y': (2569965881, {'units': 'cm/s^2'}), 'z': "
  "(1762345009, {'units': 'cm/s^2'})}, 'platform_track_angle': (946.543054, {'units': 'deg'}), "
  "'platform_true_track_angle': (3974.340805, {'units': 'deg'}), 'platform_attitude': {'pitch': "
  "(2823.133448, {'units': 'deg'}), 'roll': (3500.6079489999997, {'units': 'deg'}), 'yaw': "
  "(140.260232, {'units': 'deg'})}, 'latitude_of_first_pixel': (905.485291, {'units': 'deg'}), "
  "'latitude_of_center_pixel': (2052.065004, {'units': 'deg'}), 'latitude_of_last_pixel': "
  "(997.6851819999999, {'units': 'deg'}), 'longitude_of_first_pixel': (482.42350899999997, "
  "{'units': 'deg'}), 'longitude_of_center_pixel': (46.316517, {'units': 'deg'}), "
  "'longitude_of_last_pixel': (273.667811, {'units': 'deg'}), 'burst_number': 2860222466, "
  "'line_number_in_this_burst': 1956254902, 'blanks2': "
  "b'S@\\xfe\\xb4jB\\x0b\\xee\\x1d\\xb2>\\x9a\\x10\\xe7\\xdb,(rfV\\x88(\\xa4\\x0e\\x94\\x1e\\x97\\x87\\xf0\\xa7\\x855\\x81X\\xf2\\xccj\\x03\\xa0A\\x0f\\xbe\\x95\\xc7\\x14\\xdc\\x14\\xd2^\\xf2\\xa1\\x17\\x10\\xd2\\x01\\x88\\x8e\\x926[', "
  "'alos2_frame_number': 2089125380, 'palsar_auxiliary_data': "
  'b\'\\xbf?u5z\\x95\\xc5\\xe4\\x11\\x9a|D(\\xa2\\xdd\\xc9\\xa4Al\\\'\\xa8L\\xeeS\\x98\\xd6f\\x80\\x193\\x18"\\r\\xf7\\x88\\xee\\x9a\\xf7z\\xd6#E\\xf3\\x10M76\\x0f\\xfaa\\xc7\\x88P\\x95kn\\xb2\\xe9%\\xf5\\xc5\\xb09\\x91k\\x7f+\\xf6\\xca(\\xc0\\x19E\\xc1\\xfa-\\x81\\x9d\\x1f\\xa6`P\\xb39\\x08\\xafx\\xd8\\xdc\\xcdt\\xb9\\x81\\xfe\\xeaO\\xd9\\xd6^O\\n*\\x95\\xacw\\r\\x91\\x9a\\xc5\\xd3\\x98\\x8d\\xd7\\x10.9\\xd0\\x99\\x15\\x93\\x17\\x80S\\xceM\\x1c+^X\\xfe!\\xf7Z\\xfb\\xfa\\x8e\\xba(\\xb9V\\x19\\xd8\\xa2\\xc3]\\xa09\\x8a\\xa9RB\\x9da\\x04\\xc22)\\t\\xfc\\xbd\\xe6\\xf5t\\xf0\\xbb\\x9d\\xef\\xc1\\x0c\\x14pc}\\xae;J\\xf3\\xff\\xd4*\\x91\\xdc\\xff\\xf8\\xbbX\\xc1\\xe7\\x15\\xc7]k\\x84\\xbdW9+\\x0ftCn\\xcf\\xb7\\xbf\\xf1Td!\\x99/\\xff\\x1b\\x895M\\xa3%{P\\xec\\x11TNj2U\\xcb\\xd1\\xabP\\x89\\x16\\xe0[\\x8elu\\xc9\\x1dGO/\\xba\\\\\\x91_*\\x9d\\x9foo@\\x1d\\xb2\\xcf\\xb9\', '
  "'data': {'start': 544, 'size': 0, 'stop': 544}}"),
 ('bulk digest', '373e53636bfd4d4bb9b77dc773ac006cb770453c77f40e201e3ee2de865dc16c'),
 ('metadata fields',
  ['prf',
   'chirp_length',
   'chirp_constant_coefficient',
   'chirp_linear_coefficient',
   'chirp_quadratic_coefficient',
   'receiver_gain',
   'elevation_angle_at_nadir_of_antenna.electronic',
   'elevation_angle_at_nadir_of_antenna.mechanic',
   'antenna_squint_angle.electronic',
   'antenna_squint_angle.mechanic',
   'slant_range_to_first_data_sample',
   'data_record_window_position',
   'platform_latitude',
   'platform_longitude',
   'platform_altitude',
   'platform_ground_speed',
   'platform_velocity.x',
   'platform_velocity.y',
   'platform_velocity.z',
   'platform_acceleration.x',
   'platform_acceleration.y',
   'platform_acceleration.z',
   'platform_track_angle',
   'platform_true_track_angle',
   'platform_attitude.pitch',
   'platform_attitude.roll',
   'platform_attitude.yaw',
   'latitude_of_first_pixel',
   'latitude_of_center_pixel',
   'latitude_of_last_pixel',
   'longitude_of_first_pixel',
   'longitude_of_center_pixel',
   'longitude_of_last_pixel']),
 ('distinct attrs', 33),
 ('stable attrs', True),
 ('attrs',
  [{'units': 'mHz'},
   {'units': 'ns'},
   {'units': 'Hz'},
   {'units': 'Hz/µs'},
   {'units': 'Hz/µs^2'},
   {'units': 'dB'},
   {'units': 'deg'},
   {'units': 'deg'},
   {'units': 'deg'},
   {'units': 'deg'},
   {'units': 'm'},
   {'units': 'ns'},
   {'units': 'deg'},
   {'units': 'deg'},
   {'units': 'deg'},
   {'units': 'cm/s'},
   {'units': 'cm/s'},
   {'units': 'cm/s'},
   {'units': 'cm/s'},
   {'units': 'cm/s^2'},
   {'units': 'cm/s^2'},
   {'units': 'cm/s^2'},
   {'units': 'deg'},
   {'units': 'deg'},
   {'units': 'deg'},
   {'units': 'deg'},
   {'units': 'deg'},
   {'units': 'deg'},
   {'units': 'deg'},
   {'units': 'deg'},
   {'units': 'deg'},
   {'units': 'deg'},
   {'units': 'deg'}]),
 ('value types',
  ['int',
   'int',
   'int',
   'int',
   'int',
   'int',
   'int',
   'int',
   'int',
   'int',
   'int',
   'int',
   'float',
   'float',
   'int',
   'int',
   'int',
   'int',
   'int',
   'int',
   'int',
   'int',
   'float',
   'float',
   'float',
   'float',
   'float',
   'float',
   'float',
   'float',
   'float',
   'float',
   'float']),
 ('nested order',
  [['record_sequence_number',
    'first_record_subtype',
    'record_type',
    'second_record_subtype',
    'third_record_subtype',
    'record_length'],
   ['electronic', 'mechanic'],
   ['electronic', 'mechanic'],
   ['x', 'y', 'z'],
   ['x', 'y', 'z'],
   ['pitch', 'roll', 'yaw'],
   ['start', 'size', 'stop']]),
 ('build', 'raised builtins.NotImplementedError: '),
 ('construct', '2.10.70')]


def test_equivalence():
    observed = observe()
    assert len(observed) == len(EXPECTED)
    for actual, expected in zip(observed, EXPECTED):
        assert actual == expected
    assert observed == EXPECTED


if __name__ == "__main__":
    test_equivalence()
    print(f"ok: {len(EXPECTED)} observations identical")
