"""Equivalence checks for refactoring 4.

Touched: ceos_alos2/sar_leader/metadata.py (fix_attitude_time, the post-processing
step of transform_metadata; new private helpers _start_of_year, _add_reference_date).

Run as a script (`python equiv.py`) or through pytest.  `python equiv.py --record`
prints EXPECTED as computed by the code under test (the values in this file were
recorded from the unchanged code at HEAD).
"""
import copy
import sys

import numpy as np

from ceos_alos2.hierarchy import Group, Variable
from ceos_alos2.sar_leader import io, metadata

# ---- synthetic SAR leader builder (copied verbatim into each equiv.py that needs it) ----
import struct as _struct

from construct import Struct as _Struct


def _unwrap(con):
    while not isinstance(con, _Struct):
        con = con.subcon
    return con


def _locate(con, path):
    con = _unwrap(con)
    off = 0
    head, *rest = path
    for sc in con.subcons:
        if sc.name == head:
            if rest:
                inner, size = _locate(sc, rest)
                return off + inner, size
            return off, sc.sizeof()
        off += sc.sizeof()
    raise KeyError(head)


def _preamble(length, seq=1):
    return _struct.pack(">IBBBBI", seq, 18, 10, 18, 20, length)


def _fixed(con, fields, seq=1):
    size = con.sizeof()
    buf = bytearray(_preamble(size, seq) + b" " * (size - 12))
    for path, text in fields.items():
        off, width = _locate(con, path.split("/"))
        raw = text.encode("ascii")
        assert len(raw) <= width, (path, width)
        buf[off : off + width] = raw.ljust(width)
    return bytes(buf)


def build_leader(
    n_map=1,
    designator="UTM-PROJECTION",
    n_points=2,
    n_channels=2,
    date="2020 03 04",
    scene_center_time="20200102030405678900",
    attitude_values=True,
    seconds_of_day="3661.5",
):
    from ceos_alos2.sar_leader.dataset_summary import dataset_summary_record
    from ceos_alos2.sar_leader.facility_related_data import facility_related_data_5_record
    from ceos_alos2.sar_leader.file_descriptor import file_descriptor_record
    from ceos_alos2.sar_leader.map_projection import map_projection_record
    from ceos_alos2.sar_leader.platform_position import platform_position_record
    from ceos_alos2.sar_leader.radiometric_data import radiometric_data_record

    fd = _fixed(file_descriptor_record, {"map_projection/number_of_records": str(n_map)})
    ds = _fixed(
        dataset_summary_record,
        {
            "scene_center_time": scene_center_time,
            "line_spacing": "2.5",
            "sensor_platform_mission_identifier": "ALOS2",
            "base_band_conversion_flag": "YES",
            "range_compression_flag": "NO",
            "echo_tracker_status": "ON",
            "weighting_function_in_azimuth": "1",
            "weighting_function_in_range": "1",
            "clutter_lock_applied_flag": "OFF",
            "auto_focusing_applied_flag": "YES",
            "motion_compensation_indicator": "1",
        },
    )
    mp = b"".join(
        _fixed(
            map_projection_record,
            {
                "map_projection_designator": designator,
                "map_projection_general_information/number_of_lines": str(100 + i),
                "map_projection_general_information/number_of_pixels_per_line": "250",
                "utm_projection/zone_number": "31",
                "ups_projection/scale_factor": "0.994",
                "national_system_projection/projection_descriptor": "LCC",
                "corner_points/projected/top_left_corner/northing": "1.5",
                "corner_points/geographic/bottom_left_corner/longitude": "-3.25",
                "conversion_coefficients/map_projection_to_pixels/A11": "2.25",
                "conversion_coefficients/pixels_to_map_projection/B24": "-1e-3",
            },
        )
        for i in range(n_map)
    )
    pp = _fixed(
        platform_position_record,
        {
            "orbital_elements_designator": "1",
            "datetime_of_first_point/date": date,
            "datetime_of_first_point/day_of_year": "64",
            "datetime_of_first_point/seconds_of_day": seconds_of_day,
            "time_interval_between_data_points": "60.0",
            "occurrence_flag_of_a_leap_second": "0",
        },
    )
    points = b""
    for i in range(n_points):
        p = bytearray(b" " * 120)
        if attitude_values:
            p[0:4] = str(10 + i).rjust(4).encode()
            p[4:12] = str(1000 * (i + 1)).rjust(8).encode()
            p[12:16] = b"   1"
            p[16:20] = b"   0"
            p[24:38] = f"{0.5 * i:14.6f}".encode()
            p[66:70] = b"   0"
            p[78:92] = f"{-0.25 * i:14.6f}".encode()
        points += bytes(p)
    att_len = 12 + 4 + len(points) + 7
    att = _preamble(att_len) + str(n_points).rjust(4).encode() + points + b" " * 7
    rd = _fixed(
        radiometric_data_record, {"calibration_factor": "-83.0"}
    )
    dqs = bytearray(_preamble(1620) + b" " * (1620 - 12))
    dqs[26:30] = str(n_channels).rjust(4).encode()
    dqs[222 : 222 + 16] = b"1.25".ljust(16)
    facs = b""
    for i in range(4):
        length = 66 + 10 * (i + 1)
        body = bytearray(b" " * (length - 12))
        body[0:4] = str(i + 1).rjust(4).encode()
        body[54:] = (b"raw%d" % i).ljust(length - 66)
        facs += _preamble(length, seq=i + 1) + bytes(body)
    f5 = _fixed(
        facility_related_data_5_record,
        {"prf_switching_flag": "1", "calibration_mode_data_location_flag": "2", "record_sequence_number": "5"},
    )
    return fd + ds + mp + pp + att + rd + bytes(dqs) + facs + f5


def plain(obj):
    """canonical, comparable representation of Group / Variable / containers"""
    import numpy as np

    from ceos_alos2.hierarchy import Group, Variable

    if isinstance(obj, Group):
        return (
            "Group",
            obj.path,
            obj.url,
            [(k, plain(v)) for k, v in obj.data.items()],
            plain(obj.attrs),
        )
    if isinstance(obj, Variable):
        return ("Variable", plain(obj.dims), plain(obj.data), plain(obj.attrs))
    if isinstance(obj, np.ndarray):
        return ("ndarray", str(obj.dtype), obj.shape, repr(obj.tolist()))
    if isinstance(obj, dict):
        return ("dict", [(k, plain(v)) for k, v in obj.items()])
    if isinstance(obj, (list, tuple)):
        return (type(obj).__name__, [plain(v) for v in obj])
    return (type(obj).__name__, repr(obj))


def digest(obj):
    import hashlib

    return hashlib.sha256(repr(plain(obj)).encode()).hexdigest()
# ---- end of builder ----


EXPECTED = {'fix/dict/empty': (('returned', True),
                    '40bbd9ccf36d5f994bc0c46939f580b3b7193f7cde2a520e5b5f3696c6421e14',
                    None),
 'fix/group/empty': (('returned', True),
                     '960cda1abafd0031cb1e94c24a945ea07943d0a1a6809438e40d4a57ea78a981',
                     None),
 'fix/dict/only-position': (('returned', True),
                            '59a123e41d7a8dad79f0618d83423b1cbb771400c9e607fa9b5499d3d34664e8',
                            None),
 'fix/group/only-position': (('returned', True),
                             'e7246747bd3ab0f0616d087759c637952411cc85d0744f0fe4a61e901b95d3f5',
                             None),
 'fix/dict/only-attitude': (('returned', True),
                            'c093b873ae11cf96c7185f04778357a5fff2a4d30871c5e3a6ab6afed31d3d0a',
                            [('attitude',
                              "['points'] timedelta64[ns](2,) [19329831000000000, "
                              '20467200000000000] {}'),
                             ('rates', "['points'] timedelta64[ns](2,) [0, 1] {'a': 1}")]),
 'fix/group/only-attitude': (('returned', True),
                             '0f3e02ef96e233c39f7ca710f7a805daf2ca61d1952c4aa9aa9c046fa346ac49',
                             [('attitude',
                               "['points'] timedelta64[ns](2,) [19329831000000000, "
                               '20467200000000000] {}'),
                              ('rates', "['points'] timedelta64[ns](2,) [0, 1] {'a': 1}")]),
 'fix/dict/neither': (('returned', True),
                      '2e1c2568d4cc1f9270ab005a59cf737a1e4115bee809fc31b78e3d19eaaad701',
                      None),
 'fix/group/neither': (('returned', True),
                       '3af6df31fccea5ac5a8863bdaef7d5b1f687075d7694db5743440323159703d7',
                       None),
 'fix/dict/both': (('returned', True),
                   'e838729387c61c24b18090bac1e716165a9a79df09a76adfd6ed08ffadd2fdce',
                   [('attitude',
                     "['points'] datetime64[ns](2,) [524251431000000000, 525388800000000000] {}"),
                    ('rates',
                     "['points'] datetime64[ns](2,) [504921600000000000, 504921600000000001] {'a': "
                     '1}')]),
 'fix/group/both': (('returned', True),
                    '42e3a3687121115e03cf0cd9839e31817dfb368cb39456fee15666f4abc89f9d',
                    [('attitude',
                      "['points'] datetime64[ns](2,) [524251431000000000, 525388800000000000] {}"),
                     ('rates',
                      "['points'] datetime64[ns](2,) [504921600000000000, 504921600000000001] "
                      "{'a': 1}")]),
 'fix/dict/both-reversed': (('returned', True),
                            '13caa69bd76f385369ed0191c3e179cdf677a3b82790cea23ed5be123c8e3a42',
                            [('attitude',
                              "['points'] datetime64[ns](2,) [524251431000000000, "
                              '525388800000000000] {}'),
                             ('rates',
                              "['points'] datetime64[ns](2,) [504921600000000000, "
                              "504921600000000001] {'a': 1}")]),
 'fix/group/both-reversed': (('returned', True),
                             '3fdf66795275f95a16daf96362bb310a561f69904b020a8baf70e6da75af9fa9',
                             [('attitude',
                               "['points'] datetime64[ns](2,) [524251431000000000, "
                               '525388800000000000] {}'),
                              ('rates',
                               "['points'] datetime64[ns](2,) [504921600000000000, "
                               "504921600000000001] {'a': 1}")]),
 'fix/dict/year-2020': (('returned', True),
                        '24c27fcb97710987b6fbcc603a4c6d239117b29e5aaf5c882c33e6309b07b2d7',
                        [('attitude',
                          "['points'] datetime64[ns](2,) [1597166631000000000, "
                          '1598304000000000000] {}'),
                         ('rates',
                          "['points'] datetime64[ns](2,) [1577836800000000000, "
                          "1577836800000000001] {'a': 1}")]),
 'fix/group/year-2020': (('returned', True),
                         '8861b278851a3226b329ea6238c2534ebf58445361ea4b4d334b44f9106b5c5f',
                         [('attitude',
                           "['points'] datetime64[ns](2,) [1597166631000000000, "
                           '1598304000000000000] {}'),
                          ('rates',
                           "['points'] datetime64[ns](2,) [1577836800000000000, "
                           "1577836800000000001] {'a': 1}")]),
 'fix/dict/year-only': (('returned', True),
                        'b2bddf3ea1ac5a5329a6754ea7ef11f37865ebd693b1b2f7c7249f15518e06e7',
                        [('attitude',
                          "['points'] datetime64[ns](2,) [997637031000000000, 998774400000000000] "
                          '{}'),
                         ('rates',
                          "['points'] datetime64[ns](2,) [978307200000000000, 978307200000000001] "
                          "{'a': 1}")]),
 'fix/group/year-only': (('returned', True),
                         'b9cdca2155cb681172695df7ce4a1de8f53d1b5b62fcb52eeda7a3e96a2b6371',
                         [('attitude',
                           "['points'] datetime64[ns](2,) [997637031000000000, 998774400000000000] "
                           '{}'),
                          ('rates',
                           "['points'] datetime64[ns](2,) [978307200000000000, 978307200000000001] "
                           "{'a': 1}")]),
 'fix/dict/no-subgroups': (('returned', True),
                           '5c996b36ecb8387c3906c80d38030f9830c35b8c2a54a5766340413bc57dbaaf',
                           []),
 'fix/group/no-subgroups': (('returned', True),
                            'd485aa3a87a401e484a8f5580e05f0838c8c65389aa0cbb24f30d4020bcbbf0d',
                            []),
 'fix/dict/empty-attitude': (('returned', True),
                             '1b090f696a139680da2bc73f95a0fddc0b316f0c4c27324dbe0b230d45d964be',
                             []),
 'fix/group/empty-attitude': (('returned', True),
                              '5fb4211a0c3fcfba4a23956bd6dcfd3d8e688380bc094a192ee454a66e1d0420',
                              []),
 'fix/dict/no-first-point': (('raised', 'KeyError', "'datetime_of_first_point'"),
                             'f6edf6615b0d2c5eb611288f9e4809b88dcb2ce0e49aba9596ef014e1dfb3db4',
                             [('attitude',
                               "['points'] timedelta64[ns](2,) [19329831000000000, "
                               '20467200000000000] {}'),
                              ('rates', "['points'] timedelta64[ns](2,) [0, 1] {'a': 1}")]),
 'fix/group/no-first-point': (('raised', 'KeyError', "'datetime_of_first_point'"),
                              'de5db688937368e33dcc6811f369f8521be62f6b29f64a082b3074ab782ddae7',
                              [('attitude',
                                "['points'] timedelta64[ns](2,) [19329831000000000, "
                                '20467200000000000] {}'),
                               ('rates', "['points'] timedelta64[ns](2,) [0, 1] {'a': 1}")]),
 'fix/dict/no-first-point-empty-attitude': (('raised', 'KeyError', "'datetime_of_first_point'"),
                                            'e62b2025db8460d4d012810964b3ae209aaaa72641a8e7486e447fc2787976e2',
                                            []),
 'fix/group/no-first-point-empty-attitude': (('raised', 'KeyError', "'datetime_of_first_point'"),
                                             'ad72e364b82bdb2f13b42fc52afc3b55177dab57ebcee1ccf31f99411182b181',
                                             []),
 'fix/dict/first-point-none-value': (('raised',
                                      'TypeError',
                                      "'NoneType' object is not subscriptable"),
                                     '6ba916d90ebb7ee997533759aa6354ed7974ac18f292a27f35844162a182768e',
                                     [('attitude',
                                       "['points'] timedelta64[ns](2,) [19329831000000000, "
                                       '20467200000000000] {}'),
                                      ('rates', "['points'] timedelta64[ns](2,) [0, 1] {'a': 1}")]),
 'fix/group/first-point-none-value': (('raised',
                                       'TypeError',
                                       "'NoneType' object is not subscriptable"),
                                      '2aff12e740cdf7741885c567f49af0cfeab8b434b6e2a31dfce1ad8a52a30805',
                                      [('attitude',
                                        "['points'] timedelta64[ns](2,) [19329831000000000, "
                                        '20467200000000000] {}'),
                                       ('rates',
                                        "['points'] timedelta64[ns](2,) [0, 1] {'a': 1}")]),
 'fix/dict/first-point-int': (('raised', 'TypeError', "'int' object is not subscriptable"),
                              'ac88f618deb745fca4901b8f67961111fa55ab1226e88bc4a70aa74473774fd4',
                              [('attitude',
                                "['points'] timedelta64[ns](2,) [19329831000000000, "
                                '20467200000000000] {}'),
                               ('rates', "['points'] timedelta64[ns](2,) [0, 1] {'a': 1}")]),
 'fix/group/first-point-int': (('raised', 'TypeError', "'int' object is not subscriptable"),
                               'fc96817e2e7f51fa94daba5cf298b551065a97f50f8c4dddb8b284c786e5fbae',
                               [('attitude',
                                 "['points'] timedelta64[ns](2,) [19329831000000000, "
                                 '20467200000000000] {}'),
                                ('rates', "['points'] timedelta64[ns](2,) [0, 1] {'a': 1}")]),
 'fix/dict/first-point-bad-year': (('raised',
                                    'ValueError',
                                    'Error parsing datetime string "abcd-01-01" at position 0'),
                                   '4ae39b342510a9de9b324e29a3fdb4e2aef6de94b65fa9808cffe6f2a45db084',
                                   [('attitude',
                                     "['points'] timedelta64[ns](2,) [19329831000000000, "
                                     '20467200000000000] {}'),
                                    ('rates', "['points'] timedelta64[ns](2,) [0, 1] {'a': 1}")]),
 'fix/group/first-point-bad-year': (('raised',
                                     'ValueError',
                                     'Error parsing datetime string "abcd-01-01" at position 0'),
                                    '7b955c09739509ed2a6ab38b734764e8a4e561844a599c90159e23e8215fa2a4',
                                    [('attitude',
                                      "['points'] timedelta64[ns](2,) [19329831000000000, "
                                      '20467200000000000] {}'),
                                     ('rates', "['points'] timedelta64[ns](2,) [0, 1] {'a': 1}")]),
 'fix/dict/first-point-short': (('returned', True),
                                'c17215c4825c2114621454467db067c97c750a3e458294010d457b9fd566700d',
                                [('attitude',
                                  "['points'] datetime64[ns](2,) [-6208041147871345152, "
                                  '-6206903778871345152] {}'),
                                 ('rates',
                                  "['points'] datetime64[ns](2,) [-6227370978871345152, "
                                  "-6227370978871345151] {'a': 1}")]),
 'fix/group/first-point-short': (('returned', True),
                                 'b9a856d3bf8d6b75dea77a07184af0fa075de0157c5ae5ff68e686d95ad99aa1',
                                 [('attitude',
                                   "['points'] datetime64[ns](2,) [-6208041147871345152, "
                                   '-6206903778871345152] {}'),
                                  ('rates',
                                   "['points'] datetime64[ns](2,) [-6227370978871345152, "
                                   "-6227370978871345151] {'a': 1}")]),
 'fix/dict/first-point-empty': (('returned', True),
                                '53f855ba7e215790914c7aea8596fe7179ddd9dd5ae13e819e7416736610d6c0',
                                [('attitude',
                                  "['points'] datetime64[ns](2,) [-6839193147871345152, "
                                  '-6838055778871345152] {}'),
                                 ('rates',
                                  "['points'] datetime64[ns](2,) [-6858522978871345152, "
                                  "-6858522978871345151] {'a': 1}")]),
 'fix/group/first-point-empty': (('returned', True),
                                 '77d0212914e464da3fa861dcef3bb0b732b474554b001a5103e6af37088c171f',
                                 [('attitude',
                                   "['points'] datetime64[ns](2,) [-6839193147871345152, "
                                   '-6838055778871345152] {}'),
                                  ('rates',
                                   "['points'] datetime64[ns](2,) [-6858522978871345152, "
                                   "-6858522978871345151] {'a': 1}")]),
 'fix/dict/first-point-list': (('raised',
                                'ValueError',
                                'Error parsing datetime string "[\'1\', \'9\', \'8\', '
                                '\'6\']-01-01" at position 0'),
                               '648523f79886d21ccca78da910dcf0c99d7d0ff066d3ccb9b468f53531777e71',
                               [('attitude',
                                 "['points'] timedelta64[ns](2,) [19329831000000000, "
                                 '20467200000000000] {}'),
                                ('rates', "['points'] timedelta64[ns](2,) [0, 1] {'a': 1}")]),
 'fix/group/first-point-list': (('raised',
                                 'ValueError',
                                 'Error parsing datetime string "[\'1\', \'9\', \'8\', '
                                 '\'6\']-01-01" at position 0'),
                                '8977817759b1a5b5d8a06a58072bee9fb47a7c9c6a42ef1c077bc1f2a22bebd1',
                                [('attitude',
                                  "['points'] timedelta64[ns](2,) [19329831000000000, "
                                  '20467200000000000] {}'),
                                 ('rates', "['points'] timedelta64[ns](2,) [0, 1] {'a': 1}")]),
 'fix/dict/second-subgroup-without-time': (('raised', 'KeyError', "'time'"),
                                           'd9133128899056cf7a3692d3277976fc55ac9395de879d98190ed04b0d8970bd',
                                           [('a',
                                             "['points'] datetime64[ns](1,) [504921600000000005] "
                                             '{}'),
                                            ('b', 'NoneType'),
                                            ('c', "['points'] timedelta64[ns](1,) [7] {}")]),
 'fix/group/second-subgroup-without-time': (('raised', 'KeyError', "'time'"),
                                            '0acc3496a3560989a9fa873f0f959847ba63b8c46fed2c9681ec1610aed4064e',
                                            [('a',
                                              "['points'] datetime64[ns](1,) [504921600000000005] "
                                              '{}'),
                                             ('b', 'NoneType'),
                                             ('c', "['points'] timedelta64[ns](1,) [7] {}")]),
 'fix/dict/first-subgroup-without-time': (('raised', 'KeyError', "'time'"),
                                          'e66a9233c75ea60974ec6decf803e8f5b09ceadb66568a5bc04e28e2a04985a5',
                                          [('a', 'NoneType'),
                                           ('b', "['points'] timedelta64[ns](1,) [7] {}")]),
 'fix/group/first-subgroup-without-time': (('raised', 'KeyError', "'time'"),
                                           '85fbdc7e28a3333d1b2cbb796a36278e4d30f2c0bae76bbb72a9f589206c18ce',
                                           [('a', 'NoneType'),
                                            ('b', "['points'] timedelta64[ns](1,) [7] {}")]),
 'fix/dict/time-int-array': (('returned', True),
                             'c5ad28327e0af66a6d438f427c9aa60e5212e3a960fa339072dcfcf5179eea18',
                             [('a',
                               "['points'] datetime64[ns](2,) [504921600000000001, "
                               '504921600000000002] {}')]),
 'fix/group/time-int-array': (('returned', True),
                              'e8742a2937f551ea6af16fbd2421cfda933d624b022b7ab3663b7835482c4470',
                              [('a',
                                "['points'] datetime64[ns](2,) [504921600000000001, "
                                '504921600000000002] {}')]),
 'fix/dict/time-float-array': (('raised',
                                'UFuncTypeError',
                                "ufunc 'add' cannot use operands with types dtype('<M8[ns]') and "
                                "dtype('float64')"),
                               'a9f10f8e284938eda7374ccc2dcac6b7e02630c8a562cc5303d60f65a82bb75e',
                               [('a', "['points'] datetime64[ns](1,) [504921600000000003] {}"),
                                ('b', "['points'] float64(2,) [1.5, 2.0] {}")]),
 'fix/group/time-float-array': (('raised',
                                 'UFuncTypeError',
                                 "ufunc 'add' cannot use operands with types dtype('<M8[ns]') and "
                                 "dtype('float64')"),
                                'a5fad3547cbfe744489789d32da497abb2edf30c0c14f449b87dfeff492fa8b1',
                                [('a', "['points'] datetime64[ns](1,) [504921600000000003] {}"),
                                 ('b', "['points'] float64(2,) [1.5, 2.0] {}")]),
 'fix/dict/time-list': (('returned', True),
                        'c5ad28327e0af66a6d438f427c9aa60e5212e3a960fa339072dcfcf5179eea18',
                        [('a',
                          "['points'] datetime64[ns](2,) [504921600000000001, 504921600000000002] "
                          '{}')]),
 'fix/group/time-list': (('returned', True),
                         'e8742a2937f551ea6af16fbd2421cfda933d624b022b7ab3663b7835482c4470',
                         [('a',
                           "['points'] datetime64[ns](2,) [504921600000000001, 504921600000000002] "
                           '{}')]),
 'fix/dict/time-days': (('returned', True),
                        '12ca9b0b45219eef579213baaeda24cdc6a5818cef2fb696280b09986d020b00',
                        [('a',
                          "['points'] datetime64[ns](2,) [505008000000000000, 508377600000000000] "
                          '{}')]),
 'fix/group/time-days': (('returned', True),
                         '39a40c3e07508587763c075c051b2ff6029c8c177d5ae65e512777c55d6f14af',
                         [('a',
                           "['points'] datetime64[ns](2,) [505008000000000000, 508377600000000000] "
                           '{}')]),
 'fix/dict/time-scalar': (('returned', True),
                          'e3fa327d73cc8bde1d9c659c05bb76cf0ba4abbf03e90de0b35e40b6f4a5b73d',
                          [('a', '() 1986-01-01T00:00:05.000000000 {}')]),
 'fix/group/time-scalar': (('returned', True),
                           '9361fd3313322959a0fdf7d399e6a4b0fb3f1579b399125f1dfb0576a37675e6',
                           [('a', '() 1986-01-01T00:00:05.000000000 {}')]),
 'fix/dict/time-2d': (('returned', True),
                      '4dab30dd82a9420f2225cf889a778b8666a7343d09640382a8fb24088ab0aee4',
                      [('a',
                        "['x', 'y'] datetime64[ns](2, 2) [[504921600000000001, "
                        "504921600000000002], [504921600000000003, 504921600000000004]] {'k': "
                        "'v'}")]),
 'fix/group/time-2d': (('returned', True),
                       '4f9b02b7251172b7c80c23a3fb4e026c9498c7f79e49f4cc8df1c0fc6898469d',
                       [('a',
                         "['x', 'y'] datetime64[ns](2, 2) [[504921600000000001, "
                         "504921600000000002], [504921600000000003, 504921600000000004]] {'k': "
                         "'v'}")]),
 'fix/dict/time-is-group': (('raised',
                             'UFuncTypeError',
                             "ufunc 'add' cannot use operands with types dtype('<M8[ns]') and "
                             "dtype('O')"),
                            '8e17f18f17ac1dbc83c402478d1be41748c1ae17a59f164a7e6534222d4aece2',
                            [('a', 'Group')]),
 'fix/group/time-is-group': (('raised',
                              'UFuncTypeError',
                              "ufunc 'add' cannot use operands with types dtype('<M8[ns]') and "
                              "dtype('O')"),
                             'c376a830fe1f1357d7fb9dc18665f31e190d01b5d972fe2c89d2ea3f848dae8d',
                             [('a', 'Group')]),
 'fix/dict/attitude-is-dict': (('raised',
                                'AttributeError',
                                "'dict' object has no attribute 'groups'"),
                               '9048d9245731c54b1f7c2be1fad883d22f89f73b152cb974ed3285c7d4d3032a',
                               None),
 'fix/group/attitude-is-dict': (('raised',
                                 'AttributeError',
                                 "'dict' object has no attribute 'groups'"),
                                '80e5c595150bcdd82f449a7aa59e96c10fb32b91469a75ba0ed86619d151acab',
                                None),
 'fix/dict/attitude-is-none': (('raised',
                                'AttributeError',
                                "'NoneType' object has no attribute 'groups'"),
                               'b60071755582225b1cbc5730bfd11ea421a9c0787e736b518f32c16aca826e13',
                               None),
 'fix/group/attitude-is-none': (('raised',
                                 'AttributeError',
                                 "'NoneType' object has no attribute 'groups'"),
                                '72eaf2e5c3618a120115e15260512fa5c91e5ab3c491e215e23fda4b669c3ebe',
                                None),
 'fix/dict/position-is-dict': (('raised',
                                'AttributeError',
                                "'dict' object has no attribute 'attrs'"),
                               '2630abeb4ca01c54d7633d06a3c4ecb499607a408af881eca8128f0d483d7db4',
                               [('attitude',
                                 "['points'] timedelta64[ns](2,) [19329831000000000, "
                                 '20467200000000000] {}'),
                                ('rates', "['points'] timedelta64[ns](2,) [0, 1] {'a': 1}")]),
 'fix/group/position-is-dict': (('raised',
                                 'AttributeError',
                                 "'dict' object has no attribute 'attrs'"),
                                '7e215fc3ca0b1a663ca80ee3a5785dc32c94b760b141a4b494b839025ee0f1b9',
                                [('attitude',
                                  "['points'] timedelta64[ns](2,) [19329831000000000, "
                                  '20467200000000000] {}'),
                                 ('rates', "['points'] timedelta64[ns](2,) [0, 1] {'a': 1}")]),
 'fix/dict/position-is-none': (('raised',
                                'AttributeError',
                                "'NoneType' object has no attribute 'attrs'"),
                               'a59cded4d6f971769e21601605b3d8c994f5c33a8611023c9ebda03a4c2d9fd6',
                               [('attitude',
                                 "['points'] timedelta64[ns](2,) [19329831000000000, "
                                 '20467200000000000] {}'),
                                ('rates', "['points'] timedelta64[ns](2,) [0, 1] {'a': 1}")]),
 'fix/group/position-is-none': (('raised',
                                 'AttributeError',
                                 "'NoneType' object has no attribute 'attrs'"),
                                '436a6702817d00294757a872994b3fb7e062e1579ac51a800ad7a0e4364fa3cf',
                                [('attitude',
                                  "['points'] timedelta64[ns](2,) [19329831000000000, "
                                  '20467200000000000] {}'),
                                 ('rates', "['points'] timedelta64[ns](2,) [0, 1] {'a': 1}")]),
 'fix/dict/position-is-none-no-attitude': (('returned', True),
                                           'c47c1456ee5f77b152f0bab7fdadb2d80a0a80ac081745ba8cc600bf6558a386',
                                           None),
 'fix/group/position-is-none-no-attitude': (('returned', True),
                                            'd9571d24ec1135f51e925d8ba6a1b442af66651799f77b0560c65711d8bad771',
                                            None),
 'lookups/empty': ('returned', [('contains', 'platform_position'), ('items',)]),
 'lookups/only-position': ('returned',
                           [('contains', 'platform_position'),
                            ('contains', 'attitude'),
                            ('items',)]),
 'lookups/only-attitude': ('returned', [('contains', 'platform_position'), ('items',)]),
 'lookups/neither': ('returned', [('contains', 'platform_position'), ('items',)]),
 'lookups/both': ('returned',
                  [('contains', 'platform_position'),
                   ('contains', 'attitude'),
                   ('getitem', 'platform_position'),
                   ('getitem', 'attitude'),
                   ('items',)]),
 'lookups/both-reversed': ('returned',
                           [('contains', 'platform_position'),
                            ('contains', 'attitude'),
                            ('getitem', 'platform_position'),
                            ('getitem', 'attitude'),
                            ('items',)]),
 'lookups/no-first-point': ('raised',
                            [('contains', 'platform_position'),
                             ('contains', 'attitude'),
                             ('getitem', 'platform_position')]),
 'lookups/first-point-bad-year': ('raised',
                                  [('contains', 'platform_position'),
                                   ('contains', 'attitude'),
                                   ('getitem', 'platform_position')]),
 'lookups/attitude-is-dict': ('raised',
                              [('contains', 'platform_position'),
                               ('contains', 'attitude'),
                               ('getitem', 'platform_position'),
                               ('getitem', 'attitude')]),
 'lookups/position-is-none': ('raised',
                              [('contains', 'platform_position'),
                               ('contains', 'attitude'),
                               ('getitem', 'platform_position')]),
 'lookups/position-is-none-no-attitude': ('returned',
                                          [('contains', 'platform_position'),
                                           ('contains', 'attitude'),
                                           ('items',)]),
 'lookups/second-subgroup-without-time': ('raised',
                                          [('contains', 'platform_position'),
                                           ('contains', 'attitude'),
                                           ('getitem', 'platform_position'),
                                           ('getitem', 'attitude')]),
 'metadata/full': ('returned',
                   'aad2ccadb302e342ae7ddc59aa0aa45b638153ee64032bcecf4f2214a9f4f5a2',
                   ['dataset_summary',
                    'map_projection',
                    'platform_position',
                    'attitude',
                    'radiometric_data',
                    'data_quality_summary',
                    'transformations'],
                   ('dict', []),
                   '/',
                   [('attitude',
                     "['points'] datetime64[ns](2,) [1578700801000000000, 1578787202000000000] {}"),
                    ('rates',
                     "['points'] datetime64[ns](2,) [1578700801000000000, 1578787202000000000] "
                     '{}')]),
 'metadata/empty': ('returned',
                    '24d0cce9cc7f3f0ef841e50aeefa91047fe80d4adf2a7c6bf3c5670b0a5a0f78',
                    [],
                    ('dict', []),
                    '/',
                    None),
 'metadata/only-ignored': ('returned',
                           '2112719acc00e9791896f8b722b7633cf05a0a51f406e4cddda83bf2757dd8fa',
                           ['transformations'],
                           ('dict', []),
                           '/',
                           None),
 'metadata/only-record5': ('returned',
                           'e3d49946ae84ceab93e59274dfde9c544fddbfa5f232b74383ba228a5fa96b9e',
                           ['transformations'],
                           ('dict', []),
                           '/',
                           None),
 'metadata/no-attitude': ('returned',
                          'b79425f307c995403f99b8006819a7a7cf16958ac837a294edd7298da306b8f3',
                          ['dataset_summary',
                           'map_projection',
                           'platform_position',
                           'radiometric_data',
                           'data_quality_summary',
                           'transformations'],
                          ('dict', []),
                          '/',
                          None),
 'metadata/no-position': ('returned',
                          'f455ef895c8304701e3f45bb5045f18e75899c8721c11b6f2e406a890ea8372c',
                          ['dataset_summary',
                           'map_projection',
                           'attitude',
                           'radiometric_data',
                           'data_quality_summary',
                           'transformations'],
                          ('dict', []),
                          '/',
                          [('attitude',
                            "['points'] timedelta64[ns](2,) [864001000000000, 950402000000000] {}"),
                           ('rates',
                            "['points'] timedelta64[ns](2,) [864001000000000, 950402000000000] "
                            '{}')]),
 'metadata/no-position-no-attitude': ('returned',
                                      '31252e1ff38b1748bf4c4dc4c83462974c569d0241e4a0700e23f4de82700a85',
                                      ['dataset_summary',
                                       'map_projection',
                                       'radiometric_data',
                                       'data_quality_summary',
                                       'transformations'],
                                      ('dict', []),
                                      '/',
                                      None),
 'metadata/only-position-and-attitude': ('returned',
                                         'fbdcf2bdcebbb17e3291ff8eb5ce093cc53ee6e46a0c67b144398b1e598f6c1b',
                                         ['attitude', 'platform_position'],
                                         ('dict', []),
                                         '/',
                                         [('attitude',
                                           "['points'] datetime64[ns](2,) [1578700801000000000, "
                                           '1578787202000000000] {}'),
                                          ('rates',
                                           "['points'] datetime64[ns](2,) [1578700801000000000, "
                                           '1578787202000000000] {}')]),
 'metadata/empty-records': ('returned',
                            '72c6e4631cc5b8e453f1e70d6c5649576bdf0216ae6b0efc335d9e29929eb698',
                            ['platform_position', 'data_quality_summary', 'transformations'],
                            ('dict', []),
                            '/',
                            None),
 'metadata/empty-position': ('returned',
                             'f455ef895c8304701e3f45bb5045f18e75899c8721c11b6f2e406a890ea8372c',
                             ['dataset_summary',
                              'map_projection',
                              'attitude',
                              'radiometric_data',
                              'data_quality_summary',
                              'transformations'],
                             ('dict', []),
                             '/',
                             [('attitude',
                               "['points'] timedelta64[ns](2,) [864001000000000, 950402000000000] "
                               '{}'),
                              ('rates',
                               "['points'] timedelta64[ns](2,) [864001000000000, 950402000000000] "
                               '{}')]),
 'metadata/two-map-projections': ('returned',
                                  'aad2ccadb302e342ae7ddc59aa0aa45b638153ee64032bcecf4f2214a9f4f5a2',
                                  ['dataset_summary',
                                   'map_projection',
                                   'platform_position',
                                   'attitude',
                                   'radiometric_data',
                                   'data_quality_summary',
                                   'transformations'],
                                  ('dict', []),
                                  '/',
                                  [('attitude',
                                    "['points'] datetime64[ns](2,) [1578700801000000000, "
                                    '1578787202000000000] {}'),
                                   ('rates',
                                    "['points'] datetime64[ns](2,) [1578700801000000000, "
                                    '1578787202000000000] {}')]),
 'metadata/bad-map-projection': ('raised',
                                 'ValueError',
                                 'not enough values to unpack (expected 2, got 1)'),
 'metadata/map-projection-not-a-list': ('raised',
                                        'AttributeError',
                                        "'str' object has no attribute 'items'"),
 'metadata/bad-attitude': ('raised', 'AttributeError', "'list' object has no attribute 'keys'"),
 'metadata/bad-attitude-no-points': ('raised', 'KeyError', "'data_points'"),
 'metadata/bad-position-date': ('raised',
                                'ValueError',
                                "time data 'x' does not match format '%Y-%m-%d'"),
 'metadata/unknown-record': ('returned',
                             'f0491290b2fde87c27f58279802f427651b389a13117ff630d2fd93956838f44',
                             ['dataset_summary',
                              'map_projection',
                              'platform_position',
                              'attitude',
                              'radiometric_data',
                              'data_quality_summary',
                              'transformations',
                              'extra_record',
                              'another'],
                             ('dict', []),
                             '/',
                             [('attitude',
                               "['points'] datetime64[ns](2,) [1578700801000000000, "
                               '1578787202000000000] {}'),
                              ('rates',
                               "['points'] datetime64[ns](2,) [1578700801000000000, "
                               '1578787202000000000] {}')]),
 'metadata/unknown-record-only': ('returned',
                                  'd18753a36cb97b55ad22008287895c0020730fdc99b72db2790f213906d029e8',
                                  ['extra'],
                                  ('dict', []),
                                  '/',
                                  None),
 'metadata/none': ('raised', 'AttributeError', "'NoneType' object has no attribute 'items'"),
 'metadata/list': ('raised', 'AttributeError', "'list' object has no attribute 'items'"),
 'metadata/blank-attitude': ('returned',
                             'df929657643b771604f1b084e823ad992b6e680765da21f668aa57950c9f5d98',
                             ['dataset_summary',
                              'map_projection',
                              'platform_position',
                              'attitude',
                              'radiometric_data',
                              'data_quality_summary',
                              'transformations'],
                             ('dict', []),
                             '/',
                             [('attitude',
                               "['points'] datetime64[ns](2,) [1577750399999000000, "
                               '1577750399999000000] {}'),
                              ('rates',
                               "['points'] datetime64[ns](2,) [1577750399999000000, "
                               '1577750399999000000] {}')]),
 'metadata/single-point': ('returned',
                           '2992ea018b75769971c7ba586690c66dba7c4d6178e800f592aba6d187694815',
                           ['dataset_summary',
                            'map_projection',
                            'platform_position',
                            'attitude',
                            'radiometric_data',
                            'data_quality_summary',
                            'transformations'],
                           ('dict', []),
                           '/',
                           [('attitude', "['points'] datetime64[ns](1,) [1578700801000000000] {}"),
                            ('rates', "['points'] datetime64[ns](1,) [1578700801000000000] {}")]),
 'metadata/other-year': ('returned',
                         '61287027b0fada54345fefdc902b69b2608306b2e6521708df2c74f55a3bc53c',
                         ['dataset_summary',
                          'map_projection',
                          'platform_position',
                          'attitude',
                          'radiometric_data',
                          'data_quality_summary',
                          'transformations'],
                         ('dict', []),
                         '/',
                         [('attitude',
                           "['points'] datetime64[ns](2,) [916012801000000000, 916099202000000000] "
                           '{}'),
                          ('rates',
                           "['points'] datetime64[ns](2,) [916012801000000000, 916099202000000000] "
                           '{}')]),
 'leader/default': ('returned', 'aad2ccadb302e342ae7ddc59aa0aa45b638153ee64032bcecf4f2214a9f4f5a2'),
 'leader-time/default': "['points'] datetime64[ns](2,) [1578700801000000000, 1578787202000000000] "
                        '{}',
 'leader/n_map=0': ('returned', 'e650abc55251cb8de9ee5073890be033ffafe7c9baaffca50ff010c09bbf390c'),
 'leader-time/n_map=0': "['points'] datetime64[ns](2,) [1578700801000000000, 1578787202000000000] "
                        '{}',
 'leader/lcc2': ('returned', 'e4818c2d0af1a14065e36fbe0b2495f90aef495242f72c1f4bce92909bf85378'),
 'leader-time/lcc2': "['points'] datetime64[ns](2,) [1578700801000000000, 1578787202000000000] {}",
 'leader/blank-attitude': ('returned',
                           'df929657643b771604f1b084e823ad992b6e680765da21f668aa57950c9f5d98'),
 'leader-time/blank-attitude': "['points'] datetime64[ns](2,) [1577750399999000000, "
                               '1577750399999000000] {}',
 'leader/one-channel': ('returned',
                        '586a04bbe831bda31b85c0cca383310735a13764291380d116a6782e95cc1c98'),
 'leader-time/one-channel': "['points'] datetime64[ns](2,) [1578700801000000000, "
                            '1578787202000000000] {}',
 'leader/other-year': ('returned',
                       '7ee22e0bc00a7b7c583b38854c18861e830dfd9956a416fbbc25d13507b46ccd'),
 'leader-time/other-year': "['points'] datetime64[ns](2,) [1925856001000000000, "
                           '1925942402000000000] {}',
 'leader/bad-date': ('raised',
                     'ValueError',
                     "time data '2020-13-01' does not match format '%Y-%m-%d'"),
 'leader/no-points': ('raised', 'AttributeError', "'list' object has no attribute 'keys'")}
OBSERVED = {}


def outcome(func, *args):
    try:
        result = func(*args)
    except Exception as e:
        return ("raised", type(e).__name__, str(e))
    return ("returned", plain(result))


def check(key, value):
    assert key not in OBSERVED, key
    OBSERVED[key] = value
    if "--record" in sys.argv:
        return
    assert EXPECTED[key] == value, (key, EXPECTED[key], value)


def timedeltas(*values):
    return np.array(values, dtype="timedelta64[ns]")


def time_variable(data, attrs=None):
    return Variable("points", data, {} if attrs is None else attrs)


def subgroup(time=None, **others):
    data = dict(others)
    if time is not None:
        data["time"] = time
    return Group(path=None, url=None, data=data, attrs={"coordinates": ["time"]})


def position(first_point="1986-05-24T16:52:01", **attrs):
    if first_point is not None:
        attrs["datetime_of_first_point"] = first_point
    return Group(path=None, url=None, data={}, attrs=attrs)


def attitude(**subgroups):
    return Group(path=None, url=None, data=subgroups, attrs={})


def default_attitude():
    return attitude(
        attitude=subgroup(
            time_variable(timedeltas(19329831000000000, 20467200000000000)),
            pitch=Variable("points", [1.0, 2.0], {"units": "deg"}),
        ),
        rates=subgroup(time_variable(timedeltas(0, 1), {"a": 1})),
    )


def group_cases():
    """name -> factory of the `data` dict (built anew for each use)"""
    return {
        "empty": lambda: {},
        "only-position": lambda: {"platform_position": position()},
        "only-attitude": lambda: {"attitude": default_attitude()},
        "neither": lambda: {"dataset_summary": position(), "x": attitude()},
        "both": lambda: {"platform_position": position(), "attitude": default_attitude()},
        "both-reversed": lambda: {"attitude": default_attitude(), "platform_position": position()},
        "year-2020": lambda: {
            "platform_position": position("2020-12-31T23:59:59.999999"),
            "attitude": default_attitude(),
        },
        "year-only": lambda: {"platform_position": position("2001"), "attitude": default_attitude()},
        "no-subgroups": lambda: {
            "platform_position": position(),
            "attitude": attitude(time=time_variable(timedeltas(1))),
        },
        "empty-attitude": lambda: {"platform_position": position(), "attitude": attitude()},
        "no-first-point": lambda: {
            "platform_position": position(None, other=1),
            "attitude": default_attitude(),
        },
        "no-first-point-empty-attitude": lambda: {
            "platform_position": position(None),
            "attitude": attitude(),
        },
        "first-point-none-value": lambda: {
            "platform_position": Group(
                path=None, url=None, data={}, attrs={"datetime_of_first_point": None}
            ),
            "attitude": default_attitude(),
        },
        "first-point-int": lambda: {
            "platform_position": position(19860524),
            "attitude": default_attitude(),
        },
        "first-point-bad-year": lambda: {
            "platform_position": position("abcd-05-24"),
            "attitude": default_attitude(),
        },
        "first-point-short": lambda: {
            "platform_position": position("19"),
            "attitude": default_attitude(),
        },
        "first-point-empty": lambda: {
            "platform_position": position(""),
            "attitude": default_attitude(),
        },
        "first-point-list": lambda: {
            "platform_position": position(["1", "9", "8", "6", "x"]),
            "attitude": default_attitude(),
        },
        "second-subgroup-without-time": lambda: {
            "platform_position": position(),
            "attitude": attitude(
                a=subgroup(time_variable(timedeltas(5))),
                b=subgroup(None, pitch=Variable("points", [1.0], {})),
                c=subgroup(time_variable(timedeltas(7))),
            ),
        },
        "first-subgroup-without-time": lambda: {
            "platform_position": position(),
            "attitude": attitude(
                a=subgroup(None),
                b=subgroup(time_variable(timedeltas(7))),
            ),
        },
        "time-int-array": lambda: {
            "platform_position": position(),
            "attitude": attitude(a=subgroup(time_variable(np.array([1, 2])))),
        },
        "time-float-array": lambda: {
            "platform_position": position(),
            "attitude": attitude(
                a=subgroup(time_variable(timedeltas(3))),
                b=subgroup(time_variable(np.array([1.5, 2.0]))),
            ),
        },
        "time-list": lambda: {
            "platform_position": position(),
            "attitude": attitude(a=subgroup(time_variable([1, 2]))),
        },
        "time-days": lambda: {
            "platform_position": position(),
            "attitude": attitude(
                a=subgroup(time_variable(np.array([1, 40], dtype="timedelta64[D]")))
            ),
        },
        "time-scalar": lambda: {
            "platform_position": position(),
            "attitude": attitude(a=subgroup(Variable((), np.timedelta64(5, "s"), {}))),
        },
        "time-2d": lambda: {
            "platform_position": position(),
            "attitude": attitude(
                a=subgroup(Variable(["x", "y"], timedeltas(1, 2, 3, 4).reshape(2, 2), {"k": "v"}))
            ),
        },
        "time-is-group": lambda: {
            "platform_position": position(),
            "attitude": attitude(a=subgroup(subgroup(None))),
        },
        "attitude-is-dict": lambda: {"platform_position": position(), "attitude": {"a": 1}},
        "attitude-is-none": lambda: {"platform_position": position(), "attitude": None},
        "position-is-dict": lambda: {
            "platform_position": {"datetime_of_first_point": "1986"},
            "attitude": default_attitude(),
        },
        "position-is-none": lambda: {"platform_position": None, "attitude": default_attitude()},
        "position-is-none-no-attitude": lambda: {"platform_position": None},
    }


def as_root(data):
    return Group(path=None, url=None, data=data, attrs={"root": True})


def hashed(plain_value):
    import hashlib

    return hashlib.sha256(repr(plain_value).encode()).hexdigest()


def times_of(group):
    """the (possibly partially fixed) time variables of the attitude subgroups"""
    att = group["attitude"] if "attitude" in group else None
    if not isinstance(att, Group):
        return None
    return [
        (name, compact(sub.data.get("time")))
        for name, sub in att.data.items()
        if isinstance(sub, Group)
    ]


def compact(var):
    if not isinstance(var, Variable):
        return type(var).__name__
    data = var.data
    if isinstance(data, np.ndarray):
        data = "%s%s %s" % (data.dtype, data.shape, data.tolist())
    return "%r %s %r" % (var.dims, data, var.attrs)


def test_fix_attitude_time():
    for name, factory in group_cases().items():
        for kind, wrap in [("dict", lambda data: data), ("group", as_root)]:
            group = wrap(factory())
            result = outcome(metadata.fix_attitude_time, group)
            if result[0] == "returned":
                result = ("returned", digest(group) == hashed(result[1]))
            # what was returned / raised, and the state the input is left in
            check("fix/%s/%s" % (kind, name), (result, digest(group), times_of(group)))

    # same object back, modified in place, dims / attrs objects reused
    data = group_cases()["both"]()
    sub = data["attitude"]["rates"]
    old_time = sub.data["time"]
    result = metadata.fix_attitude_time(data)
    assert result is data
    assert data["attitude"]["rates"] is sub
    new_time = sub.data["time"]
    assert new_time is not old_time and type(new_time) is Variable
    assert new_time.dims is old_time.dims and new_time.attrs is old_time.attrs
    assert new_time.data.dtype == np.dtype("datetime64[ns]")
    assert old_time.data.dtype == np.dtype("timedelta64[ns]")
    pitch = data["attitude"]["attitude"].data["pitch"]
    assert pitch == Variable("points", [1.0, 2.0], {"units": "deg"})

    for name in ["only-position", "only-attitude", "neither", "empty"]:
        data = group_cases()[name]()
        before = plain(data)
        assert metadata.fix_attitude_time(data) is data
        assert plain(data) == before
        root = as_root(group_cases()[name]())
        assert metadata.fix_attitude_time(root) is root


class Recording(dict):
    """dict recording the lookups done on it"""

    def __init__(self, *args, **kwargs):
        super().__init__(*args, **kwargs)
        self.log = []

    def __contains__(self, key):
        self.log.append(("contains", key))
        return super().__contains__(key)

    def __getitem__(self, key):
        self.log.append(("getitem", key))
        return super().__getitem__(key)

    def get(self, key, default=None):
        self.log.append(("get", key))
        return super().get(key, default)

    def keys(self):
        self.log.append(("keys",))
        return super().keys()

    def items(self):
        self.log.append(("items",))
        return super().items()

    def values(self):
        self.log.append(("values",))
        return super().values()

    def __iter__(self):
        self.log.append(("iter",))
        return super().__iter__()


def test_lookup_order():
    for name in [
        "empty",
        "only-position",
        "only-attitude",
        "neither",
        "both",
        "both-reversed",
        "no-first-point",
        "first-point-bad-year",
        "attitude-is-dict",
        "position-is-none",
        "position-is-none-no-attitude",
        "second-subgroup-without-time",
    ]:
        group = Recording(group_cases()[name]())
        result = outcome(metadata.fix_attitude_time, group)
        check("lookups/" + name, (result[0], group.log))


def parsed(**kwargs):
    return io.parse_data(build_leader(**kwargs))


def test_transform_metadata():
    full = parsed()

    def variant(drop=(), **replace):
        mapping = {k: copy.deepcopy(v) for k, v in full.items() if k not in drop}
        mapping.update(replace)
        return mapping

    cases = {
        "full": variant(),
        "empty": {},
        "only-ignored": variant(
            drop=[k for k in full if not (k.startswith("facility_related_data_") or k == "file_descriptor")]
        ),
        "only-record5": {"facility_related_data_5": {"prf_switching_flag": 0}},
        "no-attitude": variant(drop=["attitude"]),
        "no-position": variant(drop=["platform_position"]),
        "no-position-no-attitude": variant(drop=["platform_position", "attitude"]),
        "only-position-and-attitude": {
            "attitude": copy.deepcopy(full["attitude"]),
            "platform_position": copy.deepcopy(full["platform_position"]),
        },
        "empty-records": variant(
            attitude={}, map_projection=[], dataset_summary=None, radiometric_data=0
        ),
        "empty-position": variant(platform_position={}),
        "two-map-projections": variant(
            map_projection=[
                copy.deepcopy(full["map_projection"][0]),
                {"map_projection_designator": "nodash"},
            ]
        ),
        "bad-map-projection": variant(map_projection=[{"map_projection_designator": "nodash"}]),
        "map-projection-not-a-list": variant(map_projection={"a": 1}),
        "bad-attitude": variant(attitude={"number_of_points": 0, "data_points": []}),
        "bad-attitude-no-points": variant(attitude={"number_of_points": 0}),
        "bad-position-date": variant(
            platform_position=dict(
                copy.deepcopy(full["platform_position"]),
                datetime_of_first_point={"date": "x", "day_of_year": 1, "seconds_of_day": 0.0},
            )
        ),
        "unknown-record": variant(extra_record={"a": 1}, another=[1, 2]),
        "unknown-record-only": {"extra": {"a": 1}},
        "none": None,
        "list": [("attitude", {})],
        "blank-attitude": parsed(attitude_values=False),
        "single-point": parsed(n_points=1),
        "other-year": parsed(date="1999 12 31"),
    }
    for name, mapping in cases.items():
        def run():
            return metadata.transform_metadata(mapping)

        try:
            group = run()
        except Exception as e:
            check("metadata/" + name, ("raised", type(e).__name__, str(e)))
            continue
        times = times_of(group)
        check(
            "metadata/" + name,
            ("returned", digest(group), list(group.data), plain(group.attrs), group.path, times),
        )


def test_postprocessors_are_looked_up_at_call_time():
    calls = []
    replacement = {"replaced": Group(path=None, url=None, data={}, attrs={"x": 1})}

    def fake_fix(groups):
        calls.append(groups)
        return replacement

    original = metadata.fix_attitude_time
    metadata.fix_attitude_time = fake_fix
    try:
        result = metadata.transform_metadata({"facility_related_data_5": {"prf_switching_flag": 1}})
    finally:
        metadata.fix_attitude_time = original

    assert len(calls) == 1
    assert type(calls[0]) is dict and list(calls[0]) == ["transformations"]
    assert calls[0]["transformations"].attrs == {"prf_switching": True}
    assert type(result) is Group and list(result.data) == ["replaced"]
    assert result["replaced"].attrs == {"x": 1} and result["replaced"].path == "/replaced"
    assert result.attrs == {} and result.path == "/" and result.url is None

    # an error in a post-processor propagates untouched
    error = KeyError("boom")

    def failing_fix(groups):
        raise error

    metadata.fix_attitude_time = failing_fix
    try:
        try:
            metadata.transform_metadata({})
        except KeyError as e:
            assert e is error and e.__cause__ is None and e.__context__ is None
        else:
            raise AssertionError("did not raise")
    finally:
        metadata.fix_attitude_time = original


def test_whole_leader():
    variants = {
        "default": {},
        "n_map=0": dict(n_map=0),
        "lcc2": dict(n_map=2, designator="LCC-XX"),
        "blank-attitude": dict(attitude_values=False),
        "one-channel": dict(n_channels=1),
        "other-year": dict(date="2031 01 01"),
        "bad-date": dict(date="2020 13 01"),
        "no-points": dict(n_points=0),
    }
    for name, kwargs in variants.items():
        binary = build_leader(**kwargs)
        try:
            group = io.open_sar_leader({"LED": binary}, "LED")
        except Exception as e:
            check("leader/" + name, ("raised", type(e).__name__, str(e)))
            continue
        check("leader/" + name, ("returned", digest(group)))
        check("leader-time/" + name, compact(group["attitude"]["rates"].data["time"]))


def test_public_names():
    for name in [
        "fix_attitude_time",
        "transform_metadata",
        "np",
        "valfilter",
        "compose_left",
        "curry",
        "pipe",
        "first",
        "apply_to_items",
        "dissoc",
        "Group",
        "Variable",
        "transform_attitude",
        "transform_data_quality_summary",
        "transform_dataset_summary",
        "transform_record5",
        "transform_map_projection",
        "transform_platform_position",
        "transform_radiometric_data",
        "rename",
    ]:
        assert hasattr(metadata, name), name
    assert io.transform_metadata is metadata.transform_metadata


TESTS = [
    test_fix_attitude_time,
    test_lookup_order,
    test_transform_metadata,
    test_postprocessors_are_looked_up_at_call_time,
    test_whole_leader,
    test_public_names,
]

if __name__ == "__main__":
    for test in TESTS:
        test()
    if "--record" in sys.argv:
        import pprint

        print("EXPECTED = " + pprint.pformat(OBSERVED, width=100, sort_dicts=False))
    else:
        print("OK: %d check groups, %d recorded values" % (len(TESTS), len(OBSERVED)))
