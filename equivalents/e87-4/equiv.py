"""Equivalence check for refactoring 4 (`ceos_alos2.sar_trailer.read_sar_trailer`).

Run as a script (`python _eq/4/equiv.py`) or through pytest. `python _eq/4/equiv.py --record`
prints the table of expected outcomes; the table below was recorded from the UNCHANGED code.
"""

import io
import struct
import sys
import warnings

import fsspec
import numpy as np

from ceos_alos2 import sar_trailer
from ceos_alos2.sar_trailer import read_sar_trailer
from ceos_alos2.utils import to_dict


def describe_exception(exc):
    chain = []
    while exc is not None:
        chain.append((type(exc).__name__, str(exc), exc.__suppress_context__))
        exc = exc.__cause__
    return chain


def describe_image(image):
    return (
        type(image).__name__,
        image.dtype.str,
        image.shape,
        image.tolist(),
        bool(image.flags.writeable),
        bool(image.flags.c_contiguous),
    )


def describe_header(header):
    as_dict = to_dict(header)
    interesting = {
        "preamble": as_dict["preamble"],
        "number_of_low_resolution_images": as_dict["number_of_low_resolution_images"],
        "low_resolution_image_sizes": as_dict["low_resolution_image_sizes"],
        "blanks": len(as_dict["blanks"]),
    }
    return (type(header).__name__, list(as_dict), repr(interesting))


def describe(result):
    assert type(result) is tuple and len(result) == 2
    header, images = result
    return (describe_header(header), type(images).__name__, [describe_image(i) for i in images])


class RecordingFile(io.BytesIO):
    """in-memory file that keeps track of the requests"""

    def __init__(self, content):
        super().__init__(content)
        self.requests = []

    def read(self, *args):
        before = self.tell()
        result = super().read(*args)
        self.requests.append(("read", args, before, self.tell()))
        return result

    def seek(self, *args):
        self.requests.append(("seek", args))
        return super().seek(*args)


def outcome(content):
    f = RecordingFile(content)
    with warnings.catch_warnings(record=True) as caught:
        warnings.simplefilter("always")
        try:
            result = read_sar_trailer(f)
        except Exception as e:
            described = ("raise", describe_exception(e))
        else:
            described = ("ok", describe(result))

    caught = [(w.category.__name__, str(w.message)) for w in caught]
    return (described, f.requests, f.closed, caught)


# --- synthetic trailer files ----------------------------------------------------------


def field(value, width):
    if value is None:
        return b" " * width
    if isinstance(value, bytes):
        assert len(value) == width
        return value
    encoded = str(value).rjust(width).encode("ascii")
    assert len(encoded) == width, (value, width)
    return encoded


def make_header(sizes, n=..., length=720):
    """sizes: (record_length, number_of_pixels, number_of_lines, bytes_per_sample)"""
    buffer = bytearray(b" " * 720)
    buffer[0:12] = struct.pack(">IBBBBI", 1, 63, 192, 18, 18, 720)
    buffer[12:14] = b"A "
    buffer[16:28] = b"CEOS-SAR    "
    buffer[44:48] = b"   4"
    buffer[48:64] = b"AL2 SARTRAILER  "
    if n is ...:
        n = len(sizes)
    buffer[490:496] = field(n, 6)
    for index, (record_length, n_pixels, n_lines, n_bytes) in enumerate(sizes):
        start = 496 + 26 * index
        record = (
            field(record_length, 8) + field(n_pixels, 6) + field(n_lines, 6) + field(n_bytes, 6)
        )
        assert start + 26 <= 720
        buffer[start : start + 26] = record
    return bytes(buffer[:length])


def make_image(shape, n_bytes, offset=0):
    size = shape[0] * shape[1]
    values = np.arange(size, dtype="int64") * 37 - size * 11 + offset
    if n_bytes < 8:
        limit = 2 ** (8 * n_bytes - 1)
        values = (values + limit) % (2 * limit) - limit
    return values.astype(f">i{n_bytes}").tobytes()


def make_file(images, extra=b"", **kwargs):
    """images: (shape, n_bytes)"""
    sizes = []
    contents = []
    for index, (shape, n_bytes) in enumerate(images):
        content = make_image(shape, n_bytes, offset=index)
        sizes.append((len(content), shape[0], shape[1], n_bytes))
        contents.append(content)
    return make_header(sizes, **kwargs) + b"".join(contents) + extra


CASES = {
    # no images
    "none": make_file([]),
    "none-trailing": make_file([], extra=b"\x01\x02\x03"),
    "none-but-sizes": make_header([(12, 2, 3, 2)], n=0) + make_image((2, 3), 2),
    # a single image
    "one-i1": make_file([((2, 3), 1)]),
    "one-i2": make_file([((2, 3), 2)]),
    "one-i4": make_file([((3, 2), 4)]),
    "one-i8": make_file([((1, 5), 8)]),
    "one-row": make_file([((1, 1), 2)]),
    "one-column": make_file([((7, 1), 2)]),
    "one-large": make_file([((12, 9), 2)]),
    "one-trailing": make_file([((2, 3), 2)], extra=b"\xff" * 5),
    "one-empty": make_file([((0, 0), 2)]),
    "one-empty-rows": make_file([((0, 4), 2)]),
    "one-empty-trailing": make_file([((0, 0), 2)], extra=b"\x00\x01"),
    # several images
    "two": make_file([((2, 3), 2), ((4, 5), 2)]),
    "two-mixed": make_file([((2, 3), 4), ((4, 5), 1)]),
    "three": make_file([((2, 3), 2), ((3, 2), 2), ((1, 6), 2)]),
    "three-empty-middle": make_file([((2, 3), 2), ((0, 2), 2), ((1, 6), 2)]),
    "four-mixed": make_file([((2, 2), 1), ((2, 2), 2), ((2, 2), 4), ((2, 2), 8)]),
    "seven": make_file([((index + 1, 2), 2) for index in range(7)]),
    "seven-trailing": make_file([((2, index + 1), 4) for index in range(7)], extra=b"abc"),
    # fewer images than announced sizes and the other way around
    "sizes-beyond-count": make_header([(12, 2, 3, 2), (12, 3, 2, 2)], n=1)
    + make_image((2, 3), 2) * 2,
    "count-beyond-sizes": make_header([(12, 2, 3, 2)], n=2) + make_image((2, 3), 2) * 2,
    # record lengths that don't match the shape
    "length-too-big": make_header([(14, 2, 3, 2)]) + make_image((2, 3), 2) + b"\x00\x00",
    "length-too-small": make_header([(10, 2, 3, 2)]) + make_image((2, 3), 2),
    "length-odd": make_header([(11, 2, 3, 2)]) + make_image((2, 3), 2),
    "length-zero": make_header([(0, 2, 3, 2)]) + make_image((2, 3), 2),
    "length-blank": make_header([(None, 2, 3, 2)]) + make_image((2, 3), 2) + b"\x00",
    "length-blank-exact": make_header([(None, 2, 3, 2)]) + make_image((2, 3), 2) + b"\x00\x00",
    "length-negative": make_header([(-2, 2, 3, 2)]) + make_image((2, 3), 2) + b"\x00\x00",
    "second-shifted": make_header([(14, 1, 7, 2), (10, 5, 1, 2)]) + make_image((2, 3), 2) * 2,
    "second-after-blank": make_header([(None, 1, 5, 2), (12, 2, 3, 2)]) + make_image((2, 3), 2),
    "second-after-negative": make_header([(12, 2, 3, 2), (-4, 1, 4, 2), (4, 2, 1, 2)])
    + make_image((2, 3), 2),
    # truncated data
    "data-missing": make_header([(12, 2, 3, 2)]),
    "data-short": make_header([(12, 2, 3, 2)]) + make_image((2, 3), 2)[:10],
    "data-short-odd": make_header([(12, 2, 3, 2)]) + make_image((2, 3), 2)[:9],
    "second-missing": make_header([(12, 2, 3, 2), (12, 3, 2, 2)]) + make_image((2, 3), 2),
    "second-same": make_header([(12, 2, 3, 2), (12, 3, 2, 2)]) + make_image((2, 3), 2) * 2 + b"",
    "second-short-by-one": make_header([(12, 2, 3, 2), (12, 3, 2, 2)])
    + (make_image((2, 3), 2) * 2)[:-1],
    # invalid shapes
    "shape-blank-pixels": make_header([(12, None, 3, 2)]) + make_image((2, 3), 2),
    "shape-blank-lines": make_header([(12, 2, None, 2)]) + make_image((2, 3), 2),
    "shape-blank-both": make_header([(12, None, None, 2)]) + make_image((2, 3), 2),
    "shape-negative": make_header([(12, -2, -3, 2)]) + make_image((2, 3), 2),
    "shape-zero": make_header([(12, 0, 3, 2)]) + make_image((2, 3), 2),
    "shape-mismatch": make_header([(12, 5, 5, 2)]) + make_image((2, 3), 2),
    # invalid sample sizes
    "bytes-zero": make_header([(12, 2, 3, 0)]) + make_image((2, 3), 2),
    "bytes-three": make_header([(12, 2, 3, 3)]) + make_image((2, 3), 2),
    "bytes-sixteen": make_header([(12, 2, 3, 16)]) + make_image((2, 3), 2),
    "bytes-blank": make_header([(12, 2, 3, None)]) + make_image((2, 3), 2),
    "bytes-negative": make_header([(12, 2, 3, -2)]) + make_image((2, 3), 2),
    "bytes-mismatch": make_header([(12, 2, 3, 4)]) + make_image((2, 3), 2),
    # the first invalid image wins
    "invalid-first": make_header([(12, 2, 3, 3), (12, 5, 5, 2)]) + make_image((2, 3), 2) * 2,
    "invalid-second": make_header([(12, 2, 3, 2), (12, 2, 3, 3), (11, 2, 3, 2)])
    + make_image((2, 3), 2) * 3,
    "invalid-last": make_header([(12, 2, 3, 2), (12, 2, 3, 2), (12, 2, 3, 5)])
    + make_image((2, 3), 2) * 3,
    # invalid headers: nothing but the header is requested
    "eight": make_header([(2, 1, 1, 2)] * 7, n=8) + make_image((1, 1), 2) * 8,
    "count-blank": make_header([(12, 2, 3, 2)], n=None) + make_image((2, 3), 2),
    "count-negative": make_header([(12, 2, 3, 2)], n=-3) + make_image((2, 3), 2),
    "count-text": make_header([(12, 2, 3, 2)], n=b"   one") + make_image((2, 3), 2),
    "size-text": make_header([(b"  twelve", 2, 3, 2)]) + make_image((2, 3), 2),
    "pixels-text": make_header([(12, b"   two", 3, 2)]) + make_image((2, 3), 2),
    "non-ascii": make_header([(12, b"\xff\xfe\xfd\xfc\xfb\xfa", 3, 2)]) + make_image((2, 3), 2),
    "empty": b"",
    "header-short": make_header([], length=719),
    "header-half": make_header([((12, 2, 3, 2))], length=500),
    "header-only-counts": make_header([], length=496),
    "header-one-short-of-sizes": make_header([(12, 2, 3, 2)], length=521),
}

EXPECTED = [
    (('ok', (('Container', ['preamble', 'ascii_ebcdic_code', 'blanks1', 'format_control_document_id', 'format_control_document_revision_number', 'record_format_revision_level', 'software_release_and_revision_number', 'file_number', 'file_id', 'record_sequence_and_location_type_flag', 'sequence_number_of_location', 'field_length_of_sequence_number', 'record_code_and_location_type_flag', 'location_of_record_code', 'field_length_of_record_code', 'record_length_and_location_type_flag', 'location_of_record_length', 'field_length_of_record_length', 'dataset_summary', 'map_projection', 'platform_position', 'attitude', 'radiometric_data', 'radiometric_compensation', 'data_quality_summary', 'data_histogram', 'range_spectra', 'dem_descriptor', 'radar_parameter_update', 'annotation_data', 'detail_processing', 'calibration', 'gcp', 'spare', 'facility_related_data_1', 'facility_related_data_2', 'facility_related_data_3', 'facility_related_data_4', 'facility_related_data_5', 'number_of_low_resolution_images', 'low_resolution_image_sizes', 'blanks'], "{'preamble': {'record_sequence_number': 1, 'first_record_subtype': 63, 'record_type': 192, 'second_record_subtype': 18, 'third_record_subtype': 18, 'record_length': 720}, 'number_of_low_resolution_images': 0, 'low_resolution_image_sizes': [], 'blanks': 0}"), 'list', [])), [('read', (720,), 0, 720), ('read', (), 720, 720)], False, []),
    (('ok', (('Container', ['preamble', 'ascii_ebcdic_code', 'blanks1', 'format_control_document_id', 'format_control_document_revision_number', 'record_format_revision_level', 'software_release_and_revision_number', 'file_number', 'file_id', 'record_sequence_and_location_type_flag', 'sequence_number_of_location', 'field_length_of_sequence_number', 'record_code_and_location_type_flag', 'location_of_record_code', 'field_length_of_record_code', 'record_length_and_location_type_flag', 'location_of_record_length', 'field_length_of_record_length', 'dataset_summary', 'map_projection', 'platform_position', 'attitude', 'radiometric_data', 'radiometric_compensation', 'data_quality_summary', 'data_histogram', 'range_spectra', 'dem_descriptor', 'radar_parameter_update', 'annotation_data', 'detail_processing', 'calibration', 'gcp', 'spare', 'facility_related_data_1', 'facility_related_data_2', 'facility_related_data_3', 'facility_related_data_4', 'facility_related_data_5', 'number_of_low_resolution_images', 'low_resolution_image_sizes', 'blanks'], "{'preamble': {'record_sequence_number': 1, 'first_record_subtype': 63, 'record_type': 192, 'second_record_subtype': 18, 'third_record_subtype': 18, 'record_length': 720}, 'number_of_low_resolution_images': 0, 'low_resolution_image_sizes': [], 'blanks': 0}"), 'list', [])), [('read', (720,), 0, 720), ('read', (), 720, 723)], False, []),
    (('ok', (('Container', ['preamble', 'ascii_ebcdic_code', 'blanks1', 'format_control_document_id', 'format_control_document_revision_number', 'record_format_revision_level', 'software_release_and_revision_number', 'file_number', 'file_id', 'record_sequence_and_location_type_flag', 'sequence_number_of_location', 'field_length_of_sequence_number', 'record_code_and_location_type_flag', 'location_of_record_code', 'field_length_of_record_code', 'record_length_and_location_type_flag', 'location_of_record_length', 'field_length_of_record_length', 'dataset_summary', 'map_projection', 'platform_position', 'attitude', 'radiometric_data', 'radiometric_compensation', 'data_quality_summary', 'data_histogram', 'range_spectra', 'dem_descriptor', 'radar_parameter_update', 'annotation_data', 'detail_processing', 'calibration', 'gcp', 'spare', 'facility_related_data_1', 'facility_related_data_2', 'facility_related_data_3', 'facility_related_data_4', 'facility_related_data_5', 'number_of_low_resolution_images', 'low_resolution_image_sizes', 'blanks'], "{'preamble': {'record_sequence_number': 1, 'first_record_subtype': 63, 'record_type': 192, 'second_record_subtype': 18, 'third_record_subtype': 18, 'record_length': 720}, 'number_of_low_resolution_images': 0, 'low_resolution_image_sizes': [], 'blanks': 20}"), 'list', [])), [('read', (720,), 0, 720), ('read', (), 720, 732)], False, []),
    (('ok', (('Container', ['preamble', 'ascii_ebcdic_code', 'blanks1', 'format_control_document_id', 'format_control_document_revision_number', 'record_format_revision_level', 'software_release_and_revision_number', 'file_number', 'file_id', 'record_sequence_and_location_type_flag', 'sequence_number_of_location', 'field_length_of_sequence_number', 'record_code_and_location_type_flag', 'location_of_record_code', 'field_length_of_record_code', 'record_length_and_location_type_flag', 'location_of_record_length', 'field_length_of_record_length', 'dataset_summary', 'map_projection', 'platform_position', 'attitude', 'radiometric_data', 'radiometric_compensation', 'data_quality_summary', 'data_histogram', 'range_spectra', 'dem_descriptor', 'radar_parameter_update', 'annotation_data', 'detail_processing', 'calibration', 'gcp', 'spare', 'facility_related_data_1', 'facility_related_data_2', 'facility_related_data_3', 'facility_related_data_4', 'facility_related_data_5', 'number_of_low_resolution_images', 'low_resolution_image_sizes', 'blanks'], "{'preamble': {'record_sequence_number': 1, 'first_record_subtype': 63, 'record_type': 192, 'second_record_subtype': 18, 'third_record_subtype': 18, 'record_length': 720}, 'number_of_low_resolution_images': 1, 'low_resolution_image_sizes': [{'record_length': 6, 'number_of_pixels': 2, 'number_of_lines': 3, 'number_of_bytes_per_one_sample': 1}], 'blanks': 0}"), 'list', [('ndarray', '|i1', (2, 3), [[-66, -29, 8], [45, 82, 119]], False, True)])), [('read', (720,), 0, 720), ('read', (), 720, 726)], False, []),
    (('ok', (('Container', ['preamble', 'ascii_ebcdic_code', 'blanks1', 'format_control_document_id', 'format_control_document_revision_number', 'record_format_revision_level', 'software_release_and_revision_number', 'file_number', 'file_id', 'record_sequence_and_location_type_flag', 'sequence_number_of_location', 'field_length_of_sequence_number', 'record_code_and_location_type_flag', 'location_of_record_code', 'field_length_of_record_code', 'record_length_and_location_type_flag', 'location_of_record_length', 'field_length_of_record_length', 'dataset_summary', 'map_projection', 'platform_position', 'attitude', 'radiometric_data', 'radiometric_compensation', 'data_quality_summary', 'data_histogram', 'range_spectra', 'dem_descriptor', 'radar_parameter_update', 'annotation_data', 'detail_processing', 'calibration', 'gcp', 'spare', 'facility_related_data_1', 'facility_related_data_2', 'facility_related_data_3', 'facility_related_data_4', 'facility_related_data_5', 'number_of_low_resolution_images', 'low_resolution_image_sizes', 'blanks'], "{'preamble': {'record_sequence_number': 1, 'first_record_subtype': 63, 'record_type': 192, 'second_record_subtype': 18, 'third_record_subtype': 18, 'record_length': 720}, 'number_of_low_resolution_images': 1, 'low_resolution_image_sizes': [{'record_length': 12, 'number_of_pixels': 2, 'number_of_lines': 3, 'number_of_bytes_per_one_sample': 2}], 'blanks': 0}"), 'list', [('ndarray', '>i2', (2, 3), [[-66, -29, 8], [45, 82, 119]], False, True)])), [('read', (720,), 0, 720), ('read', (), 720, 732)], False, []),
    (('ok', (('Container', ['preamble', 'ascii_ebcdic_code', 'blanks1', 'format_control_document_id', 'format_control_document_revision_number', 'record_format_revision_level', 'software_release_and_revision_number', 'file_number', 'file_id', 'record_sequence_and_location_type_flag', 'sequence_number_of_location', 'field_length_of_sequence_number', 'record_code_and_location_type_flag', 'location_of_record_code', 'field_length_of_record_code', 'record_length_and_location_type_flag', 'location_of_record_length', 'field_length_of_record_length', 'dataset_summary', 'map_projection', 'platform_position', 'attitude', 'radiometric_data', 'radiometric_compensation', 'data_quality_summary', 'data_histogram', 'range_spectra', 'dem_descriptor', 'radar_parameter_update', 'annotation_data', 'detail_processing', 'calibration', 'gcp', 'spare', 'facility_related_data_1', 'facility_related_data_2', 'facility_related_data_3', 'facility_related_data_4', 'facility_related_data_5', 'number_of_low_resolution_images', 'low_resolution_image_sizes', 'blanks'], "{'preamble': {'record_sequence_number': 1, 'first_record_subtype': 63, 'record_type': 192, 'second_record_subtype': 18, 'third_record_subtype': 18, 'record_length': 720}, 'number_of_low_resolution_images': 1, 'low_resolution_image_sizes': [{'record_length': 24, 'number_of_pixels': 3, 'number_of_lines': 2, 'number_of_bytes_per_one_sample': 4}], 'blanks': 0}"), 'list', [('ndarray', '>i4', (3, 2), [[-66, -29], [8, 45], [82, 119]], False, True)])), [('read', (720,), 0, 720), ('read', (), 720, 744)], False, []),
    (('ok', (('Container', ['preamble', 'ascii_ebcdic_code', 'blanks1', 'format_control_document_id', 'format_control_document_revision_number', 'record_format_revision_level', 'software_release_and_revision_number', 'file_number', 'file_id', 'record_sequence_and_location_type_flag', 'sequence_number_of_location', 'field_length_of_sequence_number', 'record_code_and_location_type_flag', 'location_of_record_code', 'field_length_of_record_code', 'record_length_and_location_type_flag', 'location_of_record_length', 'field_length_of_record_length', 'dataset_summary', 'map_projection', 'platform_position', 'attitude', 'radiometric_data', 'radiometric_compensation', 'data_quality_summary', 'data_histogram', 'range_spectra', 'dem_descriptor', 'radar_parameter_update', 'annotation_data', 'detail_processing', 'calibration', 'gcp', 'spare', 'facility_related_data_1', 'facility_related_data_2', 'facility_related_data_3', 'facility_related_data_4', 'facility_related_data_5', 'number_of_low_resolution_images', 'low_resolution_image_sizes', 'blanks'], "{'preamble': {'record_sequence_number': 1, 'first_record_subtype': 63, 'record_type': 192, 'second_record_subtype': 18, 'third_record_subtype': 18, 'record_length': 720}, 'number_of_low_resolution_images': 1, 'low_resolution_image_sizes': [{'record_length': 40, 'number_of_pixels': 1, 'number_of_lines': 5, 'number_of_bytes_per_one_sample': 8}], 'blanks': 0}"), 'list', [('ndarray', '>i8', (1, 5), [[-55, -18, 19, 56, 93]], False, True)])), [('read', (720,), 0, 720), ('read', (), 720, 760)], False, []),
    (('ok', (('Container', ['preamble', 'ascii_ebcdic_code', 'blanks1', 'format_control_document_id', 'format_control_document_revision_number', 'record_format_revision_level', 'software_release_and_revision_number', 'file_number', 'file_id', 'record_sequence_and_location_type_flag', 'sequence_number_of_location', 'field_length_of_sequence_number', 'record_code_and_location_type_flag', 'location_of_record_code', 'field_length_of_record_code', 'record_length_and_location_type_flag', 'location_of_record_length', 'field_length_of_record_length', 'dataset_summary', 'map_projection', 'platform_position', 'attitude', 'radiometric_data', 'radiometric_compensation', 'data_quality_summary', 'data_histogram', 'range_spectra', 'dem_descriptor', 'radar_parameter_update', 'annotation_data', 'detail_processing', 'calibration', 'gcp', 'spare', 'facility_related_data_1', 'facility_related_data_2', 'facility_related_data_3', 'facility_related_data_4', 'facility_related_data_5', 'number_of_low_resolution_images', 'low_resolution_image_sizes', 'blanks'], "{'preamble': {'record_sequence_number': 1, 'first_record_subtype': 63, 'record_type': 192, 'second_record_subtype': 18, 'third_record_subtype': 18, 'record_length': 720}, 'number_of_low_resolution_images': 1, 'low_resolution_image_sizes': [{'record_length': 2, 'number_of_pixels': 1, 'number_of_lines': 1, 'number_of_bytes_per_one_sample': 2}], 'blanks': 0}"), 'list', [('ndarray', '>i2', (1, 1), [[-11]], False, True)])), [('read', (720,), 0, 720), ('read', (), 720, 722)], False, []),
    (('ok', (('Container', ['preamble', 'ascii_ebcdic_code', 'blanks1', 'format_control_document_id', 'format_control_document_revision_number', 'record_format_revision_level', 'software_release_and_revision_number', 'file_number', 'file_id', 'record_sequence_and_location_type_flag', 'sequence_number_of_location', 'field_length_of_sequence_number', 'record_code_and_location_type_flag', 'location_of_record_code', 'field_length_of_record_code', 'record_length_and_location_type_flag', 'location_of_record_length', 'field_length_of_record_length', 'dataset_summary', 'map_projection', 'platform_position', 'attitude', 'radiometric_data', 'radiometric_compensation', 'data_quality_summary', 'data_histogram', 'range_spectra', 'dem_descriptor', 'radar_parameter_update', 'annotation_data', 'detail_processing', 'calibration', 'gcp', 'spare', 'facility_related_data_1', 'facility_related_data_2', 'facility_related_data_3', 'facility_related_data_4', 'facility_related_data_5', 'number_of_low_resolution_images', 'low_resolution_image_sizes', 'blanks'], "{'preamble': {'record_sequence_number': 1, 'first_record_subtype': 63, 'record_type': 192, 'second_record_subtype': 18, 'third_record_subtype': 18, 'record_length': 720}, 'number_of_low_resolution_images': 1, 'low_resolution_image_sizes': [{'record_length': 14, 'number_of_pixels': 7, 'number_of_lines': 1, 'number_of_bytes_per_one_sample': 2}], 'blanks': 0}"), 'list', [('ndarray', '>i2', (7, 1), [[-77], [-40], [-3], [34], [71], [108], [145]], False, True)])), [('read', (720,), 0, 720), ('read', (), 720, 734)], False, []),
    (('ok', (('Container', ['preamble', 'ascii_ebcdic_code', 'blanks1', 'format_control_document_id', 'format_control_document_revision_number', 'record_format_revision_level', 'software_release_and_revision_number', 'file_number', 'file_id', 'record_sequence_and_location_type_flag', 'sequence_number_of_location', 'field_length_of_sequence_number', 'record_code_and_location_type_flag', 'location_of_record_code', 'field_length_of_record_code', 'record_length_and_location_type_flag', 'location_of_record_length', 'field_length_of_record_length', 'dataset_summary', 'map_projection', 'platform_position', 'attitude', 'radiometric_data', 'radiometric_compensation', 'data_quality_summary', 'data_histogram', 'range_spectra', 'dem_descriptor', 'radar_parameter_update', 'annotation_data', 'detail_processing', 'calibration', 'gcp', 'spare', 'facility_related_data_1', 'facility_related_data_2', 'facility_related_data_3', 'facility_related_data_4', 'facility_related_data_5', 'number_of_low_resolution_images', 'low_resolution_image_sizes', 'blanks'], "{'preamble': {'record_sequence_number': 1, 'first_record_subtype': 63, 'record_type': 192, 'second_record_subtype': 18, 'third_record_subtype': 18, 'record_length': 720}, 'number_of_low_resolution_images': 1, 'low_resolution_image_sizes': [{'record_length': 216, 'number_of_pixels': 12, 'number_of_lines': 9, 'number_of_bytes_per_one_sample': 2}], 'blanks': 0}"), 'list', [('ndarray', '>i2', (12, 9), [[-1188, -1151, -1114, -1077, -1040, -1003, -966, -929, -892], [-855, -818, -781, -744, -707, -670, -633, -596, -559], [-522, -485, -448, -411, -374, -337, -300, -263, -226], [-189, -152, -115, -78, -41, -4, 33, 70, 107], [144, 181, 218, 255, 292, 329, 366, 403, 440], [477, 514, 551, 588, 625, 662, 699, 736, 773], [810, 847, 884, 921, 958, 995, 1032, 1069, 1106], [1143, 1180, 1217, 1254, 1291, 1328, 1365, 1402, 1439], [1476, 1513, 1550, 1587, 1624, 1661, 1698, 1735, 1772], [1809, 1846, 1883, 1920, 1957, 1994, 2031, 2068, 2105], [2142, 2179, 2216, 2253, 2290, 2327, 2364, 2401, 2438], [2475, 2512, 2549, 2586, 2623, 2660, 2697, 2734, 2771]], False, True)])), [('read', (720,), 0, 720), ('read', (), 720, 936)], False, []),
    (('ok', (('Container', ['preamble', 'ascii_ebcdic_code', 'blanks1', 'format_control_document_id', 'format_control_document_revision_number', 'record_format_revision_level', 'software_release_and_revision_number', 'file_number', 'file_id', 'record_sequence_and_location_type_flag', 'sequence_number_of_location', 'field_length_of_sequence_number', 'record_code_and_location_type_flag', 'location_of_record_code', 'field_length_of_record_code', 'record_length_and_location_type_flag', 'location_of_record_length', 'field_length_of_record_length', 'dataset_summary', 'map_projection', 'platform_position', 'attitude', 'radiometric_data', 'radiometric_compensation', 'data_quality_summary', 'data_histogram', 'range_spectra', 'dem_descriptor', 'radar_parameter_update', 'annotation_data', 'detail_processing', 'calibration', 'gcp', 'spare', 'facility_related_data_1', 'facility_related_data_2', 'facility_related_data_3', 'facility_related_data_4', 'facility_related_data_5', 'number_of_low_resolution_images', 'low_resolution_image_sizes', 'blanks'], "{'preamble': {'record_sequence_number': 1, 'first_record_subtype': 63, 'record_type': 192, 'second_record_subtype': 18, 'third_record_subtype': 18, 'record_length': 720}, 'number_of_low_resolution_images': 1, 'low_resolution_image_sizes': [{'record_length': 12, 'number_of_pixels': 2, 'number_of_lines': 3, 'number_of_bytes_per_one_sample': 2}], 'blanks': 0}"), 'list', [('ndarray', '>i2', (2, 3), [[-66, -29, 8], [45, 82, 119]], False, True)])), [('read', (720,), 0, 720), ('read', (), 720, 737)], False, []),
    (('ok', (('Container', ['preamble', 'ascii_ebcdic_code', 'blanks1', 'format_control_document_id', 'format_control_document_revision_number', 'record_format_revision_level', 'software_release_and_revision_number', 'file_number', 'file_id', 'record_sequence_and_location_type_flag', 'sequence_number_of_location', 'field_length_of_sequence_number', 'record_code_and_location_type_flag', 'location_of_record_code', 'field_length_of_record_code', 'record_length_and_location_type_flag', 'location_of_record_length', 'field_length_of_record_length', 'dataset_summary', 'map_projection', 'platform_position', 'attitude', 'radiometric_data', 'radiometric_compensation', 'data_quality_summary', 'data_histogram', 'range_spectra', 'dem_descriptor', 'radar_parameter_update', 'annotation_data', 'detail_processing', 'calibration', 'gcp', 'spare', 'facility_related_data_1', 'facility_related_data_2', 'facility_related_data_3', 'facility_related_data_4', 'facility_related_data_5', 'number_of_low_resolution_images', 'low_resolution_image_sizes', 'blanks'], "{'preamble': {'record_sequence_number': 1, 'first_record_subtype': 63, 'record_type': 192, 'second_record_subtype': 18, 'third_record_subtype': 18, 'record_length': 720}, 'number_of_low_resolution_images': 1, 'low_resolution_image_sizes': [{'record_length': 0, 'number_of_pixels': 0, 'number_of_lines': 0, 'number_of_bytes_per_one_sample': 2}], 'blanks': 0}"), 'list', [('ndarray', '>i2', (0, 0), [], False, True)])), [('read', (720,), 0, 720), ('read', (), 720, 720)], False, []),
    (('ok', (('Container', ['preamble', 'ascii_ebcdic_code', 'blanks1', 'format_control_document_id', 'format_control_document_revision_number', 'record_format_revision_level', 'software_release_and_revision_number', 'file_number', 'file_id', 'record_sequence_and_location_type_flag', 'sequence_number_of_location', 'field_length_of_sequence_number', 'record_code_and_location_type_flag', 'location_of_record_code', 'field_length_of_record_code', 'record_length_and_location_type_flag', 'location_of_record_length', 'field_length_of_record_length', 'dataset_summary', 'map_projection', 'platform_position', 'attitude', 'radiometric_data', 'radiometric_compensation', 'data_quality_summary', 'data_histogram', 'range_spectra', 'dem_descriptor', 'radar_parameter_update', 'annotation_data', 'detail_processing', 'calibration', 'gcp', 'spare', 'facility_related_data_1', 'facility_related_data_2', 'facility_related_data_3', 'facility_related_data_4', 'facility_related_data_5', 'number_of_low_resolution_images', 'low_resolution_image_sizes', 'blanks'], "{'preamble': {'record_sequence_number': 1, 'first_record_subtype': 63, 'record_type': 192, 'second_record_subtype': 18, 'third_record_subtype': 18, 'record_length': 720}, 'number_of_low_resolution_images': 1, 'low_resolution_image_sizes': [{'record_length': 0, 'number_of_pixels': 0, 'number_of_lines': 4, 'number_of_bytes_per_one_sample': 2}], 'blanks': 0}"), 'list', [('ndarray', '>i2', (0, 4), [], False, True)])), [('read', (720,), 0, 720), ('read', (), 720, 720)], False, []),
    (('ok', (('Container', ['preamble', 'ascii_ebcdic_code', 'blanks1', 'format_control_document_id', 'format_control_document_revision_number', 'record_format_revision_level', 'software_release_and_revision_number', 'file_number', 'file_id', 'record_sequence_and_location_type_flag', 'sequence_number_of_location', 'field_length_of_sequence_number', 'record_code_and_location_type_flag', 'location_of_record_code', 'field_length_of_record_code', 'record_length_and_location_type_flag', 'location_of_record_length', 'field_length_of_record_length', 'dataset_summary', 'map_projection', 'platform_position', 'attitude', 'radiometric_data', 'radiometric_compensation', 'data_quality_summary', 'data_histogram', 'range_spectra', 'dem_descriptor', 'radar_parameter_update', 'annotation_data', 'detail_processing', 'calibration', 'gcp', 'spare', 'facility_related_data_1', 'facility_related_data_2', 'facility_related_data_3', 'facility_related_data_4', 'facility_related_data_5', 'number_of_low_resolution_images', 'low_resolution_image_sizes', 'blanks'], "{'preamble': {'record_sequence_number': 1, 'first_record_subtype': 63, 'record_type': 192, 'second_record_subtype': 18, 'third_record_subtype': 18, 'record_length': 720}, 'number_of_low_resolution_images': 1, 'low_resolution_image_sizes': [{'record_length': 0, 'number_of_pixels': 0, 'number_of_lines': 0, 'number_of_bytes_per_one_sample': 2}], 'blanks': 0}"), 'list', [('ndarray', '>i2', (0, 0), [], False, True)])), [('read', (720,), 0, 720), ('read', (), 720, 722)], False, []),
    (('ok', (('Container', ['preamble', 'ascii_ebcdic_code', 'blanks1', 'format_control_document_id', 'format_control_document_revision_number', 'record_format_revision_level', 'software_release_and_revision_number', 'file_number', 'file_id', 'record_sequence_and_location_type_flag', 'sequence_number_of_location', 'field_length_of_sequence_number', 'record_code_and_location_type_flag', 'location_of_record_code', 'field_length_of_record_code', 'record_length_and_location_type_flag', 'location_of_record_length', 'field_length_of_record_length', 'dataset_summary', 'map_projection', 'platform_position', 'attitude', 'radiometric_data', 'radiometric_compensation', 'data_quality_summary', 'data_histogram', 'range_spectra', 'dem_descriptor', 'radar_parameter_update', 'annotation_data', 'detail_processing', 'calibration', 'gcp', 'spare', 'facility_related_data_1', 'facility_related_data_2', 'facility_related_data_3', 'facility_related_data_4', 'facility_related_data_5', 'number_of_low_resolution_images', 'low_resolution_image_sizes', 'blanks'], "{'preamble': {'record_sequence_number': 1, 'first_record_subtype': 63, 'record_type': 192, 'second_record_subtype': 18, 'third_record_subtype': 18, 'record_length': 720}, 'number_of_low_resolution_images': 2, 'low_resolution_image_sizes': [{'record_length': 12, 'number_of_pixels': 2, 'number_of_lines': 3, 'number_of_bytes_per_one_sample': 2}, {'record_length': 40, 'number_of_pixels': 4, 'number_of_lines': 5, 'number_of_bytes_per_one_sample': 2}], 'blanks': 0}"), 'list', [('ndarray', '>i2', (2, 3), [[-66, -29, 8], [45, 82, 119]], False, True), ('ndarray', '>i2', (4, 5), [[-219, -182, -145, -108, -71], [-34, 3, 40, 77, 114], [151, 188, 225, 262, 299], [336, 373, 410, 447, 484]], False, True)])), [('read', (720,), 0, 720), ('read', (), 720, 772)], False, []),
    (('ok', (('Container', ['preamble', 'ascii_ebcdic_code', 'blanks1', 'format_control_document_id', 'format_control_document_revision_number', 'record_format_revision_level', 'software_release_and_revision_number', 'file_number', 'file_id', 'record_sequence_and_location_type_flag', 'sequence_number_of_location', 'field_length_of_sequence_number', 'record_code_and_location_type_flag', 'location_of_record_code', 'field_length_of_record_code', 'record_length_and_location_type_flag', 'location_of_record_length', 'field_length_of_record_length', 'dataset_summary', 'map_projection', 'platform_position', 'attitude', 'radiometric_data', 'radiometric_compensation', 'data_quality_summary', 'data_histogram', 'range_spectra', 'dem_descriptor', 'radar_parameter_update', 'annotation_data', 'detail_processing', 'calibration', 'gcp', 'spare', 'facility_related_data_1', 'facility_related_data_2', 'facility_related_data_3', 'facility_related_data_4', 'facility_related_data_5', 'number_of_low_resolution_images', 'low_resolution_image_sizes', 'blanks'], "{'preamble': {'record_sequence_number': 1, 'first_record_subtype': 63, 'record_type': 192, 'second_record_subtype': 18, 'third_record_subtype': 18, 'record_length': 720}, 'number_of_low_resolution_images': 2, 'low_resolution_image_sizes': [{'record_length': 24, 'number_of_pixels': 2, 'number_of_lines': 3, 'number_of_bytes_per_one_sample': 4}, {'record_length': 20, 'number_of_pixels': 4, 'number_of_lines': 5, 'number_of_bytes_per_one_sample': 1}], 'blanks': 0}"), 'list', [('ndarray', '>i4', (2, 3), [[-66, -29, 8], [45, 82, 119]], False, True), ('ndarray', '|i1', (4, 5), [[37, 74, 111, -108, -71], [-34, 3, 40, 77, 114], [-105, -68, -31, 6, 43], [80, 117, -102, -65, -28]], False, True)])), [('read', (720,), 0, 720), ('read', (), 720, 764)], False, []),
    (('ok', (('Container', ['preamble', 'ascii_ebcdic_code', 'blanks1', 'format_control_document_id', 'format_control_document_revision_number', 'record_format_revision_level', 'software_release_and_revision_number', 'file_number', 'file_id', 'record_sequence_and_location_type_flag', 'sequence_number_of_location', 'field_length_of_sequence_number', 'record_code_and_location_type_flag', 'location_of_record_code', 'field_length_of_record_code', 'record_length_and_location_type_flag', 'location_of_record_length', 'field_length_of_record_length', 'dataset_summary', 'map_projection', 'platform_position', 'attitude', 'radiometric_data', 'radiometric_compensation', 'data_quality_summary', 'data_histogram', 'range_spectra', 'dem_descriptor', 'radar_parameter_update', 'annotation_data', 'detail_processing', 'calibration', 'gcp', 'spare', 'facility_related_data_1', 'facility_related_data_2', 'facility_related_data_3', 'facility_related_data_4', 'facility_related_data_5', 'number_of_low_resolution_images', 'low_resolution_image_sizes', 'blanks'], "{'preamble': {'record_sequence_number': 1, 'first_record_subtype': 63, 'record_type': 192, 'second_record_subtype': 18, 'third_record_subtype': 18, 'record_length': 720}, 'number_of_low_resolution_images': 3, 'low_resolution_image_sizes': [{'record_length': 12, 'number_of_pixels': 2, 'number_of_lines': 3, 'number_of_bytes_per_one_sample': 2}, {'record_length': 12, 'number_of_pixels': 3, 'number_of_lines': 2, 'number_of_bytes_per_one_sample': 2}, {'record_length': 12, 'number_of_pixels': 1, 'number_of_lines': 6, 'number_of_bytes_per_one_sample': 2}], 'blanks': 0}"), 'list', [('ndarray', '>i2', (2, 3), [[-66, -29, 8], [45, 82, 119]], False, True), ('ndarray', '>i2', (3, 2), [[-65, -28], [9, 46], [83, 120]], False, True), ('ndarray', '>i2', (1, 6), [[-64, -27, 10, 47, 84, 121]], False, True)])), [('read', (720,), 0, 720), ('read', (), 720, 756)], False, []),
    (('ok', (('Container', ['preamble', 'ascii_ebcdic_code', 'blanks1', 'format_control_document_id', 'format_control_document_revision_number', 'record_format_revision_level', 'software_release_and_revision_number', 'file_number', 'file_id', 'record_sequence_and_location_type_flag', 'sequence_number_of_location', 'field_length_of_sequence_number', 'record_code_and_location_type_flag', 'location_of_record_code', 'field_length_of_record_code', 'record_length_and_location_type_flag', 'location_of_record_length', 'field_length_of_record_length', 'dataset_summary', 'map_projection', 'platform_position', 'attitude', 'radiometric_data', 'radiometric_compensation', 'data_quality_summary', 'data_histogram', 'range_spectra', 'dem_descriptor', 'radar_parameter_update', 'annotation_data', 'detail_processing', 'calibration', 'gcp', 'spare', 'facility_related_data_1', 'facility_related_data_2', 'facility_related_data_3', 'facility_related_data_4', 'facility_related_data_5', 'number_of_low_resolution_images', 'low_resolution_image_sizes', 'blanks'], "{'preamble': {'record_sequence_number': 1, 'first_record_subtype': 63, 'record_type': 192, 'second_record_subtype': 18, 'third_record_subtype': 18, 'record_length': 720}, 'number_of_low_resolution_images': 3, 'low_resolution_image_sizes': [{'record_length': 12, 'number_of_pixels': 2, 'number_of_lines': 3, 'number_of_bytes_per_one_sample': 2}, {'record_length': 0, 'number_of_pixels': 0, 'number_of_lines': 2, 'number_of_bytes_per_one_sample': 2}, {'record_length': 12, 'number_of_pixels': 1, 'number_of_lines': 6, 'number_of_bytes_per_one_sample': 2}], 'blanks': 0}"), 'list', [('ndarray', '>i2', (2, 3), [[-66, -29, 8], [45, 82, 119]], False, True), ('ndarray', '>i2', (0, 2), [], False, True), ('ndarray', '>i2', (1, 6), [[-64, -27, 10, 47, 84, 121]], False, True)])), [('read', (720,), 0, 720), ('read', (), 720, 744)], False, []),
    (('ok', (('Container', ['preamble', 'ascii_ebcdic_code', 'blanks1', 'format_control_document_id', 'format_control_document_revision_number', 'record_format_revision_level', 'software_release_and_revision_number', 'file_number', 'file_id', 'record_sequence_and_location_type_flag', 'sequence_number_of_location', 'field_length_of_sequence_number', 'record_code_and_location_type_flag', 'location_of_record_code', 'field_length_of_record_code', 'record_length_and_location_type_flag', 'location_of_record_length', 'field_length_of_record_length', 'dataset_summary', 'map_projection', 'platform_position', 'attitude', 'radiometric_data', 'radiometric_compensation', 'data_quality_summary', 'data_histogram', 'range_spectra', 'dem_descriptor', 'radar_parameter_update', 'annotation_data', 'detail_processing', 'calibration', 'gcp', 'spare', 'facility_related_data_1', 'facility_related_data_2', 'facility_related_data_3', 'facility_related_data_4', 'facility_related_data_5', 'number_of_low_resolution_images', 'low_resolution_image_sizes', 'blanks'], "{'preamble': {'record_sequence_number': 1, 'first_record_subtype': 63, 'record_type': 192, 'second_record_subtype': 18, 'third_record_subtype': 18, 'record_length': 720}, 'number_of_low_resolution_images': 4, 'low_resolution_image_sizes': [{'record_length': 4, 'number_of_pixels': 2, 'number_of_lines': 2, 'number_of_bytes_per_one_sample': 1}, {'record_length': 8, 'number_of_pixels': 2, 'number_of_lines': 2, 'number_of_bytes_per_one_sample': 2}, {'record_length': 16, 'number_of_pixels': 2, 'number_of_lines': 2, 'number_of_bytes_per_one_sample': 4}, {'record_length': 32, 'number_of_pixels': 2, 'number_of_lines': 2, 'number_of_bytes_per_one_sample': 8}], 'blanks': 0}"), 'list', [('ndarray', '|i1', (2, 2), [[-44, -7], [30, 67]], False, True), ('ndarray', '>i2', (2, 2), [[-43, -6], [31, 68]], False, True), ('ndarray', '>i4', (2, 2), [[-42, -5], [32, 69]], False, True), ('ndarray', '>i8', (2, 2), [[-41, -4], [33, 70]], False, True)])), [('read', (720,), 0, 720), ('read', (), 720, 780)], False, []),
    (('ok', (('Container', ['preamble', 'ascii_ebcdic_code', 'blanks1', 'format_control_document_id', 'format_control_document_revision_number', 'record_format_revision_level', 'software_release_and_revision_number', 'file_number', 'file_id', 'record_sequence_and_location_type_flag', 'sequence_number_of_location', 'field_length_of_sequence_number', 'record_code_and_location_type_flag', 'location_of_record_code', 'field_length_of_record_code', 'record_length_and_location_type_flag', 'location_of_record_length', 'field_length_of_record_length', 'dataset_summary', 'map_projection', 'platform_position', 'attitude', 'radiometric_data', 'radiometric_compensation', 'data_quality_summary', 'data_histogram', 'range_spectra', 'dem_descriptor', 'radar_parameter_update', 'annotation_data', 'detail_processing', 'calibration', 'gcp', 'spare', 'facility_related_data_1', 'facility_related_data_2', 'facility_related_data_3', 'facility_related_data_4', 'facility_related_data_5', 'number_of_low_resolution_images', 'low_resolution_image_sizes', 'blanks'], "{'preamble': {'record_sequence_number': 1, 'first_record_subtype': 63, 'record_type': 192, 'second_record_subtype': 18, 'third_record_subtype': 18, 'record_length': 720}, 'number_of_low_resolution_images': 7, 'low_resolution_image_sizes': [{'record_length': 4, 'number_of_pixels': 1, 'number_of_lines': 2, 'number_of_bytes_per_one_sample': 2}, {'record_length': 8, 'number_of_pixels': 2, 'number_of_lines': 2, 'number_of_bytes_per_one_sample': 2}, {'record_length': 12, 'number_of_pixels': 3, 'number_of_lines': 2, 'number_of_bytes_per_one_sample': 2}, {'record_length': 16, 'number_of_pixels': 4, 'number_of_lines': 2, 'number_of_bytes_per_one_sample': 2}, {'record_length': 20, 'number_of_pixels': 5, 'number_of_lines': 2, 'number_of_bytes_per_one_sample': 2}, {'record_length': 24, 'number_of_pixels': 6, 'number_of_lines': 2, 'number_of_bytes_per_one_sample': 2}, {'record_length': 28, 'number_of_pixels': 7, 'number_of_lines': 2, 'number_of_bytes_per_one_sample': 2}], 'blanks': 0}"), 'list', [('ndarray', '>i2', (1, 2), [[-22, 15]], False, True), ('ndarray', '>i2', (2, 2), [[-43, -6], [31, 68]], False, True), ('ndarray', '>i2', (3, 2), [[-64, -27], [10, 47], [84, 121]], False, True), ('ndarray', '>i2', (4, 2), [[-85, -48], [-11, 26], [63, 100], [137, 174]], False, True), ('ndarray', '>i2', (5, 2), [[-106, -69], [-32, 5], [42, 79], [116, 153], [190, 227]], False, True), ('ndarray', '>i2', (6, 2), [[-127, -90], [-53, -16], [21, 58], [95, 132], [169, 206], [243, 280]], False, True), ('ndarray', '>i2', (7, 2), [[-148, -111], [-74, -37], [0, 37], [74, 111], [148, 185], [222, 259], [296, 333]], False, True)])), [('read', (720,), 0, 720), ('read', (), 720, 832)], False, []),
    (('ok', (('Container', ['preamble', 'ascii_ebcdic_code', 'blanks1', 'format_control_document_id', 'format_control_document_revision_number', 'record_format_revision_level', 'software_release_and_revision_number', 'file_number', 'file_id', 'record_sequence_and_location_type_flag', 'sequence_number_of_location', 'field_length_of_sequence_number', 'record_code_and_location_type_flag', 'location_of_record_code', 'field_length_of_record_code', 'record_length_and_location_type_flag', 'location_of_record_length', 'field_length_of_record_length', 'dataset_summary', 'map_projection', 'platform_position', 'attitude', 'radiometric_data', 'radiometric_compensation', 'data_quality_summary', 'data_histogram', 'range_spectra', 'dem_descriptor', 'radar_parameter_update', 'annotation_data', 'detail_processing', 'calibration', 'gcp', 'spare', 'facility_related_data_1', 'facility_related_data_2', 'facility_related_data_3', 'facility_related_data_4', 'facility_related_data_5', 'number_of_low_resolution_images', 'low_resolution_image_sizes', 'blanks'], "{'preamble': {'record_sequence_number': 1, 'first_record_subtype': 63, 'record_type': 192, 'second_record_subtype': 18, 'third_record_subtype': 18, 'record_length': 720}, 'number_of_low_resolution_images': 7, 'low_resolution_image_sizes': [{'record_length': 8, 'number_of_pixels': 2, 'number_of_lines': 1, 'number_of_bytes_per_one_sample': 4}, {'record_length': 16, 'number_of_pixels': 2, 'number_of_lines': 2, 'number_of_bytes_per_one_sample': 4}, {'record_length': 24, 'number_of_pixels': 2, 'number_of_lines': 3, 'number_of_bytes_per_one_sample': 4}, {'record_length': 32, 'number_of_pixels': 2, 'number_of_lines': 4, 'number_of_bytes_per_one_sample': 4}, {'record_length': 40, 'number_of_pixels': 2, 'number_of_lines': 5, 'number_of_bytes_per_one_sample': 4}, {'record_length': 48, 'number_of_pixels': 2, 'number_of_lines': 6, 'number_of_bytes_per_one_sample': 4}, {'record_length': 56, 'number_of_pixels': 2, 'number_of_lines': 7, 'number_of_bytes_per_one_sample': 4}], 'blanks': 0}"), 'list', [('ndarray', '>i4', (2, 1), [[-22], [15]], False, True), ('ndarray', '>i4', (2, 2), [[-43, -6], [31, 68]], False, True), ('ndarray', '>i4', (2, 3), [[-64, -27, 10], [47, 84, 121]], False, True), ('ndarray', '>i4', (2, 4), [[-85, -48, -11, 26], [63, 100, 137, 174]], False, True), ('ndarray', '>i4', (2, 5), [[-106, -69, -32, 5, 42], [79, 116, 153, 190, 227]], False, True), ('ndarray', '>i4', (2, 6), [[-127, -90, -53, -16, 21, 58], [95, 132, 169, 206, 243, 280]], False, True), ('ndarray', '>i4', (2, 7), [[-148, -111, -74, -37, 0, 37, 74], [111, 148, 185, 222, 259, 296, 333]], False, True)])), [('read', (720,), 0, 720), ('read', (), 720, 947)], False, []),
    (('ok', (('Container', ['preamble', 'ascii_ebcdic_code', 'blanks1', 'format_control_document_id', 'format_control_document_revision_number', 'record_format_revision_level', 'software_release_and_revision_number', 'file_number', 'file_id', 'record_sequence_and_location_type_flag', 'sequence_number_of_location', 'field_length_of_sequence_number', 'record_code_and_location_type_flag', 'location_of_record_code', 'field_length_of_record_code', 'record_length_and_location_type_flag', 'location_of_record_length', 'field_length_of_record_length', 'dataset_summary', 'map_projection', 'platform_position', 'attitude', 'radiometric_data', 'radiometric_compensation', 'data_quality_summary', 'data_histogram', 'range_spectra', 'dem_descriptor', 'radar_parameter_update', 'annotation_data', 'detail_processing', 'calibration', 'gcp', 'spare', 'facility_related_data_1', 'facility_related_data_2', 'facility_related_data_3', 'facility_related_data_4', 'facility_related_data_5', 'number_of_low_resolution_images', 'low_resolution_image_sizes', 'blanks'], "{'preamble': {'record_sequence_number': 1, 'first_record_subtype': 63, 'record_type': 192, 'second_record_subtype': 18, 'third_record_subtype': 18, 'record_length': 720}, 'number_of_low_resolution_images': 1, 'low_resolution_image_sizes': [{'record_length': 12, 'number_of_pixels': 2, 'number_of_lines': 3, 'number_of_bytes_per_one_sample': 2}], 'blanks': 20}"), 'list', [('ndarray', '>i2', (2, 3), [[-66, -29, 8], [45, 82, 119]], False, True)])), [('read', (720,), 0, 720), ('read', (), 720, 744)], False, []),
    (('raise', [('TypeError', "data type '>i-1' not understood", False)]), [('read', (720,), 0, 720), ('read', (), 720, 744)], False, []),
    (('raise', [('ValueError', 'cannot reshape array of size 7 into shape (2,3)', False)]), [('read', (720,), 0, 720), ('read', (), 720, 734)], False, []),
    (('raise', [('ValueError', 'cannot reshape array of size 5 into shape (2,3)', False)]), [('read', (720,), 0, 720), ('read', (), 720, 732)], False, []),
    (('raise', [('ValueError', 'buffer size must be a multiple of element size', False)]), [('read', (720,), 0, 720), ('read', (), 720, 732)], False, []),
    (('raise', [('ValueError', 'cannot reshape array of size 0 into shape (2,3)', False)]), [('read', (720,), 0, 720), ('read', (), 720, 732)], False, []),
    (('ok', (('Container', ['preamble', 'ascii_ebcdic_code', 'blanks1', 'format_control_document_id', 'format_control_document_revision_number', 'record_format_revision_level', 'software_release_and_revision_number', 'file_number', 'file_id', 'record_sequence_and_location_type_flag', 'sequence_number_of_location', 'field_length_of_sequence_number', 'record_code_and_location_type_flag', 'location_of_record_code', 'field_length_of_record_code', 'record_length_and_location_type_flag', 'location_of_record_length', 'field_length_of_record_length', 'dataset_summary', 'map_projection', 'platform_position', 'attitude', 'radiometric_data', 'radiometric_compensation', 'data_quality_summary', 'data_histogram', 'range_spectra', 'dem_descriptor', 'radar_parameter_update', 'annotation_data', 'detail_processing', 'calibration', 'gcp', 'spare', 'facility_related_data_1', 'facility_related_data_2', 'facility_related_data_3', 'facility_related_data_4', 'facility_related_data_5', 'number_of_low_resolution_images', 'low_resolution_image_sizes', 'blanks'], "{'preamble': {'record_sequence_number': 1, 'first_record_subtype': 63, 'record_type': 192, 'second_record_subtype': 18, 'third_record_subtype': 18, 'record_length': 720}, 'number_of_low_resolution_images': 1, 'low_resolution_image_sizes': [{'record_length': -1, 'number_of_pixels': 2, 'number_of_lines': 3, 'number_of_bytes_per_one_sample': 2}], 'blanks': 0}"), 'list', [('ndarray', '>i2', (2, 3), [[-66, -29, 8], [45, 82, 119]], False, True)])), [('read', (720,), 0, 720), ('read', (), 720, 733)], False, []),
    (('raise', [('ValueError', 'buffer size must be a multiple of element size', False)]), [('read', (720,), 0, 720), ('read', (), 720, 734)], False, []),
    (('ok', (('Container', ['preamble', 'ascii_ebcdic_code', 'blanks1', 'format_control_document_id', 'format_control_document_revision_number', 'record_format_revision_level', 'software_release_and_revision_number', 'file_number', 'file_id', 'record_sequence_and_location_type_flag', 'sequence_number_of_location', 'field_length_of_sequence_number', 'record_code_and_location_type_flag', 'location_of_record_code', 'field_length_of_record_code', 'record_length_and_location_type_flag', 'location_of_record_length', 'field_length_of_record_length', 'dataset_summary', 'map_projection', 'platform_position', 'attitude', 'radiometric_data', 'radiometric_compensation', 'data_quality_summary', 'data_histogram', 'range_spectra', 'dem_descriptor', 'radar_parameter_update', 'annotation_data', 'detail_processing', 'calibration', 'gcp', 'spare', 'facility_related_data_1', 'facility_related_data_2', 'facility_related_data_3', 'facility_related_data_4', 'facility_related_data_5', 'number_of_low_resolution_images', 'low_resolution_image_sizes', 'blanks'], "{'preamble': {'record_sequence_number': 1, 'first_record_subtype': 63, 'record_type': 192, 'second_record_subtype': 18, 'third_record_subtype': 18, 'record_length': 720}, 'number_of_low_resolution_images': 1, 'low_resolution_image_sizes': [{'record_length': -2, 'number_of_pixels': 2, 'number_of_lines': 3, 'number_of_bytes_per_one_sample': 2}], 'blanks': 0}"), 'list', [('ndarray', '>i2', (2, 3), [[-66, -29, 8], [45, 82, 119]], False, True)])), [('read', (720,), 0, 720), ('read', (), 720, 734)], False, []),
    (('ok', (('Container', ['preamble', 'ascii_ebcdic_code', 'blanks1', 'format_control_document_id', 'format_control_document_revision_number', 'record_format_revision_level', 'software_release_and_revision_number', 'file_number', 'file_id', 'record_sequence_and_location_type_flag', 'sequence_number_of_location', 'field_length_of_sequence_number', 'record_code_and_location_type_flag', 'location_of_record_code', 'field_length_of_record_code', 'record_length_and_location_type_flag', 'location_of_record_length', 'field_length_of_record_length', 'dataset_summary', 'map_projection', 'platform_position', 'attitude', 'radiometric_data', 'radiometric_compensation', 'data_quality_summary', 'data_histogram', 'range_spectra', 'dem_descriptor', 'radar_parameter_update', 'annotation_data', 'detail_processing', 'calibration', 'gcp', 'spare', 'facility_related_data_1', 'facility_related_data_2', 'facility_related_data_3', 'facility_related_data_4', 'facility_related_data_5', 'number_of_low_resolution_images', 'low_resolution_image_sizes', 'blanks'], "{'preamble': {'record_sequence_number': 1, 'first_record_subtype': 63, 'record_type': 192, 'second_record_subtype': 18, 'third_record_subtype': 18, 'record_length': 720}, 'number_of_low_resolution_images': 2, 'low_resolution_image_sizes': [{'record_length': 14, 'number_of_pixels': 1, 'number_of_lines': 7, 'number_of_bytes_per_one_sample': 2}, {'record_length': 10, 'number_of_pixels': 5, 'number_of_lines': 1, 'number_of_bytes_per_one_sample': 2}], 'blanks': 0}"), 'list', [('ndarray', '>i2', (1, 7), [[-66, -29, 8, 45, 82, 119, -66]], False, True), ('ndarray', '>i2', (5, 1), [[-29], [8], [45], [82], [119]], False, True)])), [('read', (720,), 0, 720), ('read', (), 720, 744)], False, []),
    (('raise', [('ValueError', 'buffer size must be a multiple of element size', False)]), [('read', (720,), 0, 720), ('read', (), 720, 732)], False, []),
    (('raise', [('ValueError', 'cannot reshape array of size 0 into shape (1,4)', False)]), [('read', (720,), 0, 720), ('read', (), 720, 732)], False, []),
    (('raise', [('ValueError', 'cannot reshape array of size 0 into shape (2,3)', False)]), [('read', (720,), 0, 720), ('read', (), 720, 720)], False, []),
    (('raise', [('ValueError', 'cannot reshape array of size 5 into shape (2,3)', False)]), [('read', (720,), 0, 720), ('read', (), 720, 730)], False, []),
    (('raise', [('ValueError', 'buffer size must be a multiple of element size', False)]), [('read', (720,), 0, 720), ('read', (), 720, 729)], False, []),
    (('raise', [('ValueError', 'cannot reshape array of size 0 into shape (3,2)', False)]), [('read', (720,), 0, 720), ('read', (), 720, 732)], False, []),
    (('ok', (('Container', ['preamble', 'ascii_ebcdic_code', 'blanks1', 'format_control_document_id', 'format_control_document_revision_number', 'record_format_revision_level', 'software_release_and_revision_number', 'file_number', 'file_id', 'record_sequence_and_location_type_flag', 'sequence_number_of_location', 'field_length_of_sequence_number', 'record_code_and_location_type_flag', 'location_of_record_code', 'field_length_of_record_code', 'record_length_and_location_type_flag', 'location_of_record_length', 'field_length_of_record_length', 'dataset_summary', 'map_projection', 'platform_position', 'attitude', 'radiometric_data', 'radiometric_compensation', 'data_quality_summary', 'data_histogram', 'range_spectra', 'dem_descriptor', 'radar_parameter_update', 'annotation_data', 'detail_processing', 'calibration', 'gcp', 'spare', 'facility_related_data_1', 'facility_related_data_2', 'facility_related_data_3', 'facility_related_data_4', 'facility_related_data_5', 'number_of_low_resolution_images', 'low_resolution_image_sizes', 'blanks'], "{'preamble': {'record_sequence_number': 1, 'first_record_subtype': 63, 'record_type': 192, 'second_record_subtype': 18, 'third_record_subtype': 18, 'record_length': 720}, 'number_of_low_resolution_images': 2, 'low_resolution_image_sizes': [{'record_length': 12, 'number_of_pixels': 2, 'number_of_lines': 3, 'number_of_bytes_per_one_sample': 2}, {'record_length': 12, 'number_of_pixels': 3, 'number_of_lines': 2, 'number_of_bytes_per_one_sample': 2}], 'blanks': 0}"), 'list', [('ndarray', '>i2', (2, 3), [[-66, -29, 8], [45, 82, 119]], False, True), ('ndarray', '>i2', (3, 2), [[-66, -29], [8, 45], [82, 119]], False, True)])), [('read', (720,), 0, 720), ('read', (), 720, 744)], False, []),
    (('raise', [('ValueError', 'buffer size must be a multiple of element size', False)]), [('read', (720,), 0, 720), ('read', (), 720, 743)], False, []),
    (('ok', (('Container', ['preamble', 'ascii_ebcdic_code', 'blanks1', 'format_control_document_id', 'format_control_document_revision_number', 'record_format_revision_level', 'software_release_and_revision_number', 'file_number', 'file_id', 'record_sequence_and_location_type_flag', 'sequence_number_of_location', 'field_length_of_sequence_number', 'record_code_and_location_type_flag', 'location_of_record_code', 'field_length_of_record_code', 'record_length_and_location_type_flag', 'location_of_record_length', 'field_length_of_record_length', 'dataset_summary', 'map_projection', 'platform_position', 'attitude', 'radiometric_data', 'radiometric_compensation', 'data_quality_summary', 'data_histogram', 'range_spectra', 'dem_descriptor', 'radar_parameter_update', 'annotation_data', 'detail_processing', 'calibration', 'gcp', 'spare', 'facility_related_data_1', 'facility_related_data_2', 'facility_related_data_3', 'facility_related_data_4', 'facility_related_data_5', 'number_of_low_resolution_images', 'low_resolution_image_sizes', 'blanks'], "{'preamble': {'record_sequence_number': 1, 'first_record_subtype': 63, 'record_type': 192, 'second_record_subtype': 18, 'third_record_subtype': 18, 'record_length': 720}, 'number_of_low_resolution_images': 1, 'low_resolution_image_sizes': [{'record_length': 12, 'number_of_pixels': -1, 'number_of_lines': 3, 'number_of_bytes_per_one_sample': 2}], 'blanks': 0}"), 'list', [('ndarray', '>i2', (2, 3), [[-66, -29, 8], [45, 82, 119]], False, True)])), [('read', (720,), 0, 720), ('read', (), 720, 732)], False, []),
    (('ok', (('Container', ['preamble', 'ascii_ebcdic_code', 'blanks1', 'format_control_document_id', 'format_control_document_revision_number', 'record_format_revision_level', 'software_release_and_revision_number', 'file_number', 'file_id', 'record_sequence_and_location_type_flag', 'sequence_number_of_location', 'field_length_of_sequence_number', 'record_code_and_location_type_flag', 'location_of_record_code', 'field_length_of_record_code', 'record_length_and_location_type_flag', 'location_of_record_length', 'field_length_of_record_length', 'dataset_summary', 'map_projection', 'platform_position', 'attitude', 'radiometric_data', 'radiometric_compensation', 'data_quality_summary', 'data_histogram', 'range_spectra', 'dem_descriptor', 'radar_parameter_update', 'annotation_data', 'detail_processing', 'calibration', 'gcp', 'spare', 'facility_related_data_1', 'facility_related_data_2', 'facility_related_data_3', 'facility_related_data_4', 'facility_related_data_5', 'number_of_low_resolution_images', 'low_resolution_image_sizes', 'blanks'], "{'preamble': {'record_sequence_number': 1, 'first_record_subtype': 63, 'record_type': 192, 'second_record_subtype': 18, 'third_record_subtype': 18, 'record_length': 720}, 'number_of_low_resolution_images': 1, 'low_resolution_image_sizes': [{'record_length': 12, 'number_of_pixels': 2, 'number_of_lines': -1, 'number_of_bytes_per_one_sample': 2}], 'blanks': 0}"), 'list', [('ndarray', '>i2', (2, 3), [[-66, -29, 8], [45, 82, 119]], False, True)])), [('read', (720,), 0, 720), ('read', (), 720, 732)], False, []),
    (('raise', [('ValueError', 'can only specify one unknown dimension', False)]), [('read', (720,), 0, 720), ('read', (), 720, 732)], False, []),
    (('raise', [('ValueError', 'can only specify one unknown dimension', False)]), [('read', (720,), 0, 720), ('read', (), 720, 732)], False, []),
    (('raise', [('ValueError', 'cannot reshape array of size 6 into shape (0,3)', False)]), [('read', (720,), 0, 720), ('read', (), 720, 732)], False, []),
    (('raise', [('ValueError', 'cannot reshape array of size 6 into shape (5,5)', False)]), [('read', (720,), 0, 720), ('read', (), 720, 732)], False, []),
    (('raise', [('TypeError', "data type '>i0' not understood", False)]), [('read', (720,), 0, 720), ('read', (), 720, 732)], False, []),
    (('raise', [('TypeError', "data type '>i3' not understood", False)]), [('read', (720,), 0, 720), ('read', (), 720, 732)], False, []),
    (('raise', [('TypeError', "data type '>i16' not understood", False)]), [('read', (720,), 0, 720), ('read', (), 720, 732)], False, []),
    (('raise', [('TypeError', "data type '>i-1' not understood", False)]), [('read', (720,), 0, 720), ('read', (), 720, 732)], False, []),
    (('raise', [('TypeError', "data type '>i-2' not understood", False)]), [('read', (720,), 0, 720), ('read', (), 720, 732)], False, []),
    (('raise', [('ValueError', 'cannot reshape array of size 3 into shape (2,3)', False)]), [('read', (720,), 0, 720), ('read', (), 720, 732)], False, []),
    (('raise', [('TypeError', "data type '>i3' not understood", False)]), [('read', (720,), 0, 720), ('read', (), 720, 744)], False, []),
    (('raise', [('TypeError', "data type '>i3' not understood", False)]), [('read', (720,), 0, 720), ('read', (), 720, 756)], False, []),
    (('raise', [('TypeError', "data type '>i5' not understood", False)]), [('read', (720,), 0, 720), ('read', (), 720, 756)], False, []),
    (('raise', [('PaddingError', 'Error in path (parsing) -> blanks\nlength cannot be negative', False)]), [('read', (720,), 0, 720)], False, []),
    (('raise', [('RangeError', 'Error in path (parsing) -> low_resolution_image_sizes\ninvalid count -1', False)]), [('read', (720,), 0, 720)], False, []),
    (('raise', [('RangeError', 'Error in path (parsing) -> low_resolution_image_sizes\ninvalid count -3', False)]), [('read', (720,), 0, 720)], False, []),
    (('raise', [('ValueError', "invalid literal for int() with base 10: 'one'", False)]), [('read', (720,), 0, 720)], False, []),
    (('raise', [('ValueError', "invalid literal for int() with base 10: 'twelve'", False)]), [('read', (720,), 0, 720)], False, []),
    (('raise', [('ValueError', "invalid literal for int() with base 10: 'two'", False)]), [('read', (720,), 0, 720)], False, []),
    (('raise', [('StringError', "cannot use encoding 'ascii' to decode b'\\xff\\xfe\\xfd\\xfc\\xfb\\xfa'", False)]), [('read', (720,), 0, 720)], False, []),
    (('raise', [('StreamError', 'Error in path (parsing) -> preamble -> record_sequence_number\nstream read less than specified amount, expected 4, found 0', False)]), [('read', (720,), 0, 0)], False, []),
    (('ok', (('Container', ['preamble', 'ascii_ebcdic_code', 'blanks1', 'format_control_document_id', 'format_control_document_revision_number', 'record_format_revision_level', 'software_release_and_revision_number', 'file_number', 'file_id', 'record_sequence_and_location_type_flag', 'sequence_number_of_location', 'field_length_of_sequence_number', 'record_code_and_location_type_flag', 'location_of_record_code', 'field_length_of_record_code', 'record_length_and_location_type_flag', 'location_of_record_length', 'field_length_of_record_length', 'dataset_summary', 'map_projection', 'platform_position', 'attitude', 'radiometric_data', 'radiometric_compensation', 'data_quality_summary', 'data_histogram', 'range_spectra', 'dem_descriptor', 'radar_parameter_update', 'annotation_data', 'detail_processing', 'calibration', 'gcp', 'spare', 'facility_related_data_1', 'facility_related_data_2', 'facility_related_data_3', 'facility_related_data_4', 'facility_related_data_5', 'number_of_low_resolution_images', 'low_resolution_image_sizes', 'blanks'], "{'preamble': {'record_sequence_number': 1, 'first_record_subtype': 63, 'record_type': 192, 'second_record_subtype': 18, 'third_record_subtype': 18, 'record_length': 720}, 'number_of_low_resolution_images': 0, 'low_resolution_image_sizes': [], 'blanks': 0}"), 'list', [])), [('read', (720,), 0, 719), ('read', (), 719, 719)], False, []),
    (('raise', [('StreamError', 'Error in path (parsing) -> low_resolution_image_sizes -> record_length\nstream read less than specified amount, expected 8, found 4', False)]), [('read', (720,), 0, 500)], False, []),
    (('raise', [('StreamError', 'Error in path (parsing) -> blanks\nstream read less than specified amount, expected 198, found 0', False)]), [('read', (720,), 0, 496)], False, []),
    (('raise', [('StreamError', 'Error in path (parsing) -> low_resolution_image_sizes -> number_of_bytes_per_one_sample\nstream read less than specified amount, expected 6, found 5', False)]), [('read', (720,), 0, 521)], False, []),
]


def compute():
    return [outcome(content) for content in CASES.values()]


def test_outcomes():
    actual = compute()
    assert len(actual) == len(EXPECTED) == len(CASES)
    for name, a, e in zip(CASES, actual, EXPECTED):
        assert a == e, f"{name}:\n  actual   {a}\n  expected {e}"


def test_values():
    # independent check of the values of the images
    images = [((2, 3), 1), ((4, 5), 2), ((3, 3), 4), ((6, 1), 8), ((1, 1), 2), ((0, 3), 4)]
    header, actual = read_sar_trailer(io.BytesIO(make_file(images, extra=b"rest")))
    assert header.number_of_low_resolution_images == len(images)
    assert len(actual) == len(images)
    for index, ((shape, n_bytes), image) in enumerate(zip(images, actual)):
        expected = np.frombuffer(make_image(shape, n_bytes, offset=index), f">i{n_bytes}")
        assert image.shape == shape
        assert image.dtype == np.dtype(f">i{n_bytes}")
        np.testing.assert_array_equal(image.reshape(-1), expected)
        assert not image.flags.writeable


def test_fsspec_file():
    fs = fsspec.filesystem("memory")
    path = "/eq4-sar-trailer/TRL-ALOS2225333200-180726-WWDR1.1__D"
    images = [((2, 3), 2), ((3, 4), 4), ((5, 1), 1)]
    fs.pipe(path, make_file(images))
    try:
        with fs.open(path, mode="rb") as f:
            header, actual = read_sar_trailer(f)
            assert f.tell() == fs.size(path)
            assert not f.closed
    finally:
        fs.rm("/eq4-sar-trailer", recursive=True)

    assert [image.shape for image in actual] == [(2, 3), (3, 4), (5, 1)]
    assert [image.dtype.str for image in actual] == [">i2", ">i4", "|i1"]
    assert [image.tolist() for image in actual] == [
        [[-66, -29, 8], [45, 82, 119]],
        [[-131, -94, -57, -20], [17, 54, 91, 128], [165, 202, 239, 276]],
        [[-53], [-16], [21], [58], [95]],
    ]


def test_independent_results():
    content = make_file([((2, 3), 2), ((3, 2), 2)])
    _, first = read_sar_trailer(io.BytesIO(content))
    _, second = read_sar_trailer(io.BytesIO(content))
    assert first is not second
    first.clear()
    assert len(second) == 2
    assert all(a is not b for a, b in zip(second, second[1:]))
    # the images are views of separate copies of their part of the file
    buffers = [image.base.base for image in second]
    assert all(type(buffer) is bytes for buffer in buffers)
    assert [len(buffer) for buffer in buffers] == [12, 12]
    assert buffers[0] is not buffers[1]


def test_public_names():
    for name in [
        "read_sar_trailer",
        "file_descriptor_record",
        "parse_image_data",
        "itertools",
        "file_descriptor",
        "image_data",
    ]:
        assert hasattr(sar_trailer, name), name


if __name__ == "__main__":
    if "--record" in sys.argv:
        print("[\n" + "".join(f"    {item!r},\n" for item in compute()) + "]")
        sys.exit(0)

    test_outcomes()
    test_values()
    test_fsspec_file()
    test_independent_results()
    test_public_names()
    print("ok")
