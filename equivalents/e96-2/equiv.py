"""Equivalence check for refactoring 2 (time adapters of ceos_alos2.datatypes).

Run as a script (``python equiv.py``) or through pytest.  Every expectation
below was recorded from the unchanged code at HEAD.
"""

import datetime
import inspect
import struct

from construct import (
    Computed,
    Container,
    Float64b,
    Int8ub,
    Int32sb,
    Int32ub,
    Int64sb,
    Int64ub,
    Pass,
    Struct,
    this,
)

from ceos_alos2 import datatypes
from ceos_alos2.sar_image.processed_data import processed_data_record
from ceos_alos2.sar_image.signal_data import signal_data_record


def outcome(func, *args, **kwargs):
    """Normalised description of a call: value with its type, or the exception."""
    try:
        value = func(*args, **kwargs)
    except Exception as exc:  # noqa: BLE001
        cause = type(exc.__cause__).__name__
        context = type(exc.__context__).__name__
        return ("raise", type(exc).__name__, str(exc), cause, context)
    return ("value", type(value).__name__, repr(value))


class Calls:
    """Callable reference date that keeps track of how it was used."""

    def __init__(self, result):
        self.result = result
        self.seen = []

    def __call__(self, context):
        self.seen.append(sorted(k for k in context if not k.startswith("_")))
        if isinstance(self.result, Exception):
            raise self.result
        return self.result


class NotADate:
    """Has a ``date`` method, but does not return dates."""

    def __init__(self, value):
        self.value = value

    def date(self):
        return self.value


ydms_struct = Struct("year" / Int32ub, "day_of_year" / Int32ub, "milliseconds" / Int32ub)
ydms_signed = Struct("year" / Int32sb, "day_of_year" / Int32sb, "milliseconds" / Int32sb)

YDMS_INPUTS = [
    (1990, 270, 52032102),
    (2059, 1, 0),
    (2020, 366, 86399999),
    (2021, 366, 0),
    (2021, 0, 0),
    (1, 1, 0),
    (1, 0, 0),
    (0, 1, 0),
    (9999, 365, 86399999),
    (9999, 365, 86400000),
    (9999, 366, 0),
    (10000, 1, 0),
    (2014, 1, 4294967295),
    (2014, 4294967295, 0),
    (2014, 3000000, 0),
    (4294967295, 4294967295, 4294967295),
]
YDMS_SIGNED_INPUTS = [
    (2014, -5, -1),
    (-1, 1, 0),
    (2014, 1, -86400000),
    (1, 1, -1),
    (2014, -2147483648, 0),
]
YDMS_OBJECTS = [
    {"year": 2014, "day_of_year": 2, "milliseconds": 500},
    {"year": 2014, "day_of_year": 2.5, "milliseconds": 0.25},
    {"year": 2014.0, "day_of_year": 2, "milliseconds": 0},
    {"year": 2014, "day_of_year": "2", "milliseconds": 0},
    {"year": 2014, "day_of_year": 2, "milliseconds": "0"},
    {"year": 2014, "day_of_year": 2, "milliseconds": None},
    {"year": 2014, "day_of_year": 2, "milliseconds": float("nan")},
    {"year": 2014, "day_of_year": float("inf"), "milliseconds": 0},
    {"year": 2014, "day_of_year": 2},
    {"year": 2014, "milliseconds": 2},
    {"day_of_year": 1, "milliseconds": 2},
    {"year": 0, "milliseconds": 2},
    {"year": 0},
    {"year": "2014"},
    {"year": 10000, "day_of_year": "x"},
    {"year": 2014, "day_of_year": None},
    {"year": True, "day_of_year": True, "milliseconds": True},
    {},
    None,
    [2014, 1, 0],
    (2014, 1, 0),
    "year",
    Container(year=2000, day_of_year=60, milliseconds=1, extra=5),
]

REFERENCES = [
    datetime.datetime(2019, 1, 1, 21, 37, 52, 107000),
    datetime.datetime(2019, 1, 1),
    datetime.datetime(1, 1, 1, 0, 0, 1),
    datetime.datetime(9999, 12, 31, 23, 59, 59, 999999),
    datetime.datetime(2019, 6, 30, 12, tzinfo=datetime.timezone.utc),
    datetime.datetime(2019, 6, 30, 23, 30, tzinfo=datetime.timezone(datetime.timedelta(hours=-5))),
]
YDUS_VALUES = [
    0,
    1,
    40669000000,
    86399999999,
    86400000000,
    86400000001,
    2**32,
    2**63 - 1,
    2**64 - 1,
]
YDUS_SIGNED_VALUES = [-1, -86400000000, -(2**63), -63082281600000000 + 1]
BAD_REFERENCES = [
    datetime.date(2019, 1, 1),
    datetime.time(3, 4),
    "2019-01-01",
    None,
    20190101,
    NotADate(datetime.date(2020, 2, 29)),
    NotADate(datetime.datetime(2020, 2, 29, 4)),
    NotADate("2020-02-29"),
    NotADate(None),
]

EXPECTED = {'ydms': [('value', 'datetime', 'datetime.datetime(1990, 9, 27, 14, 27, 12, 102000)'),
          ('value', 'datetime', 'datetime.datetime(2059, 1, 1, 0, 0)'),
          ('value', 'datetime', 'datetime.datetime(2020, 12, 31, 23, 59, 59, 999000)'),
          ('value', 'datetime', 'datetime.datetime(2022, 1, 1, 0, 0)'),
          ('value', 'datetime', 'datetime.datetime(2020, 12, 31, 0, 0)'),
          ('value', 'datetime', 'datetime.datetime(1, 1, 1, 0, 0)'),
          ('raise', 'OverflowError', 'date value out of range', 'NoneType', 'NoneType'),
          ('raise', 'ValueError', 'year 0 is out of range', 'NoneType', 'NoneType'),
          ('value', 'datetime', 'datetime.datetime(9999, 12, 31, 23, 59, 59, 999000)'),
          ('raise', 'OverflowError', 'date value out of range', 'NoneType', 'NoneType'),
          ('raise', 'OverflowError', 'date value out of range', 'NoneType', 'NoneType'),
          ('raise', 'ValueError', 'year 10000 is out of range', 'NoneType', 'NoneType'),
          ('value', 'datetime', 'datetime.datetime(2014, 2, 19, 17, 2, 47, 295000)'),
          ('raise',
           'OverflowError',
           'Python int too large to convert to C int',
           'NoneType',
           'NoneType'),
          ('raise', 'OverflowError', 'date value out of range', 'NoneType', 'NoneType'),
          ('raise',
           'OverflowError',
           'signed integer is greater than maximum',
           'NoneType',
           'NoneType')],
 'ydms-signed': [('value', 'datetime', 'datetime.datetime(2013, 12, 25, 23, 59, 59, 999000)'),
                 ('raise', 'ValueError', 'year -1 is out of range', 'NoneType', 'NoneType'),
                 ('value', 'datetime', 'datetime.datetime(2013, 12, 31, 0, 0)'),
                 ('raise', 'OverflowError', 'date value out of range', 'NoneType', 'NoneType'),
                 ('raise',
                  'OverflowError',
                  'Python int too large to convert to C int',
                  'NoneType',
                  'NoneType')],
 'ydms-short': [('raise',
                 'StreamError',
                 'Error in path (parsing) -> year\n'
                 'stream read less than specified amount, expected 4, found 0',
                 'NoneType',
                 'NoneType'),
                ('raise',
                 'StreamError',
                 'Error in path (parsing) -> day_of_year\n'
                 'stream read less than specified amount, expected 4, found 0',
                 'NoneType',
                 'NoneType'),
                ('raise',
                 'StreamError',
                 'Error in path (parsing) -> milliseconds\n'
                 'stream read less than specified amount, expected 4, found 3',
                 'NoneType',
                 'NoneType'),
                ('raise', 'ValueError', 'year 0 is out of range', 'NoneType', 'NoneType')],
 'ydms-objects': [('value', 'datetime', 'datetime.datetime(2014, 1, 2, 0, 0, 0, 500000)'),
                  ('value', 'datetime', 'datetime.datetime(2014, 1, 2, 12, 0, 0, 250)'),
                  ('raise',
                   'TypeError',
                   "'float' object cannot be interpreted as an integer",
                   'NoneType',
                   'NoneType'),
                  ('raise',
                   'TypeError',
                   "unsupported operand type(s) for -: 'str' and 'int'",
                   'NoneType',
                   'NoneType'),
                  ('raise',
                   'TypeError',
                   'unsupported type for timedelta milliseconds component: str',
                   'NoneType',
                   'NoneType'),
                  ('raise',
                   'TypeError',
                   'unsupported type for timedelta milliseconds component: NoneType',
                   'NoneType',
                   'NoneType'),
                  ('raise',
                   'ValueError',
                   'cannot convert float NaN to integer',
                   'NoneType',
                   'NoneType'),
                  ('raise',
                   'OverflowError',
                   'cannot convert float infinity to integer',
                   'NoneType',
                   'NoneType'),
                  ('raise', 'KeyError', "'milliseconds'", 'NoneType', 'NoneType'),
                  ('raise', 'KeyError', "'day_of_year'", 'NoneType', 'NoneType'),
                  ('raise', 'KeyError', "'year'", 'NoneType', 'NoneType'),
                  ('raise', 'ValueError', 'year 0 is out of range', 'NoneType', 'NoneType'),
                  ('raise', 'ValueError', 'year 0 is out of range', 'NoneType', 'NoneType'),
                  ('raise',
                   'TypeError',
                   "'str' object cannot be interpreted as an integer",
                   'NoneType',
                   'NoneType'),
                  ('raise', 'ValueError', 'year 10000 is out of range', 'NoneType', 'NoneType'),
                  ('raise',
                   'TypeError',
                   "unsupported operand type(s) for -: 'NoneType' and 'int'",
                   'NoneType',
                   'NoneType'),
                  ('value', 'datetime', 'datetime.datetime(1, 1, 1, 0, 0, 0, 1000)'),
                  ('raise', 'KeyError', "'year'", 'NoneType', 'NoneType'),
                  ('raise',
                   'TypeError',
                   "'NoneType' object is not subscriptable",
                   'NoneType',
                   'NoneType'),
                  ('raise',
                   'TypeError',
                   'list indices must be integers or slices, not str',
                   'NoneType',
                   'NoneType'),
                  ('raise',
                   'TypeError',
                   'tuple indices must be integers or slices, not str',
                   'NoneType',
                   'NoneType'),
                  ('raise',
                   'TypeError',
                   "string indices must be integers, not 'str'",
                   'NoneType',
                   'NoneType'),
                  ('value', 'datetime', 'datetime.datetime(2000, 2, 29, 0, 0, 0, 1000)')],
 'ydms-direct': [('value', 'datetime', 'datetime.datetime(2014, 1, 2, 0, 0, 0, 500000)'),
                 ('value', 'datetime', 'datetime.datetime(2014, 1, 2, 12, 0, 0, 250)'),
                 ('raise',
                  'TypeError',
                  "'float' object cannot be interpreted as an integer",
                  'NoneType',
                  'NoneType'),
                 ('raise',
                  'TypeError',
                  "unsupported operand type(s) for -: 'str' and 'int'",
                  'NoneType',
                  'NoneType'),
                 ('raise',
                  'TypeError',
                  'unsupported type for timedelta milliseconds component: str',
                  'NoneType',
                  'NoneType'),
                 ('raise',
                  'TypeError',
                  'unsupported type for timedelta milliseconds component: NoneType',
                  'NoneType',
                  'NoneType')],
 'ydms-float': ('value', 'datetime', 'datetime.datetime(100, 1, 1, 18, 0, 0, 1)'),
 'ydus-fixed': [[('value', 'datetime', 'datetime.datetime(2019, 1, 1, 0, 0)'),
                 ('value', 'datetime', 'datetime.datetime(2019, 1, 1, 0, 0, 0, 1)'),
                 ('value', 'datetime', 'datetime.datetime(2019, 1, 1, 11, 17, 49)'),
                 ('value', 'datetime', 'datetime.datetime(2019, 1, 1, 23, 59, 59, 999999)'),
                 ('value', 'datetime', 'datetime.datetime(2019, 1, 2, 0, 0)'),
                 ('value', 'datetime', 'datetime.datetime(2019, 1, 2, 0, 0, 0, 1)'),
                 ('value', 'datetime', 'datetime.datetime(2019, 1, 1, 1, 11, 34, 967296)'),
                 ('raise', 'OverflowError', 'date value out of range', 'NoneType', 'NoneType'),
                 ('raise', 'OverflowError', 'date value out of range', 'NoneType', 'NoneType')],
                [('value', 'datetime', 'datetime.datetime(2019, 1, 1, 0, 0)'),
                 ('value', 'datetime', 'datetime.datetime(2019, 1, 1, 0, 0, 0, 1)'),
                 ('value', 'datetime', 'datetime.datetime(2019, 1, 1, 11, 17, 49)'),
                 ('value', 'datetime', 'datetime.datetime(2019, 1, 1, 23, 59, 59, 999999)'),
                 ('value', 'datetime', 'datetime.datetime(2019, 1, 2, 0, 0)'),
                 ('value', 'datetime', 'datetime.datetime(2019, 1, 2, 0, 0, 0, 1)'),
                 ('value', 'datetime', 'datetime.datetime(2019, 1, 1, 1, 11, 34, 967296)'),
                 ('raise', 'OverflowError', 'date value out of range', 'NoneType', 'NoneType'),
                 ('raise', 'OverflowError', 'date value out of range', 'NoneType', 'NoneType')],
                [('value', 'datetime', 'datetime.datetime(1, 1, 1, 0, 0)'),
                 ('value', 'datetime', 'datetime.datetime(1, 1, 1, 0, 0, 0, 1)'),
                 ('value', 'datetime', 'datetime.datetime(1, 1, 1, 11, 17, 49)'),
                 ('value', 'datetime', 'datetime.datetime(1, 1, 1, 23, 59, 59, 999999)'),
                 ('value', 'datetime', 'datetime.datetime(1, 1, 2, 0, 0)'),
                 ('value', 'datetime', 'datetime.datetime(1, 1, 2, 0, 0, 0, 1)'),
                 ('value', 'datetime', 'datetime.datetime(1, 1, 1, 1, 11, 34, 967296)'),
                 ('raise', 'OverflowError', 'date value out of range', 'NoneType', 'NoneType'),
                 ('raise', 'OverflowError', 'date value out of range', 'NoneType', 'NoneType')],
                [('value', 'datetime', 'datetime.datetime(9999, 12, 31, 0, 0)'),
                 ('value', 'datetime', 'datetime.datetime(9999, 12, 31, 0, 0, 0, 1)'),
                 ('value', 'datetime', 'datetime.datetime(9999, 12, 31, 11, 17, 49)'),
                 ('value', 'datetime', 'datetime.datetime(9999, 12, 31, 23, 59, 59, 999999)'),
                 ('raise', 'OverflowError', 'date value out of range', 'NoneType', 'NoneType'),
                 ('raise', 'OverflowError', 'date value out of range', 'NoneType', 'NoneType'),
                 ('value', 'datetime', 'datetime.datetime(9999, 12, 31, 1, 11, 34, 967296)'),
                 ('raise', 'OverflowError', 'date value out of range', 'NoneType', 'NoneType'),
                 ('raise', 'OverflowError', 'date value out of range', 'NoneType', 'NoneType')],
                [('value', 'datetime', 'datetime.datetime(2019, 6, 30, 0, 0)'),
                 ('value', 'datetime', 'datetime.datetime(2019, 6, 30, 0, 0, 0, 1)'),
                 ('value', 'datetime', 'datetime.datetime(2019, 6, 30, 11, 17, 49)'),
                 ('value', 'datetime', 'datetime.datetime(2019, 6, 30, 23, 59, 59, 999999)'),
                 ('value', 'datetime', 'datetime.datetime(2019, 7, 1, 0, 0)'),
                 ('value', 'datetime', 'datetime.datetime(2019, 7, 1, 0, 0, 0, 1)'),
                 ('value', 'datetime', 'datetime.datetime(2019, 6, 30, 1, 11, 34, 967296)'),
                 ('raise', 'OverflowError', 'date value out of range', 'NoneType', 'NoneType'),
                 ('raise', 'OverflowError', 'date value out of range', 'NoneType', 'NoneType')],
                [('value', 'datetime', 'datetime.datetime(2019, 6, 30, 0, 0)'),
                 ('value', 'datetime', 'datetime.datetime(2019, 6, 30, 0, 0, 0, 1)'),
                 ('value', 'datetime', 'datetime.datetime(2019, 6, 30, 11, 17, 49)'),
                 ('value', 'datetime', 'datetime.datetime(2019, 6, 30, 23, 59, 59, 999999)'),
                 ('value', 'datetime', 'datetime.datetime(2019, 7, 1, 0, 0)'),
                 ('value', 'datetime', 'datetime.datetime(2019, 7, 1, 0, 0, 0, 1)'),
                 ('value', 'datetime', 'datetime.datetime(2019, 6, 30, 1, 11, 34, 967296)'),
                 ('raise', 'OverflowError', 'date value out of range', 'NoneType', 'NoneType'),
                 ('raise', 'OverflowError', 'date value out of range', 'NoneType', 'NoneType')]],
 'ydus-signed': [[('value', 'datetime', 'datetime.datetime(2018, 12, 31, 23, 59, 59, 999999)'),
                  ('value', 'datetime', 'datetime.datetime(2018, 12, 31, 0, 0)'),
                  ('raise', 'OverflowError', 'date value out of range', 'NoneType', 'NoneType'),
                  ('value', 'datetime', 'datetime.datetime(20, 1, 2, 0, 0, 0, 1)')],
                 [('value', 'datetime', 'datetime.datetime(2018, 12, 31, 23, 59, 59, 999999)'),
                  ('value', 'datetime', 'datetime.datetime(2018, 12, 31, 0, 0)'),
                  ('raise', 'OverflowError', 'date value out of range', 'NoneType', 'NoneType'),
                  ('value', 'datetime', 'datetime.datetime(20, 1, 2, 0, 0, 0, 1)')],
                 [('raise', 'OverflowError', 'date value out of range', 'NoneType', 'NoneType'),
                  ('raise', 'OverflowError', 'date value out of range', 'NoneType', 'NoneType'),
                  ('raise', 'OverflowError', 'date value out of range', 'NoneType', 'NoneType'),
                  ('raise', 'OverflowError', 'date value out of range', 'NoneType', 'NoneType')],
                 [('value', 'datetime', 'datetime.datetime(9999, 12, 30, 23, 59, 59, 999999)'),
                  ('value', 'datetime', 'datetime.datetime(9999, 12, 30, 0, 0)'),
                  ('raise', 'OverflowError', 'date value out of range', 'NoneType', 'NoneType'),
                  ('value', 'datetime', 'datetime.datetime(8000, 12, 31, 0, 0, 0, 1)')]],
 'ydus-float': [('value', 'datetime', 'datetime.datetime(2019, 1, 1, 0, 0)'),
                ('value', 'datetime', 'datetime.datetime(2019, 1, 1, 0, 0, 0, 2)'),
                ('value', 'datetime', 'datetime.datetime(2019, 1, 1, 0, 0)'),
                ('value', 'datetime', 'datetime.datetime(2019, 1, 1, 0, 0)'),
                ('raise',
                 'OverflowError',
                 'Python int too large to convert to C int',
                 'NoneType',
                 'NoneType'),
                ('raise',
                 'ValueError',
                 'cannot convert float NaN to integer',
                 'NoneType',
                 'NoneType'),
                ('raise',
                 'OverflowError',
                 'cannot convert float infinity to integer',
                 'NoneType',
                 'NoneType')],
 'ydus-bad-reference': [('raise',
                         'AttributeError',
                         "'datetime.date' object has no attribute 'date'",
                         'NoneType',
                         'NoneType'),
                        ('raise',
                         'AttributeError',
                         "'datetime.time' object has no attribute 'date'",
                         'NoneType',
                         'NoneType'),
                        ('raise',
                         'AttributeError',
                         "'str' object has no attribute 'date'",
                         'NoneType',
                         'NoneType'),
                        ('raise',
                         'AttributeError',
                         "'NoneType' object has no attribute 'date'",
                         'NoneType',
                         'NoneType'),
                        ('raise',
                         'AttributeError',
                         "'int' object has no attribute 'date'",
                         'NoneType',
                         'NoneType'),
                        ('value', 'datetime', 'datetime.datetime(2020, 2, 29, 0, 0, 0, 5)'),
                        ('value', 'datetime', 'datetime.datetime(2020, 2, 29, 0, 0, 0, 5)'),
                        ('raise',
                         'TypeError',
                         'combine() argument 1 must be datetime.date, not str',
                         'NoneType',
                         'NoneType'),
                        ('raise',
                         'TypeError',
                         'combine() argument 1 must be datetime.date, not None',
                         'NoneType',
                         'NoneType')],
 'ydus-bad-both': [('raise',
                    'AttributeError',
                    "'datetime.date' object has no attribute 'date'",
                    'NoneType',
                    'NoneType'),
                   ('raise',
                    'AttributeError',
                    "'datetime.time' object has no attribute 'date'",
                    'NoneType',
                    'NoneType'),
                   ('raise',
                    'AttributeError',
                    "'str' object has no attribute 'date'",
                    'NoneType',
                    'NoneType'),
                   ('raise',
                    'AttributeError',
                    "'NoneType' object has no attribute 'date'",
                    'NoneType',
                    'NoneType'),
                   ('raise',
                    'AttributeError',
                    "'int' object has no attribute 'date'",
                    'NoneType',
                    'NoneType'),
                   ('raise',
                    'TypeError',
                    'unsupported type for timedelta microseconds component: str',
                    'NoneType',
                    'NoneType'),
                   ('raise',
                    'TypeError',
                    'unsupported type for timedelta microseconds component: str',
                    'NoneType',
                    'NoneType'),
                   ('raise',
                    'TypeError',
                    'combine() argument 1 must be datetime.date, not str',
                    'NoneType',
                    'NoneType'),
                   ('raise',
                    'TypeError',
                    'combine() argument 1 must be datetime.date, not None',
                    'NoneType',
                    'NoneType'),
                   ('raise',
                    'AttributeError',
                    "'datetime.date' object has no attribute 'date'",
                    'NoneType',
                    'NoneType'),
                   ('raise',
                    'AttributeError',
                    "'datetime.time' object has no attribute 'date'",
                    'NoneType',
                    'NoneType'),
                   ('raise',
                    'AttributeError',
                    "'str' object has no attribute 'date'",
                    'NoneType',
                    'NoneType'),
                   ('raise',
                    'AttributeError',
                    "'NoneType' object has no attribute 'date'",
                    'NoneType',
                    'NoneType'),
                   ('raise',
                    'AttributeError',
                    "'int' object has no attribute 'date'",
                    'NoneType',
                    'NoneType'),
                   ('raise', 'OverflowError', 'date value out of range', 'NoneType', 'NoneType'),
                   ('raise', 'OverflowError', 'date value out of range', 'NoneType', 'NoneType'),
                   ('raise',
                    'TypeError',
                    'combine() argument 1 must be datetime.date, not str',
                    'NoneType',
                    'NoneType'),
                   ('raise',
                    'TypeError',
                    'combine() argument 1 must be datetime.date, not None',
                    'NoneType',
                    'NoneType')],
 'ydus-short': [('raise',
                 'StreamError',
                 'Error in path (parsing)\n'
                 'stream read less than specified amount, expected 8, found 0',
                 'NoneType',
                 'NoneType'),
                ('raise',
                 'StreamError',
                 'Error in path (parsing)\n'
                 'stream read less than specified amount, expected 8, found 7',
                 'NoneType',
                 'NoneType')],
 'ydus-callable': [[('value',
                     'str',
                     '"[(\'a\', 7), (\'t\', datetime.datetime(2019, 1, 1, 0, 16, 40))]"'),
                    ('raise',
                     'StreamError',
                     'Error in path (parsing) -> t\n'
                     'stream read less than specified amount, expected 8, found 1',
                     'NoneType',
                     'NoneType'),
                    [['a']]],
                   [('value',
                     'str',
                     '"[(\'a\', 7), (\'t\', datetime.datetime(2019, 1, 1, 0, 16, 40))]"'),
                    ('raise',
                     'StreamError',
                     'Error in path (parsing) -> t\n'
                     'stream read less than specified amount, expected 8, found 1',
                     'NoneType',
                     'NoneType'),
                    [['a']]],
                   [('raise',
                     'AttributeError',
                     "'datetime.date' object has no attribute 'date'",
                     'NoneType',
                     'NoneType'),
                    ('raise',
                     'StreamError',
                     'Error in path (parsing) -> t\n'
                     'stream read less than specified amount, expected 8, found 1',
                     'NoneType',
                     'NoneType'),
                    [['a']]],
                   [('raise',
                     'AttributeError',
                     "'datetime.time' object has no attribute 'date'",
                     'NoneType',
                     'NoneType'),
                    ('raise',
                     'StreamError',
                     'Error in path (parsing) -> t\n'
                     'stream read less than specified amount, expected 8, found 1',
                     'NoneType',
                     'NoneType'),
                    [['a']]],
                   [('raise',
                     'AttributeError',
                     "'str' object has no attribute 'date'",
                     'NoneType',
                     'NoneType'),
                    ('raise',
                     'StreamError',
                     'Error in path (parsing) -> t\n'
                     'stream read less than specified amount, expected 8, found 1',
                     'NoneType',
                     'NoneType'),
                    [['a']]],
                   [('raise',
                     'AttributeError',
                     "'NoneType' object has no attribute 'date'",
                     'NoneType',
                     'NoneType'),
                    ('raise',
                     'StreamError',
                     'Error in path (parsing) -> t\n'
                     'stream read less than specified amount, expected 8, found 1',
                     'NoneType',
                     'NoneType'),
                    [['a']]],
                   [('raise', 'KeyError', "'nope'", 'NoneType', 'NoneType'),
                    ('raise',
                     'StreamError',
                     'Error in path (parsing) -> t\n'
                     'stream read less than specified amount, expected 8, found 1',
                     'NoneType',
                     'NoneType'),
                    [['a']]],
                   [('raise', 'ValueError', 'bad', 'NoneType', 'NoneType'),
                    ('raise',
                     'StreamError',
                     'Error in path (parsing) -> t\n'
                     'stream read less than specified amount, expected 8, found 1',
                     'NoneType',
                     'NoneType'),
                    [['a']]]],
 'ydus-context': [('value',
                   'str',
                   '"[(\'reference\', datetime.datetime(2014, 8, 5, 0, 0, 5)), (\'time\', '
                   "datetime.datetime(2014, 8, 5, 11, 17, 49, 123456)), ('again', "
                   'datetime.datetime(2014, 8, 5, 0, 0, 0, 77))]"'),
                  ('value',
                   'str',
                   '"[(\'reference\', datetime.datetime(2014, 8, 5, 0, 0, 5)), (\'time\', '
                   "datetime.datetime(2014, 8, 8, 0, 0, 0, 1)), ('again', datetime.datetime(2014, "
                   '8, 8, 1, 11, 34, 967295))]"'),
                  ('raise', 'OverflowError', 'date value out of range', 'NoneType', 'NoneType'),
                  ('raise', 'ValueError', 'year 0 is out of range', 'NoneType', 'NoneType'),
                  ('raise',
                   'StreamError',
                   'Error in path (parsing) -> again\n'
                   'stream read less than specified amount, expected 4, found 0',
                   'NoneType',
                   'NoneType')],
 'ydus-missing-field': ('raise', 'KeyError', "'reference'", 'NoneType', 'NoneType'),
 'ydus-class-as-reference': ('raise',
                             'TypeError',
                             "'Container' object cannot be interpreted as an integer",
                             'NoneType',
                             'NoneType'),
 'ydus-now-like': ('value', 'datetime', 'datetime.datetime(2001, 2, 3, 1, 0)'),
 'ydus-state': ['flagbuildnone', 'name', 'parsed', 'reference_date', 'subcon'],
 'ydus-rebound': ('value', 'datetime', 'datetime.datetime(2000, 1, 1, 0, 0, 0, 1)'),
 'bases-DatetimeYdms': ['DatetimeYdms', 'Adapter', 'Subconstruct', 'Construct', 'object'],
 'members-DatetimeYdms': ['__doc__', '__module__', '_decode', '_encode'],
 'doc-DatetimeYdms': None,
 'signature-DatetimeYdms': [['self', 'subcon'],
                            ['self', 'obj', 'context', 'path'],
                            ['self', 'obj', 'context', 'path']],
 'build-DatetimeYdms': [('raise', 'NotImplementedError', '', 'NoneType', 'NoneType'),
                        ('raise', 'NotImplementedError', '', 'NoneType', 'NoneType'),
                        ('raise', 'NotImplementedError', '', 'NoneType', 'NoneType')],
 'sizeof-DatetimeYdms': ('value', 'int', '12'),
 'bases-DatetimeYdus': ['DatetimeYdus', 'Adapter', 'Subconstruct', 'Construct', 'object'],
 'members-DatetimeYdus': ['__doc__', '__init__', '__module__', '_decode', '_encode'],
 'doc-DatetimeYdus': None,
 'signature-DatetimeYdus': [['self', 'base', 'reference_date'],
                            ['self', 'obj', 'context', 'path'],
                            ['self', 'obj', 'context', 'path']],
 'build-DatetimeYdus': [('raise', 'NotImplementedError', '', 'NoneType', 'NoneType'),
                        ('raise', 'NotImplementedError', '', 'NoneType', 'NoneType'),
                        ('raise', 'NotImplementedError', '', 'NoneType', 'NoneType')],
 'sizeof-DatetimeYdus': ('value', 'int', '8'),
 'wrong-arguments': [('raise',
                      'TypeError',
                      "DatetimeYdus.__init__() missing 2 required positional arguments: 'base' and "
                      "'reference_date'",
                      'NoneType',
                      'NoneType'),
                     ('raise',
                      'TypeError',
                      'DatetimeYdus.__init__() missing 1 required positional argument: '
                      "'reference_date'",
                      'NoneType',
                      'NoneType'),
                     ('raise',
                      'TypeError',
                      "DatetimeYdus.__init__() got an unexpected keyword argument 'extra'",
                      'NoneType',
                      'NoneType'),
                     ('value', 'bool', 'True'),
                     ('raise',
                      'TypeError',
                      "Subconstruct.__init__() missing 1 required positional argument: 'subcon'",
                      'NoneType',
                      'NoneType'),
                     ('raise',
                      'TypeError',
                      'Subconstruct.__init__() takes 2 positional arguments but 3 were given',
                      'NoneType',
                      'NoneType')],
 'records': [('value',
              'str',
              "'[datetime.datetime(2014, 8, 5, 11, 17, 49), datetime.datetime(2014, 8, 5, 11, 17, "
              "49, 123456), 544, 12, 556]'"),
             ('value', 'str', "'[datetime.datetime(2014, 8, 5, 11, 17, 49), None, 192, 12, 204]'"),
             ('value',
              'str',
              "'[datetime.datetime(2020, 12, 31, 23, 59, 59, 999000), datetime.datetime(2020, 12, "
              "31, 23, 59, 59, 999999), 544, 12, 556]'"),
             ('value',
              'str',
              "'[datetime.datetime(2020, 12, 31, 23, 59, 59, 999000), None, 192, 12, 204]'"),
             ('value',
              'str',
              "'[datetime.datetime(2021, 1, 1, 0, 0), datetime.datetime(2021, 1, 1, 0, 0), 544, "
              "12, 556]'"),
             ('value', 'str', "'[datetime.datetime(2021, 1, 1, 0, 0), None, 192, 12, 204]'"),
             ('raise', 'ValueError', 'year 0 is out of range', 'NoneType', 'NoneType'),
             ('raise', 'ValueError', 'year 0 is out of range', 'NoneType', 'NoneType'),
             ('raise', 'OverflowError', 'date value out of range', 'NoneType', 'NoneType'),
             ('value', 'str', "'[datetime.datetime(2014, 1, 1, 0, 0), None, 192, 12, 204]'"),
             ('raise', 'OverflowError', 'date value out of range', 'NoneType', 'NoneType'),
             ('value', 'str', "'[datetime.datetime(9999, 12, 31, 0, 0), None, 192, 12, 204]'")],
 'records-array': ('value',
                   'str',
                   "'[datetime.datetime(2014, 8, 5, 0, 0, 0, 5), datetime.datetime(2014, 8, 6, 0, "
                   "0, 0, 6), datetime.datetime(2015, 1, 1, 23, 59, 59, 999999)]'")}


def pack(fmt, *values):
    try:
        return struct.pack(fmt, *values)
    except struct.error:
        return None


def record_bytes(kind, year, day, millis, micros, length=None):
    """A signal (10) or processed (11) data record, blank but for the time stamps."""
    size = {10: 544, 11: 192}[kind]
    pixels = b"\xab\xcd" * 6
    if length is None:
        length = size + len(pixels)
    body = bytearray(size)
    body[0:12] = struct.pack(">IBBBBI", 1, 50, kind, 18, 20, length)
    body[36:48] = struct.pack(">III", year, day, millis)
    if kind == 10:
        body[84:92] = struct.pack(">Q", micros)
    return bytes(body) + pixels


def collect():
    results = {}

    parser = datatypes.DatetimeYdms(ydms_struct)
    results["ydms"] = [
        outcome(parser.parse, struct.pack(">III", *values)) for values in YDMS_INPUTS
    ]
    parser = datatypes.DatetimeYdms(ydms_signed)
    results["ydms-signed"] = [
        outcome(parser.parse, struct.pack(">iii", *values)) for values in YDMS_SIGNED_INPUTS
    ]
    results["ydms-short"] = [
        outcome(datatypes.DatetimeYdms(ydms_struct).parse, b"\x00" * n) for n in (0, 4, 11, 13)
    ]
    # the decoder applied to whatever an arbitrary base hands over
    results["ydms-objects"] = [
        outcome(datatypes.DatetimeYdms(Computed(lambda ctx, obj=obj: obj)).parse, b"")
        for obj in YDMS_OBJECTS
    ]
    results["ydms-direct"] = [
        outcome(datatypes.DatetimeYdms(Pass)._decode, obj, None, "(path)")
        for obj in YDMS_OBJECTS[:6]
    ]
    results["ydms-float"] = outcome(
        datatypes.DatetimeYdms(
            Struct("year" / Int8ub, "day_of_year" / Float64b, "milliseconds" / Float64b)
        ).parse,
        b"\x64" + struct.pack(">dd", 1.75, 1e-3),
    )

    # fixed reference dates
    results["ydus-fixed"] = [
        [
            outcome(datatypes.DatetimeYdus(Int64ub, reference).parse, struct.pack(">Q", value))
            for value in YDUS_VALUES
        ]
        for reference in REFERENCES
    ]
    results["ydus-signed"] = [
        [
            outcome(datatypes.DatetimeYdus(Int64sb, reference).parse, struct.pack(">q", value))
            for value in YDUS_SIGNED_VALUES
        ]
        for reference in REFERENCES[:4]
    ]
    results["ydus-float"] = [
        outcome(
            datatypes.DatetimeYdus(Float64b, REFERENCES[0]).parse,
            struct.pack(">d", value),
        )
        for value in (0.0, 1.5, 1e-3, -0.4, 1e30, float("nan"), float("inf"))
    ]
    results["ydus-bad-reference"] = [
        outcome(datatypes.DatetimeYdus(Int64ub, reference).parse, struct.pack(">Q", 5))
        for reference in BAD_REFERENCES
    ]
    # both the reference date and the value are unusable: which failure wins?
    results["ydus-bad-both"] = [
        outcome(datatypes.DatetimeYdus(Computed(lambda ctx: "x"), reference).parse, b"")
        for reference in BAD_REFERENCES
    ] + [
        outcome(datatypes.DatetimeYdus(Int64ub, reference).parse, struct.pack(">Q", 2**64 - 1))
        for reference in BAD_REFERENCES
    ]
    results["ydus-short"] = [
        outcome(datatypes.DatetimeYdus(Int64ub, REFERENCES[0]).parse, b"\x00" * n)
        for n in (0, 7)
    ]

    # callable reference dates
    calls = []
    for result in [*REFERENCES[:2], *BAD_REFERENCES[:4], KeyError("nope"), ValueError("bad")]:
        reference = Calls(result)
        parser = Struct("a" / Int8ub, "t" / datatypes.DatetimeYdus(Int64ub, reference))
        entry = [
            outcome(
                lambda: [
                    (k, v)
                    for k, v in parser.parse(b"\x07" + struct.pack(">Q", 10**9)).items()
                    if not k.startswith("_")
                ].__repr__()
            ),
            outcome(parser.parse, b"\x07\x00"),
            reference.seen,
        ]
        calls.append(entry)
    results["ydus-callable"] = calls

    framed = Struct(
        "reference" / datatypes.DatetimeYdms(ydms_struct),
        "time" / datatypes.DatetimeYdus(Int64ub, this.reference),
        "again" / datatypes.DatetimeYdus(Int32ub, lambda ctx: ctx["time"]),
    )
    results["ydus-context"] = [
        outcome(
            lambda data=data: [
                (k, v) for k, v in framed.parse(data).items() if not k.startswith("_")
            ].__repr__()
        )
        for data in (
            struct.pack(">IIIQI", 2014, 217, 5000, 40669123456, 77),
            struct.pack(">IIIQI", 2014, 217, 5000, 86400000000 * 3 + 1, 4294967295),
            struct.pack(">IIIQI", 9999, 365, 5000, 86400000000, 1),
            struct.pack(">IIIQI", 0, 365, 5000, 1, 1),
            struct.pack(">IIIQ", 2014, 217, 5000, 1),
        )
    ]
    missing = Struct("time" / datatypes.DatetimeYdus(Int64ub, this.reference))
    results["ydus-missing-field"] = outcome(missing.parse, struct.pack(">Q", 1))
    results["ydus-class-as-reference"] = outcome(
        datatypes.DatetimeYdus(Int64ub, datetime.datetime).parse, struct.pack(">Q", 1)
    )
    results["ydus-now-like"] = outcome(
        datatypes.DatetimeYdus(Int64ub, lambda ctx: datetime.datetime(2001, 2, 3, 4)).parse,
        struct.pack(">Q", 3600 * 10**6),
    )

    # state and interface
    parser = datatypes.DatetimeYdus(Int64ub, REFERENCES[0])
    results["ydus-state"] = sorted(k for k in vars(parser) if k != "docs")
    parser.reference_date = REFERENCES[1].replace(year=2000)
    results["ydus-rebound"] = outcome(parser.parse, struct.pack(">Q", 1))
    for cls in (datatypes.DatetimeYdms, datatypes.DatetimeYdus):
        name = cls.__name__
        results[f"bases-{name}"] = [base.__name__ for base in cls.__mro__]
        results[f"members-{name}"] = sorted(vars(cls))
        results[f"doc-{name}"] = cls.__doc__
        results[f"signature-{name}"] = [
            list(inspect.signature(getattr(cls, attr)).parameters)
            for attr in ("__init__", "_decode", "_encode")
        ]
        results[f"build-{name}"] = [
            outcome(
                (cls(ydms_struct) if cls is datatypes.DatetimeYdms else cls(Int64ub, REFERENCES[0]))
                .build,
                value,
            )
            for value in (datetime.datetime(2000, 1, 1), 0, None)
        ]
        results[f"sizeof-{name}"] = outcome(
            (cls(ydms_struct) if cls is datatypes.DatetimeYdms else cls(Int64ub, None)).sizeof
        )
    results["wrong-arguments"] = [
        outcome(datatypes.DatetimeYdus),
        outcome(datatypes.DatetimeYdus, Int64ub),
        outcome(datatypes.DatetimeYdus, Int64ub, reference_date=REFERENCES[0], extra=1),
        outcome(lambda: datatypes.DatetimeYdus(base=Int64ub, reference_date=None).subcon is Int64ub),
        outcome(datatypes.DatetimeYdms),
        outcome(datatypes.DatetimeYdms, ydms_struct, REFERENCES[0]),
    ]

    # through the records of the sar image files
    records = []
    for args in [
        (2014, 217, 40669000, 40669123456),
        (2020, 366, 86399999, 86399999999),
        (2020, 367, 0, 0),
        (0, 1, 0, 0),
        (2014, 1, 0, 2**64 - 1),
        (9999, 365, 0, 86400000000),
    ]:
        for kind in (10, 11):
            data = record_bytes(kind, *args)
            record = {10: signal_data_record, 11: processed_data_record}[kind]

            def parse(record=record, data=data):
                parsed = record.parse(data)
                return repr(
                    [
                        parsed.sensor_acquisition_date,
                        parsed.get("sensor_acquisition_date_microseconds"),
                        parsed.data.start,
                        parsed.data.size,
                        parsed.data.stop,
                    ]
                )

            records.append(outcome(parse))
    results["records"] = records
    results["records-array"] = outcome(
        lambda: [
            r.sensor_acquisition_date_microseconds
            for r in signal_data_record[3].parse(
                record_bytes(10, 2014, 217, 0, 5)
                + record_bytes(10, 2014, 218, 0, 6)
                + record_bytes(10, 2015, 1, 0, 86400000000 - 1)
            )
        ].__repr__()
    )
    return results


def test_equivalent():
    results = collect()
    assert sorted(results) == sorted(EXPECTED)
    for key, expected in EXPECTED.items():
        assert results[key] == expected, key


if __name__ == "__main__":
    import sys

    if sys.argv[1:] == ["--record"]:
        import pprint

        pprint.pprint(collect(), width=100, sort_dicts=False)
    else:
        test_equivalent()
        print("ok")
