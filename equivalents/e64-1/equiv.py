"""Equivalence check for refactoring 1 (ceos_alos2.summary: parse_line / parse_summary).

Run as

    cd /tmp/wt8/e64 && PYTHONPATH=/tmp/wt8/e64 /venv/bin/python _eq/1/equiv.py

(or through pytest: the file defines ``test_*`` functions).  ``EXPECTED`` was recorded with
``--record`` from the UNCHANGED code at HEAD; the script passes with and without the patch.
"""

import pprint
import sys

from ceos_alos2 import summary

try:
    ExceptionGroup
except NameError:  # pragma: no cover
    from exceptiongroup import ExceptionGroup


def describe_exception(e):
    return (type(e).__name__, e.args, e.__traceback__ is not None, e.__cause__ is None)


def observe_parse_line(line):
    try:
        result = summary.parse_line(line)
    except Exception as e:
        return ("error",) + describe_exception(e)
    assert type(result) is dict
    return ("ok", list(result.items()))


def observe_parse_summary(content):
    try:
        result = summary.parse_summary(content)
    except ExceptionGroup as eg:
        return (
            "group",
            type(eg).__name__,
            eg.message,
            [describe_exception(e) for e in eg.exceptions],
            eg.__context__ is None,
            eg.__cause__ is None,
        )
    except Exception as e:
        return ("error",) + describe_exception(e)

    assert type(result) is dict
    assert all(type(v) is dict for v in result.values())
    # order of sections and keywords is part of the result
    return ("ok", [(section, list(keywords.items())) for section, keywords in result.items()])


LINES = [
    'Scs_SceneShift="0"',
    'Pds_ProductID="WWDR1.1__D"',
    'Scs_SceneShift"0"',
    'PdsProductID="WWDR1.1__D"',
    "",
    " ",
    'Odi_=""',
    'Odi_a="b"c"',
    'Odi_a="b"="c"',
    'Odi__x_="_"',
    'Odi_a_b_c="1 2 3"',
    'odi_a="1"',
    'ODI_a="1"',
    'Od1_a="1"',
    'Odix_a="1"',
    'Od_a="1"',
    ' Odi_a="1"',
    'Odi_a="1" ',
    'Odi_a="1"\n',
    'Odi_a="1\n2"',
    'Odi_a\n="1"',
    'Odi_a=""extra',
    'Odi_a=\'1\'',
    'Édi_a="1"',
    'Odi_é="ü"',
    'Odi_a="',
    'Odi_a=""""',
    b'Odi_a="1"',
    None,
    3,
]

CONTENTS = [
    "",
    "\n",
    'Scs_SceneShift="0"\nPds_ProductID="WWDR1.1__D"',
    'Scs_SceneShift="0"\nPds_ProductID="WWDR1.1__D"\n',
    'Scs_SceneShift"0"\nPdsProductID="WWDR1.1__D"',
    # interleaved sections: order by first appearance
    'Odi_a="1"\nScs_b="2"\nOdi_c="3"\nScs_d="4"\nPds_e="5"\nOdi_f="6"',
    # repeated keyword: first position, last value
    'Odi_a="1"\nOdi_b="2"\nOdi_a="3"\nOdi_c="4"\nOdi_b="5"',
    # sections differing only by case: grouped separately, the later group replaces the earlier
    'Odi_a="1"\nODI_b="2"\nodi_c="3"',
    'Odi_a="1"\nScs_x="9"\nODI_b="2"\nOdi_d="4"\nodi_c="3"\nScs_y="8"',
    'ODI_a="1"\nOdi_a="2"\nScs_a="3"\nSCS_b="4"',
    # odd keywords and values
    'Odi_="x"\nOdi_="y"\nOdi__="z"',
    'Odi_a="b"c"\nOdi_a="b="d"\nOdi_a="b"="c"',
    'Ach_PRF_Check=""\nAch_Other=" "',
    # line separators known to str.splitlines
    'Odi_a="1"\r\nScs_b="2"\rPds_c="3"',
    'Odi_a="1"\x0cScs_b="2"\x1cPds_c="3"\x1dImg_d="4"\x1eLbi_e="5"\x85Rad_f="6"',
    'Odi_a="1" Scs_b="2" Pds_c="3"',
    'Odi_a="1\x0b2"',
    # errors: blank line in the middle, trailing blank line, errors mixed with valid lines
    'Odi_a="1"\n\nScs_b="2"',
    'Odi_a="1"\n\n',
    'Odi_a="1"\nbroken\nScs_b="2"\nalso broken\n \nPds_c="3"',
    "broken",
    " ",
    'Édi_a="1"\nOdi_a="1"',
    # more than 100 lines: the line number is padded to two digits only
    "\n".join(f'Odi_k{i}="{i}"' if i % 7 else f"bad {i}" for i in range(120)),
    "\n".join(f'Odi_k{i % 5}="{i}"' for i in range(40)),
    "\n".join(f'{sec}_k{i}="{i}"' for i in range(12) for sec in ("Odi", "Scs", "ODI")),
    # wrong types
    b'Odi_a="1"',
    b"",
    None,
    12,
    ['Odi_a="1"'],
]


def observe_with_lineno():
    results = []
    for args, lineno in [
        (("invalid line",), 0),
        (("invalid line",), 7),
        (("invalid line",), 99),
        (("invalid line",), 100),
        (("invalid line", "extra", 3), 12),
        ((("a", "b"),), 3),
        ((12,), 3),
        ((None,), 3),
        (("x",), True),
        ((), 1),
        (("x",), "1"),
        (("x",), 1.0),
        (("x",), -1),
    ]:
        e = ValueError(*args)
        try:
            returned = summary.with_lineno(e, lineno)
        except Exception as err:
            results.append(("error", type(err).__name__, err.args, e.args))
        else:
            results.append(("ok", returned is e, e.args))
    return results


def observe_all():
    return {
        "parse_line": [observe_parse_line(line) for line in LINES],
        "parse_summary": [observe_parse_summary(content) for content in CONTENTS],
        "with_lineno": observe_with_lineno(),
    }


# -- recorded from the unchanged code --
EXPECTED = {'parse_line': [('ok', [('section', 'Scs'), ('keyword', 'SceneShift'), ('value', '0')]),
                ('ok', [('section', 'Pds'), ('keyword', 'ProductID'), ('value', 'WWDR1.1__D')]),
                ('error', 'ValueError', ('invalid line',), True, True),
                ('error', 'ValueError', ('invalid line',), True, True),
                ('error', 'ValueError', ('invalid line',), True, True),
                ('error', 'ValueError', ('invalid line',), True, True),
                ('ok', [('section', 'Odi'), ('keyword', ''), ('value', '')]),
                ('ok', [('section', 'Odi'), ('keyword', 'a'), ('value', 'b"c')]),
                ('ok', [('section', 'Odi'), ('keyword', 'a'), ('value', 'b"="c')]),
                ('ok', [('section', 'Odi'), ('keyword', '_x_'), ('value', '_')]),
                ('ok', [('section', 'Odi'), ('keyword', 'a_b_c'), ('value', '1 2 3')]),
                ('ok', [('section', 'odi'), ('keyword', 'a'), ('value', '1')]),
                ('ok', [('section', 'ODI'), ('keyword', 'a'), ('value', '1')]),
                ('error', 'ValueError', ('invalid line',), True, True),
                ('error', 'ValueError', ('invalid line',), True, True),
                ('error', 'ValueError', ('invalid line',), True, True),
                ('error', 'ValueError', ('invalid line',), True, True),
                ('error', 'ValueError', ('invalid line',), True, True),
                ('error', 'ValueError', ('invalid line',), True, True),
                ('error', 'ValueError', ('invalid line',), True, True),
                ('error', 'ValueError', ('invalid line',), True, True),
                ('error', 'ValueError', ('invalid line',), True, True),
                ('error', 'ValueError', ('invalid line',), True, True),
                ('error', 'ValueError', ('invalid line',), True, True),
                ('ok', [('section', 'Odi'), ('keyword', 'é'), ('value', 'ü')]),
                ('error', 'ValueError', ('invalid line',), True, True),
                ('ok', [('section', 'Odi'), ('keyword', 'a'), ('value', '""')]),
                ('error',
                 'TypeError',
                 ('cannot use a string pattern on a bytes-like object',),
                 True,
                 True),
                ('error',
                 'TypeError',
                 ("expected string or bytes-like object, got 'NoneType'",),
                 True,
                 True),
                ('error',
                 'TypeError',
                 ("expected string or bytes-like object, got 'int'",),
                 True,
                 True)],
 'parse_summary': [('ok', []),
                   ('group',
                    'ExceptionGroup',
                    'failed to parse the summary',
                    [('ValueError', ('line 00: invalid line',), True, True)],
                    True,
                    True),
                   ('ok', [('scs', [('SceneShift', '0')]), ('pds', [('ProductID', 'WWDR1.1__D')])]),
                   ('ok', [('scs', [('SceneShift', '0')]), ('pds', [('ProductID', 'WWDR1.1__D')])]),
                   ('group',
                    'ExceptionGroup',
                    'failed to parse the summary',
                    [('ValueError', ('line 00: invalid line',), True, True),
                     ('ValueError', ('line 01: invalid line',), True, True)],
                    True,
                    True),
                   ('ok',
                    [('odi', [('a', '1'), ('c', '3'), ('f', '6')]),
                     ('scs', [('b', '2'), ('d', '4')]),
                     ('pds', [('e', '5')])]),
                   ('ok', [('odi', [('a', '3'), ('b', '5'), ('c', '4')])]),
                   ('ok', [('odi', [('c', '3')])]),
                   ('ok', [('odi', [('c', '3')]), ('scs', [('x', '9'), ('y', '8')])]),
                   ('ok', [('odi', [('a', '2')]), ('scs', [('b', '4')])]),
                   ('ok', [('odi', [('', 'y'), ('_', 'z')])]),
                   ('ok', [('odi', [('a', 'b"="c')])]),
                   ('ok', [('ach', [('PRF_Check', ''), ('Other', ' ')])]),
                   ('ok', [('odi', [('a', '1')]), ('scs', [('b', '2')]), ('pds', [('c', '3')])]),
                   ('ok',
                    [('odi', [('a', '1')]),
                     ('scs', [('b', '2')]),
                     ('pds', [('c', '3')]),
                     ('img', [('d', '4')]),
                     ('lbi', [('e', '5')]),
                     ('rad', [('f', '6')])]),
                   ('ok', [('odi', [('a', '1')]), ('scs', [('b', '2')]), ('pds', [('c', '3')])]),
                   ('group',
                    'ExceptionGroup',
                    'failed to parse the summary',
                    [('ValueError', ('line 00: invalid line',), True, True),
                     ('ValueError', ('line 01: invalid line',), True, True)],
                    True,
                    True),
                   ('group',
                    'ExceptionGroup',
                    'failed to parse the summary',
                    [('ValueError', ('line 01: invalid line',), True, True)],
                    True,
                    True),
                   ('group',
                    'ExceptionGroup',
                    'failed to parse the summary',
                    [('ValueError', ('line 01: invalid line',), True, True)],
                    True,
                    True),
                   ('group',
                    'ExceptionGroup',
                    'failed to parse the summary',
                    [('ValueError', ('line 01: invalid line',), True, True),
                     ('ValueError', ('line 03: invalid line',), True, True),
                     ('ValueError', ('line 04: invalid line',), True, True)],
                    True,
                    True),
                   ('group',
                    'ExceptionGroup',
                    'failed to parse the summary',
                    [('ValueError', ('line 00: invalid line',), True, True)],
                    True,
                    True),
                   ('group',
                    'ExceptionGroup',
                    'failed to parse the summary',
                    [('ValueError', ('line 00: invalid line',), True, True)],
                    True,
                    True),
                   ('group',
                    'ExceptionGroup',
                    'failed to parse the summary',
                    [('ValueError', ('line 00: invalid line',), True, True)],
                    True,
                    True),
                   ('group',
                    'ExceptionGroup',
                    'failed to parse the summary',
                    [('ValueError', ('line 00: invalid line',), True, True),
                     ('ValueError', ('line 07: invalid line',), True, True),
                     ('ValueError', ('line 14: invalid line',), True, True),
                     ('ValueError', ('line 21: invalid line',), True, True),
                     ('ValueError', ('line 28: invalid line',), True, True),
                     ('ValueError', ('line 35: invalid line',), True, True),
                     ('ValueError', ('line 42: invalid line',), True, True),
                     ('ValueError', ('line 49: invalid line',), True, True),
                     ('ValueError', ('line 56: invalid line',), True, True),
                     ('ValueError', ('line 63: invalid line',), True, True),
                     ('ValueError', ('line 70: invalid line',), True, True),
                     ('ValueError', ('line 77: invalid line',), True, True),
                     ('ValueError', ('line 84: invalid line',), True, True),
                     ('ValueError', ('line 91: invalid line',), True, True),
                     ('ValueError', ('line 98: invalid line',), True, True),
                     ('ValueError', ('line 105: invalid line',), True, True),
                     ('ValueError', ('line 112: invalid line',), True, True),
                     ('ValueError', ('line 119: invalid line',), True, True)],
                    True,
                    True),
                   ('ok',
                    [('odi',
                      [('k0', '35'), ('k1', '36'), ('k2', '37'), ('k3', '38'), ('k4', '39')])]),
                   ('ok',
                    [('odi',
                      [('k0', '0'),
                       ('k1', '1'),
                       ('k2', '2'),
                       ('k3', '3'),
                       ('k4', '4'),
                       ('k5', '5'),
                       ('k6', '6'),
                       ('k7', '7'),
                       ('k8', '8'),
                       ('k9', '9'),
                       ('k10', '10'),
                       ('k11', '11')]),
                     ('scs',
                      [('k0', '0'),
                       ('k1', '1'),
                       ('k2', '2'),
                       ('k3', '3'),
                       ('k4', '4'),
                       ('k5', '5'),
                       ('k6', '6'),
                       ('k7', '7'),
                       ('k8', '8'),
                       ('k9', '9'),
                       ('k10', '10'),
                       ('k11', '11')])]),
                   ('error',
                    'TypeError',
                    ('cannot use a string pattern on a bytes-like object',),
                    True,
                    True),
                   ('ok', []),
                   ('error',
                    'AttributeError',
                    ("'NoneType' object has no attribute 'splitlines'",),
                    True,
                    True),
                   ('error',
                    'AttributeError',
                    ("'int' object has no attribute 'splitlines'",),
                    True,
                    True),
                   ('error',
                    'AttributeError',
                    ("'list' object has no attribute 'splitlines'",),
                    True,
                    True)],
 'with_lineno': [('ok', True, ('line 00: invalid line',)),
                 ('ok', True, ('line 07: invalid line',)),
                 ('ok', True, ('line 99: invalid line',)),
                 ('ok', True, ('line 100: invalid line',)),
                 ('ok', True, ('line 12: invalid line', 'extra', 3)),
                 ('ok', True, ("line 03: ('a', 'b')",)),
                 ('ok', True, ('line 03: 12',)),
                 ('ok', True, ('line 03: None',)),
                 ('ok', True, ('line 01: x',)),
                 ('error', 'IndexError', ('tuple index out of range',), ()),
                 ('error',
                  'ValueError',
                  ("Unknown format code 'd' for object of type 'str'",),
                  ('x',)),
                 ('error',
                  'ValueError',
                  ("Unknown format code 'd' for object of type 'float'",),
                  ('x',)),
                 ('ok', True, ('line -1: x',))]}
# -- end of recording --


def test_public_names():
    for name in ("entry_re", "section_names", "parse_line", "with_lineno", "parse_summary"):
        assert hasattr(summary, name)
    assert summary.entry_re.pattern == r'(?P<section>[A-Za-z]{3})_(?P<keyword>.*?)="(?P<value>.*?)"'


def test_parse_line():
    actual = observe_all()["parse_line"]
    assert len(actual) == len(EXPECTED["parse_line"])
    for line, a, e in zip(LINES, actual, EXPECTED["parse_line"]):
        assert a == e, (line, a, e)


def test_parse_summary():
    actual = observe_all()["parse_summary"]
    assert len(actual) == len(EXPECTED["parse_summary"])
    for content, a, e in zip(CONTENTS, actual, EXPECTED["parse_summary"]):
        assert a == e, (content, a, e)


def test_with_lineno():
    assert observe_all()["with_lineno"] == EXPECTED["with_lineno"]


def test_error_identity():
    # the exceptions in the group are the ones raised by parse_line (modified in place)
    content = 'bad\nOdi_a="1"\nworse'
    try:
        summary.parse_summary(content)
    except ExceptionGroup as eg:
        assert [e.args for e in eg.exceptions] == [
            ("line 00: invalid line",),
            ("line 02: invalid line",),
        ]
        for e in eg.exceptions:
            assert type(e) is ValueError
            frames = []
            tb = e.__traceback__
            while tb is not None:
                frames.append(tb.tb_frame.f_code.co_name)
                tb = tb.tb_next
            assert frames == ["parse_summary", "parse_line"], frames
    else:
        raise AssertionError("did not raise")


def test_fresh_results():
    # each call returns new containers
    content = 'Odi_a="1"\nScs_b="2"'
    first = summary.parse_summary(content)
    second = summary.parse_summary(content)
    assert first == second and first is not second
    assert first["odi"] is not second["odi"]
    first["odi"]["a"] = "changed"
    assert summary.parse_summary(content) == second


if __name__ == "__main__":
    if "--record" in sys.argv:
        pprint.pprint(observe_all(), width=100, sort_dicts=False)
        sys.exit(0)

    tests = [obj for name, obj in sorted(globals().items()) if name.startswith("test_")]
    for test in tests:
        test()
        print("ok", test.__name__)
    print(f"all {len(tests)} checks passed")
