"""Equivalence check for refactoring 2 (group / hierarchy encoders and ``preprocess``).

Run as

    cd /tmp/wt8/e63 && PYTHONPATH=/tmp/wt8/e63 /venv/bin/python _eq/2/equiv.py

The expected values in ``EXPECTED`` were recorded from the unchanged code
(``--record`` prints a fresh table). The script must pass with and without
``patch.diff`` applied. It can also be collected by pytest (``test_equiv``).
"""

import collections
import json
import pprint
import sys
import types

import fsspec
import numpy as np

from ceos_alos2.array import Array
from ceos_alos2.hierarchy import Group, Variable
from ceos_alos2.sar_image.caching import encoders


def canon(obj):
    """type-preserving, order-preserving text form"""
    if isinstance(obj, dict):
        items = ", ".join(f"{canon(k)}: {canon(v)}" for k, v in obj.items())
        return f"{type(obj).__name__}{{{items}}}"
    if isinstance(obj, (list, tuple)):
        items = ", ".join(canon(v) for v in obj)
        return f"{type(obj).__name__}[{items}]"
    return f"{type(obj).__name__}:{obj!r}"


def run(func, *args, **kwargs):
    try:
        result = func(*args, **kwargs)
    except Exception as e:  # noqa: BLE001
        return f"raises {type(e).__name__}: {e}"
    return canon(result)


def make_array(shape=(4, 3), dtype="int16", type_code="IU2", url="file", path="/path/to"):
    byte_ranges = [(x * 10 + 5, (x + 1) * 10) for x in range(shape[0])]
    fs = fsspec.filesystem("memory")
    dirfs = fsspec.filesystem("dir", path=path, fs=fs)
    return Array(
        fs=dirfs,
        url=url,
        byte_ranges=byte_ranges,
        shape=shape,
        dtype=dtype,
        type_code=type_code,
        records_per_chunk=2,
    )



class MyDict(dict):
    pass


class MyList(list):
    pass


Point = collections.namedtuple("Point", ["x", "y"])


class MyMapping(collections.abc.Mapping):
    def __init__(self, data):
        self._data = data

    def __getitem__(self, key):
        return self._data[key]

    def __iter__(self):
        return iter(self._data)

    def __len__(self):
        return len(self._data)

    def __repr__(self):
        return f"MyMapping({self._data!r})"


class MyGroup(Group):
    pass


class MyVariable(Variable):
    pass


def nested(depth, kind):
    obj = 1
    for _ in range(depth):
        if kind == "list":
            obj = [obj]
        elif kind == "tuple":
            obj = (obj,)
        else:
            obj = {"k": obj}
    return obj


def collect():
    results = {}

    leaf_array = np.array([1, 2])
    leaf_set = {1}
    leaf_mapping = MyMapping({"a": (1, 2)})
    data = {
        "int": 1,
        "float": 1.5,
        "bool": True,
        "none": None,
        "str": "abc",
        "bytes": b"abc",
        "tuple": (2, 3),
        "list": [2, 3],
        "dict": {"a": 1, "b": 2},
        "empty-tuple": (),
        "empty-list": [],
        "empty-dict": {},
        "nested-tuple": ({"a": 1}, 2),
        "nested-list": [(2, 3), (3, 4)],
        "nested-dict": {"a": (2, 3), "b": [{"c": 1}]},
        "tuple-in-tuple": ((1, (2, ())), [3, (4,)]),
        "int-keys": {1: (1,), 2: [2]},
        "tuple-keys": {(1, 2): (3, 4)},
        "key-order": {"z": 1, "a": (2,), "m": [3]},
        "namedtuple": Point(1, (2, 3)),
        "ordered-dict": collections.OrderedDict([("b", (1,)), ("a", 2)]),
        "defaultdict": collections.defaultdict(list, {"a": [(1,)]}),
        "counter": collections.Counter("aab"),
        "dict-subclass": MyDict(a=(1,), b=MyDict()),
        "list-subclass": MyList([(1,), MyList()]),
        "set": leaf_set,
        "frozenset": frozenset([(1, 2)]),
        "array": leaf_array,
        "mapping": leaf_mapping,
        "range": range(3),
        "deque": collections.deque([(1,)]),
        "generator-type": iter([1]).__class__,
        "deep-list": nested(60, "list"),
        "deep-tuple": nested(60, "tuple"),
        "deep-dict": nested(60, "dict"),
        "fake-tuple-marker": {"__type__": "tuple", "data": (1, 2)},
        "np-scalar": np.int8(3),
        "0d-datetime": np.datetime64("2019-01-01"),
    }
    for name, value in data.items():
        results[f"preprocess/{name}"] = run(encoders.preprocess, value)

    # leaves are passed through (same object), containers are rebuilt
    identity = {}
    for name in ["int", "str", "none", "set", "array", "mapping", "range", "deque"]:
        identity[name] = encoders.preprocess(data[name]) is data[name]
    for name in ["list", "dict", "empty-list", "empty-dict", "list-subclass", "dict-subclass"]:
        identity[name] = encoders.preprocess(data[name]) is data[name]
    identity["nested-leaf"] = encoders.preprocess([leaf_array])[0] is leaf_array
    identity["nested-leaf-in-tuple"] = encoders.preprocess((leaf_set,))["data"][0] is leaf_set
    identity["nested-leaf-in-dict"] = encoders.preprocess({"a": leaf_mapping})["a"] is leaf_mapping
    results["preprocess/identity"] = canon(identity)

    # the input is not modified
    original = {"a": (1, [2, (3,)]), "b": [{"c": (4,)}]}
    encoders.preprocess(original)
    results["preprocess/input-unmodified"] = canon(original)

    for name in ["nested-dict", "tuple-in-tuple", "namedtuple", "ordered-dict", "key-order"]:
        results[f"preprocess+json/{name}"] = run(
            lambda v: json.dumps(encoders.preprocess(v)), data[name]
        )
    results["preprocess+json/tuple-keys"] = run(
        lambda v: json.dumps(encoders.preprocess(v)), data["tuple-keys"]
    )

    # dict subclasses with overridden views: errors propagate unchanged
    def exploding(method):
        def fail(self):
            raise RuntimeError(f"{method} called")

        return type(f"Exploding{method.title()}", (dict,), {method: fail})

    for method in ["items", "keys", "values", "__iter__"]:
        cls = exploding(method)
        results[f"preprocess/exploding-{method}"] = run(encoders.preprocess, [1, cls(a=(1,))])
        group = Group(path="/e", url="u", data={}, attrs={})
        group.data = cls()
        results[f"group/exploding-{method}"] = run(encoders.encode_group, group)

    # --- encode_group / encode_hierarchy
    v_int = Variable("x", np.array([1, 2], dtype="int8"), {})
    v_2d = Variable(["x", "y"], np.array([[1, 2], [3, 4]], dtype="int32"), {"a": (1, 2)})
    v_time = Variable("t", np.array(["2019-01-01", "2019-01-03"], dtype="M8[s]"), {"u": [1]})
    v_img = Variable(["r", "c"], make_array(), {"b": 1})
    duck = types.SimpleNamespace(dims=("q",), data=[1.5, 2.5], attrs={"duck": True})

    groups = {
        "empty": Group(path="path", url="abc", data={}, attrs={"abc": "def"}),
        "root-defaults": Group(path=None, url=None, data={"v": v_int}, attrs={}),
        "subgroup": Group(
            path=None,
            url=None,
            data={"g": Group(path=None, url=None, data={}, attrs={"n": "g"})},
            attrs={},
        ),
        "mixed-order": Group(
            path=None,
            url="s3://bucket/scene",
            data={
                "z": v_2d,
                "sub": Group(
                    path="ignored",
                    url=None,
                    data={
                        "inner": Group(path=None, url="other", data={"t": v_time}, attrs={"d": 2}),
                        "v": v_int,
                    },
                    attrs={"d": 1},
                ),
                "a": v_img,
                "sub2": Group(path=None, url=None, data={}, attrs={}),
            },
            attrs={"k": (1, 2), "l": [3]},
        ),
        "duck-variable": Group(path=None, url="u", data={"duck": duck}, attrs={}),
        "ordered-data": Group(
            path="/x", url="u", data=collections.OrderedDict([("b", v_int), ("a", v_2d)]), attrs={}
        ),
        "subclass": MyGroup(
            path=None,
            url="u",
            data={"g": MyGroup(path=None, url=None, data={"v": v_int}, attrs={})},
            attrs={},
        ),
        "bad-entry": Group(path=None, url="u", data={"v": v_int, "bad": 1, "w": v_2d}, attrs={}),
        "bad-nested": Group(
            path=None,
            url="u",
            data={"g": Group(path=None, url=None, data={"bad": "text"}, attrs={})},
            attrs={},
        ),
    }
    # entries assigned behind the back of the constructor
    raw = Group(path="/raw", url="u", data={}, attrs={})
    raw.data = collections.OrderedDict([("later", v_int), ("g", groups["empty"])])
    groups["raw-data"] = raw
    mapping_data = Group(path="/m", url="u", data={}, attrs={})
    mapping_data.data = MyMapping({"v": v_int, "g": groups["subgroup"]})
    groups["mapping-data"] = mapping_data

    for name, group in groups.items():
        results[f"group/{name}"] = run(encoders.encode_group, group)
        results[f"hierarchy/{name}"] = run(encoders.encode_hierarchy, group)
    for name in ["mixed-order", "empty", "ordered-data", "raw-data", "mapping-data"]:
        encoded = encoders.encode_group(groups[name])
        results[f"group-types/{name}"] = canon(
            [
                type(encoded).__name__,
                list(encoded),
                type(encoded["data"]).__name__,
                encoded["attrs"] is groups[name].attrs,
            ]
        )
        results[f"encode/{name}"] = run(
            lambda g: json.dumps(encoders.preprocess(encoders.encode_hierarchy(g))), groups[name]
        )

    results["group/not-a-group"] = run(encoders.encode_group, v_int)
    results["group/none"] = run(encoders.encode_group, None)
    results["group/dict"] = run(encoders.encode_group, {"data": {}})
    results["group/namespace"] = run(
        encoders.encode_group,
        types.SimpleNamespace(url="u", data={"duck": duck, "g": groups["empty"]}, path="p", attrs={}),
    )

    others = {
        "variable": v_2d,
        "backend-variable": v_img,
        "variable-subclass": MyVariable("x", [1, 2], {"s": 1}),
        "duck": duck,
        "int": 1,
        "none": None,
        "dict": {"__type__": "group"},
        "list": [v_int],
        "tuple": (1, 2),
        "array": np.array([1]),
        "backend-array": make_array(),
        "class-group": Group,
        "class-variable": Variable,
    }
    for name, obj in others.items():
        results[f"hierarchy/{name}"] = run(encoders.encode_hierarchy, obj)
    results["hierarchy/identity"] = canon(
        {
            name: encoders.encode_hierarchy(others[name]) is others[name]
            for name in ["duck", "int", "none", "dict", "list", "array", "backend-array"]
        }
    )

    # the specific encoders are looked up by name in the module at call time
    calls = []
    originals = encoders.encode_variable, encoders.encode_group

    def fake_variable(var):
        calls.append(("variable", type(var).__name__))
        return {"fake": "variable"}

    def fake_group(group):
        calls.append(("group", group.path))
        return originals[1](group)

    encoders.encode_variable = fake_variable
    try:
        results["patched-variable/group"] = run(originals[1], groups["mixed-order"])
        results["patched-variable/hierarchy"] = run(encoders.encode_hierarchy, groups["bad-entry"])
        results["patched-variable/variable"] = run(encoders.encode_hierarchy, v_int)
        encoders.encode_group = fake_group
        results["patched-both/group"] = run(originals[1], groups["mixed-order"])
        results["patched-both/hierarchy"] = run(encoders.encode_hierarchy, groups["subclass"])
    finally:
        encoders.encode_variable, encoders.encode_group = originals
    results["patched/calls"] = canon(calls)

    return results


EXPECTED = None  # replaced below


def check():
    actual = collect()
    assert list(actual) == list(EXPECTED), "different set of cases"
    failures = [name for name in EXPECTED if actual[name] != EXPECTED[name]]
    for name in failures:
        print(f"MISMATCH {name}:\n  expected {EXPECTED[name]}\n  actual   {actual[name]}")
    assert not failures, failures
    return len(actual)


def test_equiv():
    check()


# EXPECTED-BEGIN
EXPECTED = {'preprocess/int': 'int:1',
 'preprocess/float': 'float:1.5',
 'preprocess/bool': 'bool:True',
 'preprocess/none': 'NoneType:None',
 'preprocess/str': "str:'abc'",
 'preprocess/bytes': "bytes:b'abc'",
 'preprocess/tuple': "dict{str:'__type__': str:'tuple', str:'data': list[int:2, int:3]}",
 'preprocess/list': 'list[int:2, int:3]',
 'preprocess/dict': "dict{str:'a': int:1, str:'b': int:2}",
 'preprocess/empty-tuple': "dict{str:'__type__': str:'tuple', str:'data': list[]}",
 'preprocess/empty-list': 'list[]',
 'preprocess/empty-dict': 'dict{}',
 'preprocess/nested-tuple': "dict{str:'__type__': str:'tuple', str:'data': list[dict{str:'a': "
                            'int:1}, int:2]}',
 'preprocess/nested-list': "list[dict{str:'__type__': str:'tuple', str:'data': list[int:2, "
                           "int:3]}, dict{str:'__type__': str:'tuple', str:'data': list[int:3, "
                           'int:4]}]',
 'preprocess/nested-dict': "dict{str:'a': dict{str:'__type__': str:'tuple', str:'data': "
                           "list[int:2, int:3]}, str:'b': list[dict{str:'c': int:1}]}",
 'preprocess/tuple-in-tuple': "dict{str:'__type__': str:'tuple', str:'data': "
                              "list[dict{str:'__type__': str:'tuple', str:'data': list[int:1, "
                              "dict{str:'__type__': str:'tuple', str:'data': list[int:2, "
                              "dict{str:'__type__': str:'tuple', str:'data': list[]}]}]}, "
                              "list[int:3, dict{str:'__type__': str:'tuple', str:'data': "
                              'list[int:4]}]]}',
 'preprocess/int-keys': "dict{int:1: dict{str:'__type__': str:'tuple', str:'data': list[int:1]}, "
                        'int:2: list[int:2]}',
 'preprocess/tuple-keys': "dict{tuple[int:1, int:2]: dict{str:'__type__': str:'tuple', str:'data': "
                          'list[int:3, int:4]}}',
 'preprocess/key-order': "dict{str:'z': int:1, str:'a': dict{str:'__type__': str:'tuple', "
                         "str:'data': list[int:2]}, str:'m': list[int:3]}",
 'preprocess/namedtuple': "dict{str:'__type__': str:'tuple', str:'data': list[int:1, "
                          "dict{str:'__type__': str:'tuple', str:'data': list[int:2, int:3]}]}",
 'preprocess/ordered-dict': "dict{str:'b': dict{str:'__type__': str:'tuple', str:'data': "
                            "list[int:1]}, str:'a': int:2}",
 'preprocess/defaultdict': "dict{str:'a': list[dict{str:'__type__': str:'tuple', str:'data': "
                           'list[int:1]}]}',
 'preprocess/counter': "dict{str:'a': int:2, str:'b': int:1}",
 'preprocess/dict-subclass': "dict{str:'a': dict{str:'__type__': str:'tuple', str:'data': "
                             "list[int:1]}, str:'b': dict{}}",
 'preprocess/list-subclass': "list[dict{str:'__type__': str:'tuple', str:'data': list[int:1]}, "
                             'list[]]',
 'preprocess/set': 'set:{1}',
 'preprocess/frozenset': 'frozenset:frozenset({(1, 2)})',
 'preprocess/array': 'ndarray:array([1, 2])',
 'preprocess/mapping': "MyMapping:MyMapping({'a': (1, 2)})",
 'preprocess/range': 'range:range(0, 3)',
 'preprocess/deque': 'deque:deque([(1,)])',
 'preprocess/generator-type': "type:<class 'list_iterator'>",
 'preprocess/deep-list': 'list[list[list[list[list[list[list[list[list[list[list[list[list[list[list[list[list[list[list[list[list[list[list[list[list[list[list[list[list[list[list[list[list[list[list[list[list[list[list[list[list[list[list[list[list[list[list[list[list[list[list[list[list[list[list[list[list[list[list[list[int:1]]]]]]]]]]]]]]]]]]]]]]]]]]]]]]]]]]]]]]]]]]]]]]]]]]]]]]]]]]]]',
 'preprocess/deep-tuple': "dict{str:'__type__': str:'tuple', str:'data': list[dict{str:'__type__': "
                          "str:'tuple', str:'data': list[dict{str:'__type__': str:'tuple', "
                          "str:'data': list[dict{str:'__type__': str:'tuple', str:'data': "
                          "list[dict{str:'__type__': str:'tuple', str:'data': "
                          "list[dict{str:'__type__': str:'tuple', str:'data': "
                          "list[dict{str:'__type__': str:'tuple', str:'data': "
                          "list[dict{str:'__type__': str:'tuple', str:'data': "
                          "list[dict{str:'__type__': str:'tuple', str:'data': "
                          "list[dict{str:'__type__': str:'tuple', str:'data': "
                          "list[dict{str:'__type__': str:'tuple', str:'data': "
                          "list[dict{str:'__type__': str:'tuple', str:'data': "
                          "list[dict{str:'__type__': str:'tuple', str:'data': "
                          "list[dict{str:'__type__': str:'tuple', str:'data': "
                          "list[dict{str:'__type__': str:'tuple', str:'data': "
                          "list[dict{str:'__type__': str:'tuple', str:'data': "
                          "list[dict{str:'__type__': str:'tuple', str:'data': "
                          "list[dict{str:'__type__': str:'tuple', str:'data': "
                          "list[dict{str:'__type__': str:'tuple', str:'data': "
                          "list[dict{str:'__type__': str:'tuple', str:'data': "
                          "list[dict{str:'__type__': str:'tuple', str:'data': "
                          "list[dict{str:'__type__': str:'tuple', str:'data': "
                          "list[dict{str:'__type__': str:'tuple', str:'data': "
                          "list[dict{str:'__type__': str:'tuple', str:'data': "
                          "list[dict{str:'__type__': str:'tuple', str:'data': "
                          "list[dict{str:'__type__': str:'tuple', str:'data': "
                          "list[dict{str:'__type__': str:'tuple', str:'data': "
                          "list[dict{str:'__type__': str:'tuple', str:'data': "
                          "list[dict{str:'__type__': str:'tuple', str:'data': "
                          "list[dict{str:'__type__': str:'tuple', str:'data': "
                          "list[dict{str:'__type__': str:'tuple', str:'data': "
                          "list[dict{str:'__type__': str:'tuple', str:'data': "
                          "list[dict{str:'__type__': str:'tuple', str:'data': "
                          "list[dict{str:'__type__': str:'tuple', str:'data': "
                          "list[dict{str:'__type__': str:'tuple', str:'data': "
                          "list[dict{str:'__type__': str:'tuple', str:'data': "
                          "list[dict{str:'__type__': str:'tuple', str:'data': "
                          "list[dict{str:'__type__': str:'tuple', str:'data': "
                          "list[dict{str:'__type__': str:'tuple', str:'data': "
                          "list[dict{str:'__type__': str:'tuple', str:'data': "
                          "list[dict{str:'__type__': str:'tuple', str:'data': "
                          "list[dict{str:'__type__': str:'tuple', str:'data': "
                          "list[dict{str:'__type__': str:'tuple', str:'data': "
                          "list[dict{str:'__type__': str:'tuple', str:'data': "
                          "list[dict{str:'__type__': str:'tuple', str:'data': "
                          "list[dict{str:'__type__': str:'tuple', str:'data': "
                          "list[dict{str:'__type__': str:'tuple', str:'data': "
                          "list[dict{str:'__type__': str:'tuple', str:'data': "
                          "list[dict{str:'__type__': str:'tuple', str:'data': "
                          "list[dict{str:'__type__': str:'tuple', str:'data': "
                          "list[dict{str:'__type__': str:'tuple', str:'data': "
                          "list[dict{str:'__type__': str:'tuple', str:'data': "
                          "list[dict{str:'__type__': str:'tuple', str:'data': "
                          "list[dict{str:'__type__': str:'tuple', str:'data': "
                          "list[dict{str:'__type__': str:'tuple', str:'data': "
                          "list[dict{str:'__type__': str:'tuple', str:'data': "
                          "list[dict{str:'__type__': str:'tuple', str:'data': "
                          "list[dict{str:'__type__': str:'tuple', str:'data': "
                          "list[dict{str:'__type__': str:'tuple', str:'data': "
                          "list[dict{str:'__type__': str:'tuple', str:'data': "
                          'list[int:1]}]}]}]}]}]}]}]}]}]}]}]}]}]}]}]}]}]}]}]}]}]}]}]}]}]}]}]}]}]}]}]}]}]}]}]}]}]}]}]}]}]}]}]}]}]}]}]}]}]}]}]}]}]}]}]}]}]}]}]}',
 'preprocess/deep-dict': "dict{str:'k': dict{str:'k': dict{str:'k': dict{str:'k': dict{str:'k': "
                         "dict{str:'k': dict{str:'k': dict{str:'k': dict{str:'k': dict{str:'k': "
                         "dict{str:'k': dict{str:'k': dict{str:'k': dict{str:'k': dict{str:'k': "
                         "dict{str:'k': dict{str:'k': dict{str:'k': dict{str:'k': dict{str:'k': "
                         "dict{str:'k': dict{str:'k': dict{str:'k': dict{str:'k': dict{str:'k': "
                         "dict{str:'k': dict{str:'k': dict{str:'k': dict{str:'k': dict{str:'k': "
                         "dict{str:'k': dict{str:'k': dict{str:'k': dict{str:'k': dict{str:'k': "
                         "dict{str:'k': dict{str:'k': dict{str:'k': dict{str:'k': dict{str:'k': "
                         "dict{str:'k': dict{str:'k': dict{str:'k': dict{str:'k': dict{str:'k': "
                         "dict{str:'k': dict{str:'k': dict{str:'k': dict{str:'k': dict{str:'k': "
                         "dict{str:'k': dict{str:'k': dict{str:'k': dict{str:'k': dict{str:'k': "
                         "dict{str:'k': dict{str:'k': dict{str:'k': dict{str:'k': dict{str:'k': "
                         'int:1}}}}}}}}}}}}}}}}}}}}}}}}}}}}}}}}}}}}}}}}}}}}}}}}}}}}}}}}}}}}',
 'preprocess/fake-tuple-marker': "dict{str:'__type__': str:'tuple', str:'data': "
                                 "dict{str:'__type__': str:'tuple', str:'data': list[int:1, "
                                 'int:2]}}',
 'preprocess/np-scalar': 'int8:np.int8(3)',
 'preprocess/0d-datetime': "datetime64:np.datetime64('2019-01-01')",
 'preprocess/identity': "dict{str:'int': bool:True, str:'str': bool:True, str:'none': bool:True, "
                        "str:'set': bool:True, str:'array': bool:True, str:'mapping': bool:True, "
                        "str:'range': bool:True, str:'deque': bool:True, str:'list': bool:False, "
                        "str:'dict': bool:False, str:'empty-list': bool:False, str:'empty-dict': "
                        "bool:False, str:'list-subclass': bool:False, str:'dict-subclass': "
                        "bool:False, str:'nested-leaf': bool:True, str:'nested-leaf-in-tuple': "
                        "bool:True, str:'nested-leaf-in-dict': bool:True}",
 'preprocess/input-unmodified': "dict{str:'a': tuple[int:1, list[int:2, tuple[int:3]]], str:'b': "
                                "list[dict{str:'c': tuple[int:4]}]}",
 'preprocess+json/nested-dict': 'str:\'{"a": {"__type__": "tuple", "data": [2, 3]}, "b": [{"c": '
                                "1}]}'",
 'preprocess+json/tuple-in-tuple': 'str:\'{"__type__": "tuple", "data": [{"__type__": "tuple", '
                                   '"data": [1, {"__type__": "tuple", "data": [2, {"__type__": '
                                   '"tuple", "data": []}]}]}, [3, {"__type__": "tuple", "data": '
                                   "[4]}]]}'",
 'preprocess+json/namedtuple': 'str:\'{"__type__": "tuple", "data": [1, {"__type__": "tuple", '
                               '"data": [2, 3]}]}\'',
 'preprocess+json/ordered-dict': 'str:\'{"b": {"__type__": "tuple", "data": [1]}, "a": 2}\'',
 'preprocess+json/key-order': 'str:\'{"z": 1, "a": {"__type__": "tuple", "data": [2]}, "m": [3]}\'',
 'preprocess+json/tuple-keys': 'raises TypeError: keys must be str, int, float, bool or None, not '
                               'tuple',
 'preprocess/exploding-items': "list[int:1, dict{str:'a': dict{str:'__type__': str:'tuple', "
                               "str:'data': list[int:1]}}]",
 'group/exploding-items': "dict{str:'__type__': str:'group', str:'url': str:'u', str:'data': "
                          "dict{}, str:'path': str:'/e', str:'attrs': dict{}}",
 'preprocess/exploding-keys': 'raises RuntimeError: keys called',
 'group/exploding-keys': 'raises RuntimeError: keys called',
 'preprocess/exploding-values': 'raises RuntimeError: values called',
 'group/exploding-values': 'raises RuntimeError: values called',
 'preprocess/exploding-__iter__': "list[int:1, dict{str:'a': dict{str:'__type__': str:'tuple', "
                                  "str:'data': list[int:1]}}]",
 'group/exploding-__iter__': "dict{str:'__type__': str:'group', str:'url': str:'u', str:'data': "
                             "dict{}, str:'path': str:'/e', str:'attrs': dict{}}",
 'group/empty': "dict{str:'__type__': str:'group', str:'url': str:'abc', str:'data': dict{}, "
                "str:'path': str:'path', str:'attrs': dict{str:'abc': str:'def'}}",
 'hierarchy/empty': "dict{str:'__type__': str:'group', str:'url': str:'abc', str:'data': dict{}, "
                    "str:'path': str:'path', str:'attrs': dict{str:'abc': str:'def'}}",
 'group/root-defaults': "dict{str:'__type__': str:'group', str:'url': NoneType:None, str:'data': "
                        "dict{str:'v': dict{str:'__type__': str:'variable', str:'dims': "
                        "list[str:'x'], str:'data': dict{str:'__type__': str:'array', str:'dtype': "
                        "str:'int8', str:'data': list[int:1, int:2], str:'encoding': dict{}}, "
                        "str:'attrs': dict{}}}, str:'path': str:'/', str:'attrs': dict{}}",
 'hierarchy/root-defaults': "dict{str:'__type__': str:'group', str:'url': NoneType:None, "
                            "str:'data': dict{str:'v': dict{str:'__type__': str:'variable', "
                            "str:'dims': list[str:'x'], str:'data': dict{str:'__type__': "
                            "str:'array', str:'dtype': str:'int8', str:'data': list[int:1, int:2], "
                            "str:'encoding': dict{}}, str:'attrs': dict{}}}, str:'path': str:'/', "
                            "str:'attrs': dict{}}",
 'group/subgroup': "dict{str:'__type__': str:'group', str:'url': NoneType:None, str:'data': "
                   "dict{str:'g': dict{str:'__type__': str:'group', str:'url': NoneType:None, "
                   "str:'data': dict{}, str:'path': str:'/g', str:'attrs': dict{str:'n': "
                   "str:'g'}}}, str:'path': str:'/', str:'attrs': dict{}}",
 'hierarchy/subgroup': "dict{str:'__type__': str:'group', str:'url': NoneType:None, str:'data': "
                       "dict{str:'g': dict{str:'__type__': str:'group', str:'url': NoneType:None, "
                       "str:'data': dict{}, str:'path': str:'/g', str:'attrs': dict{str:'n': "
                       "str:'g'}}}, str:'path': str:'/', str:'attrs': dict{}}",
 'group/mixed-order': "dict{str:'__type__': str:'group', str:'url': str:'s3://bucket/scene', "
                      "str:'data': dict{str:'z': dict{str:'__type__': str:'variable', str:'dims': "
                      "list[str:'x', str:'y'], str:'data': dict{str:'__type__': str:'array', "
                      "str:'dtype': str:'int32', str:'data': list[list[int:1, int:2], list[int:3, "
                      "int:4]], str:'encoding': dict{}}, str:'attrs': dict{str:'a': tuple[int:1, "
                      "int:2]}}, str:'sub': dict{str:'__type__': str:'group', str:'url': "
                      "str:'s3://bucket/scene', str:'data': dict{str:'inner': dict{str:'__type__': "
                      "str:'group', str:'url': str:'other', str:'data': dict{str:'t': "
                      "dict{str:'__type__': str:'variable', str:'dims': list[str:'t'], str:'data': "
                      "dict{str:'__type__': str:'array', str:'dtype': str:'datetime64[s]', "
                      "str:'data': list[int:0, int:172800], str:'encoding': dict{str:'reference': "
                      "str:'2019-01-01T00:00:00', str:'units': str:'s'}}, str:'attrs': "
                      "dict{str:'u': list[int:1]}}}, str:'path': str:'/sub/inner', str:'attrs': "
                      "dict{str:'d': int:2}}, str:'v': dict{str:'__type__': str:'variable', "
                      "str:'dims': list[str:'x'], str:'data': dict{str:'__type__': str:'array', "
                      "str:'dtype': str:'int8', str:'data': list[int:1, int:2], str:'encoding': "
                      "dict{}}, str:'attrs': dict{}}}, str:'path': str:'/sub', str:'attrs': "
                      "dict{str:'d': int:1}}, str:'a': dict{str:'__type__': str:'variable', "
                      "str:'dims': list[str:'r', str:'c'], str:'data': dict{str:'__type__': "
                      "str:'backend_array', str:'root': str:'/path/to', str:'url': str:'file', "
                      "str:'shape': tuple[int:4, int:3], str:'dtype': str:'int16', "
                      "str:'byte_ranges': list[tuple[int:5, int:10], tuple[int:15, int:20], "
                      "tuple[int:25, int:30], tuple[int:35, int:40]], str:'type_code': str:'IU2'}, "
                      "str:'attrs': dict{str:'b': int:1}}, str:'sub2': dict{str:'__type__': "
                      "str:'group', str:'url': str:'s3://bucket/scene', str:'data': dict{}, "
                      "str:'path': str:'/sub2', str:'attrs': dict{}}}, str:'path': str:'/', "
                      "str:'attrs': dict{str:'k': tuple[int:1, int:2], str:'l': list[int:3]}}",
 'hierarchy/mixed-order': "dict{str:'__type__': str:'group', str:'url': str:'s3://bucket/scene', "
                          "str:'data': dict{str:'z': dict{str:'__type__': str:'variable', "
                          "str:'dims': list[str:'x', str:'y'], str:'data': dict{str:'__type__': "
                          "str:'array', str:'dtype': str:'int32', str:'data': list[list[int:1, "
                          "int:2], list[int:3, int:4]], str:'encoding': dict{}}, str:'attrs': "
                          "dict{str:'a': tuple[int:1, int:2]}}, str:'sub': dict{str:'__type__': "
                          "str:'group', str:'url': str:'s3://bucket/scene', str:'data': "
                          "dict{str:'inner': dict{str:'__type__': str:'group', str:'url': "
                          "str:'other', str:'data': dict{str:'t': dict{str:'__type__': "
                          "str:'variable', str:'dims': list[str:'t'], str:'data': "
                          "dict{str:'__type__': str:'array', str:'dtype': str:'datetime64[s]', "
                          "str:'data': list[int:0, int:172800], str:'encoding': "
                          "dict{str:'reference': str:'2019-01-01T00:00:00', str:'units': "
                          "str:'s'}}, str:'attrs': dict{str:'u': list[int:1]}}}, str:'path': "
                          "str:'/sub/inner', str:'attrs': dict{str:'d': int:2}}, str:'v': "
                          "dict{str:'__type__': str:'variable', str:'dims': list[str:'x'], "
                          "str:'data': dict{str:'__type__': str:'array', str:'dtype': str:'int8', "
                          "str:'data': list[int:1, int:2], str:'encoding': dict{}}, str:'attrs': "
                          "dict{}}}, str:'path': str:'/sub', str:'attrs': dict{str:'d': int:1}}, "
                          "str:'a': dict{str:'__type__': str:'variable', str:'dims': list[str:'r', "
                          "str:'c'], str:'data': dict{str:'__type__': str:'backend_array', "
                          "str:'root': str:'/path/to', str:'url': str:'file', str:'shape': "
                          "tuple[int:4, int:3], str:'dtype': str:'int16', str:'byte_ranges': "
                          'list[tuple[int:5, int:10], tuple[int:15, int:20], tuple[int:25, '
                          "int:30], tuple[int:35, int:40]], str:'type_code': str:'IU2'}, "
                          "str:'attrs': dict{str:'b': int:1}}, str:'sub2': dict{str:'__type__': "
                          "str:'group', str:'url': str:'s3://bucket/scene', str:'data': dict{}, "
                          "str:'path': str:'/sub2', str:'attrs': dict{}}}, str:'path': str:'/', "
                          "str:'attrs': dict{str:'k': tuple[int:1, int:2], str:'l': list[int:3]}}",
 'group/duck-variable': "dict{str:'__type__': str:'group', str:'url': str:'u', str:'data': "
                        "dict{str:'duck': dict{str:'__type__': str:'variable', str:'dims': "
                        "tuple[str:'q'], str:'data': dict{str:'__type__': str:'array', "
                        "str:'dtype': str:'float64', str:'data': list[float:1.5, float:2.5], "
                        "str:'encoding': dict{}}, str:'attrs': dict{str:'duck': bool:True}}}, "
                        "str:'path': str:'/', str:'attrs': dict{}}",
 'hierarchy/duck-variable': "dict{str:'__type__': str:'group', str:'url': str:'u', str:'data': "
                            "dict{str:'duck': dict{str:'__type__': str:'variable', str:'dims': "
                            "tuple[str:'q'], str:'data': dict{str:'__type__': str:'array', "
                            "str:'dtype': str:'float64', str:'data': list[float:1.5, float:2.5], "
                            "str:'encoding': dict{}}, str:'attrs': dict{str:'duck': bool:True}}}, "
                            "str:'path': str:'/', str:'attrs': dict{}}",
 'group/ordered-data': "dict{str:'__type__': str:'group', str:'url': str:'u', str:'data': "
                       "dict{str:'b': dict{str:'__type__': str:'variable', str:'dims': "
                       "list[str:'x'], str:'data': dict{str:'__type__': str:'array', str:'dtype': "
                       "str:'int8', str:'data': list[int:1, int:2], str:'encoding': dict{}}, "
                       "str:'attrs': dict{}}, str:'a': dict{str:'__type__': str:'variable', "
                       "str:'dims': list[str:'x', str:'y'], str:'data': dict{str:'__type__': "
                       "str:'array', str:'dtype': str:'int32', str:'data': list[list[int:1, "
                       "int:2], list[int:3, int:4]], str:'encoding': dict{}}, str:'attrs': "
                       "dict{str:'a': tuple[int:1, int:2]}}}, str:'path': str:'/x', str:'attrs': "
                       'dict{}}',
 'hierarchy/ordered-data': "dict{str:'__type__': str:'group', str:'url': str:'u', str:'data': "
                           "dict{str:'b': dict{str:'__type__': str:'variable', str:'dims': "
                           "list[str:'x'], str:'data': dict{str:'__type__': str:'array', "
                           "str:'dtype': str:'int8', str:'data': list[int:1, int:2], "
                           "str:'encoding': dict{}}, str:'attrs': dict{}}, str:'a': "
                           "dict{str:'__type__': str:'variable', str:'dims': list[str:'x', "
                           "str:'y'], str:'data': dict{str:'__type__': str:'array', str:'dtype': "
                           "str:'int32', str:'data': list[list[int:1, int:2], list[int:3, int:4]], "
                           "str:'encoding': dict{}}, str:'attrs': dict{str:'a': tuple[int:1, "
                           "int:2]}}}, str:'path': str:'/x', str:'attrs': dict{}}",
 'group/subclass': "dict{str:'__type__': str:'group', str:'url': str:'u', str:'data': "
                   "dict{str:'g': dict{str:'__type__': str:'group', str:'url': str:'u', "
                   "str:'data': dict{str:'v': dict{str:'__type__': str:'variable', str:'dims': "
                   "list[str:'x'], str:'data': dict{str:'__type__': str:'array', str:'dtype': "
                   "str:'int8', str:'data': list[int:1, int:2], str:'encoding': dict{}}, "
                   "str:'attrs': dict{}}}, str:'path': str:'/g', str:'attrs': dict{}}}, "
                   "str:'path': str:'/', str:'attrs': dict{}}",
 'hierarchy/subclass': "dict{str:'__type__': str:'group', str:'url': str:'u', str:'data': "
                       "dict{str:'g': dict{str:'__type__': str:'group', str:'url': str:'u', "
                       "str:'data': dict{str:'v': dict{str:'__type__': str:'variable', str:'dims': "
                       "list[str:'x'], str:'data': dict{str:'__type__': str:'array', str:'dtype': "
                       "str:'int8', str:'data': list[int:1, int:2], str:'encoding': dict{}}, "
                       "str:'attrs': dict{}}}, str:'path': str:'/g', str:'attrs': dict{}}}, "
                       "str:'path': str:'/', str:'attrs': dict{}}",
 'group/bad-entry': "raises AttributeError: 'int' object has no attribute 'data'",
 'hierarchy/bad-entry': "raises AttributeError: 'int' object has no attribute 'data'",
 'group/bad-nested': "raises AttributeError: 'str' object has no attribute 'data'",
 'hierarchy/bad-nested': "raises AttributeError: 'str' object has no attribute 'data'",
 'group/raw-data': "dict{str:'__type__': str:'group', str:'url': str:'u', str:'data': "
                   "dict{str:'later': dict{str:'__type__': str:'variable', str:'dims': "
                   "list[str:'x'], str:'data': dict{str:'__type__': str:'array', str:'dtype': "
                   "str:'int8', str:'data': list[int:1, int:2], str:'encoding': dict{}}, "
                   "str:'attrs': dict{}}, str:'g': dict{str:'__type__': str:'group', str:'url': "
                   "str:'abc', str:'data': dict{}, str:'path': str:'path', str:'attrs': "
                   "dict{str:'abc': str:'def'}}}, str:'path': str:'/raw', str:'attrs': dict{}}",
 'hierarchy/raw-data': "dict{str:'__type__': str:'group', str:'url': str:'u', str:'data': "
                       "dict{str:'later': dict{str:'__type__': str:'variable', str:'dims': "
                       "list[str:'x'], str:'data': dict{str:'__type__': str:'array', str:'dtype': "
                       "str:'int8', str:'data': list[int:1, int:2], str:'encoding': dict{}}, "
                       "str:'attrs': dict{}}, str:'g': dict{str:'__type__': str:'group', "
                       "str:'url': str:'abc', str:'data': dict{}, str:'path': str:'path', "
                       "str:'attrs': dict{str:'abc': str:'def'}}}, str:'path': str:'/raw', "
                       "str:'attrs': dict{}}",
 'group/mapping-data': "dict{str:'__type__': str:'group', str:'url': str:'u', str:'data': "
                       "dict{str:'v': dict{str:'__type__': str:'variable', str:'dims': "
                       "list[str:'x'], str:'data': dict{str:'__type__': str:'array', str:'dtype': "
                       "str:'int8', str:'data': list[int:1, int:2], str:'encoding': dict{}}, "
                       "str:'attrs': dict{}}, str:'g': dict{str:'__type__': str:'group', "
                       "str:'url': NoneType:None, str:'data': dict{str:'g': dict{str:'__type__': "
                       "str:'group', str:'url': NoneType:None, str:'data': dict{}, str:'path': "
                       "str:'/g', str:'attrs': dict{str:'n': str:'g'}}}, str:'path': str:'/', "
                       "str:'attrs': dict{}}}, str:'path': str:'/m', str:'attrs': dict{}}",
 'hierarchy/mapping-data': "dict{str:'__type__': str:'group', str:'url': str:'u', str:'data': "
                           "dict{str:'v': dict{str:'__type__': str:'variable', str:'dims': "
                           "list[str:'x'], str:'data': dict{str:'__type__': str:'array', "
                           "str:'dtype': str:'int8', str:'data': list[int:1, int:2], "
                           "str:'encoding': dict{}}, str:'attrs': dict{}}, str:'g': "
                           "dict{str:'__type__': str:'group', str:'url': NoneType:None, "
                           "str:'data': dict{str:'g': dict{str:'__type__': str:'group', str:'url': "
                           "NoneType:None, str:'data': dict{}, str:'path': str:'/g', str:'attrs': "
                           "dict{str:'n': str:'g'}}}, str:'path': str:'/', str:'attrs': dict{}}}, "
                           "str:'path': str:'/m', str:'attrs': dict{}}",
 'group-types/mixed-order': "list[str:'dict', list[str:'__type__', str:'url', str:'data', "
                            "str:'path', str:'attrs'], str:'dict', bool:True]",
 'encode/mixed-order': 'str:\'{"__type__": "group", "url": "s3://bucket/scene", "data": {"z": '
                       '{"__type__": "variable", "dims": ["x", "y"], "data": {"__type__": "array", '
                       '"dtype": "int32", "data": [[1, 2], [3, 4]], "encoding": {}}, "attrs": '
                       '{"a": {"__type__": "tuple", "data": [1, 2]}}}, "sub": {"__type__": '
                       '"group", "url": "s3://bucket/scene", "data": {"inner": {"__type__": '
                       '"group", "url": "other", "data": {"t": {"__type__": "variable", "dims": '
                       '["t"], "data": {"__type__": "array", "dtype": "datetime64[s]", "data": [0, '
                       '172800], "encoding": {"reference": "2019-01-01T00:00:00", "units": "s"}}, '
                       '"attrs": {"u": [1]}}}, "path": "/sub/inner", "attrs": {"d": 2}}, "v": '
                       '{"__type__": "variable", "dims": ["x"], "data": {"__type__": "array", '
                       '"dtype": "int8", "data": [1, 2], "encoding": {}}, "attrs": {}}}, "path": '
                       '"/sub", "attrs": {"d": 1}}, "a": {"__type__": "variable", "dims": ["r", '
                       '"c"], "data": {"__type__": "backend_array", "root": "/path/to", "url": '
                       '"file", "shape": {"__type__": "tuple", "data": [4, 3]}, "dtype": "int16", '
                       '"byte_ranges": [{"__type__": "tuple", "data": [5, 10]}, {"__type__": '
                       '"tuple", "data": [15, 20]}, {"__type__": "tuple", "data": [25, 30]}, '
                       '{"__type__": "tuple", "data": [35, 40]}], "type_code": "IU2"}, "attrs": '
                       '{"b": 1}}, "sub2": {"__type__": "group", "url": "s3://bucket/scene", '
                       '"data": {}, "path": "/sub2", "attrs": {}}}, "path": "/", "attrs": {"k": '
                       '{"__type__": "tuple", "data": [1, 2]}, "l": [3]}}\'',
 'group-types/empty': "list[str:'dict', list[str:'__type__', str:'url', str:'data', str:'path', "
                      "str:'attrs'], str:'dict', bool:True]",
 'encode/empty': 'str:\'{"__type__": "group", "url": "abc", "data": {}, "path": "path", "attrs": '
                 '{"abc": "def"}}\'',
 'group-types/ordered-data': "list[str:'dict', list[str:'__type__', str:'url', str:'data', "
                             "str:'path', str:'attrs'], str:'dict', bool:True]",
 'encode/ordered-data': 'str:\'{"__type__": "group", "url": "u", "data": {"b": {"__type__": '
                        '"variable", "dims": ["x"], "data": {"__type__": "array", "dtype": "int8", '
                        '"data": [1, 2], "encoding": {}}, "attrs": {}}, "a": {"__type__": '
                        '"variable", "dims": ["x", "y"], "data": {"__type__": "array", "dtype": '
                        '"int32", "data": [[1, 2], [3, 4]], "encoding": {}}, "attrs": {"a": '
                        '{"__type__": "tuple", "data": [1, 2]}}}}, "path": "/x", "attrs": {}}\'',
 'group-types/raw-data': "list[str:'dict', list[str:'__type__', str:'url', str:'data', str:'path', "
                         "str:'attrs'], str:'dict', bool:True]",
 'encode/raw-data': 'str:\'{"__type__": "group", "url": "u", "data": {"later": {"__type__": '
                    '"variable", "dims": ["x"], "data": {"__type__": "array", "dtype": "int8", '
                    '"data": [1, 2], "encoding": {}}, "attrs": {}}, "g": {"__type__": "group", '
                    '"url": "abc", "data": {}, "path": "path", "attrs": {"abc": "def"}}}, "path": '
                    '"/raw", "attrs": {}}\'',
 'group-types/mapping-data': "list[str:'dict', list[str:'__type__', str:'url', str:'data', "
                             "str:'path', str:'attrs'], str:'dict', bool:True]",
 'encode/mapping-data': 'str:\'{"__type__": "group", "url": "u", "data": {"v": {"__type__": '
                        '"variable", "dims": ["x"], "data": {"__type__": "array", "dtype": "int8", '
                        '"data": [1, 2], "encoding": {}}, "attrs": {}}, "g": {"__type__": "group", '
                        '"url": null, "data": {"g": {"__type__": "group", "url": null, "data": {}, '
                        '"path": "/g", "attrs": {"n": "g"}}}, "path": "/", "attrs": {}}}, "path": '
                        '"/m", "attrs": {}}\'',
 'group/not-a-group': "raises AttributeError: 'numpy.ndarray' object has no attribute 'keys'",
 'group/none': "raises AttributeError: 'NoneType' object has no attribute 'data'",
 'group/dict': "raises AttributeError: 'dict' object has no attribute 'data'",
 'group/namespace': "dict{str:'__type__': str:'group', str:'url': str:'u', str:'data': "
                    "dict{str:'duck': dict{str:'__type__': str:'variable', str:'dims': "
                    "tuple[str:'q'], str:'data': dict{str:'__type__': str:'array', str:'dtype': "
                    "str:'float64', str:'data': list[float:1.5, float:2.5], str:'encoding': "
                    "dict{}}, str:'attrs': dict{str:'duck': bool:True}}, str:'g': "
                    "dict{str:'__type__': str:'group', str:'url': str:'abc', str:'data': dict{}, "
                    "str:'path': str:'path', str:'attrs': dict{str:'abc': str:'def'}}}, "
                    "str:'path': str:'p', str:'attrs': dict{}}",
 'hierarchy/variable': "dict{str:'__type__': str:'variable', str:'dims': list[str:'x', str:'y'], "
                       "str:'data': dict{str:'__type__': str:'array', str:'dtype': str:'int32', "
                       "str:'data': list[list[int:1, int:2], list[int:3, int:4]], str:'encoding': "
                       "dict{}}, str:'attrs': dict{str:'a': tuple[int:1, int:2]}}",
 'hierarchy/backend-variable': "dict{str:'__type__': str:'variable', str:'dims': list[str:'r', "
                               "str:'c'], str:'data': dict{str:'__type__': str:'backend_array', "
                               "str:'root': str:'/path/to', str:'url': str:'file', str:'shape': "
                               "tuple[int:4, int:3], str:'dtype': str:'int16', str:'byte_ranges': "
                               'list[tuple[int:5, int:10], tuple[int:15, int:20], tuple[int:25, '
                               "int:30], tuple[int:35, int:40]], str:'type_code': str:'IU2'}, "
                               "str:'attrs': dict{str:'b': int:1}}",
 'hierarchy/variable-subclass': "dict{str:'__type__': str:'variable', str:'dims': list[str:'x'], "
                                "str:'data': dict{str:'__type__': str:'array', str:'dtype': "
                                "str:'int64', str:'data': list[int:1, int:2], str:'encoding': "
                                "dict{}}, str:'attrs': dict{str:'s': int:1}}",
 'hierarchy/duck': "SimpleNamespace:namespace(dims=('q',), data=[1.5, 2.5], attrs={'duck': True})",
 'hierarchy/int': 'int:1',
 'hierarchy/none': 'NoneType:None',
 'hierarchy/dict': "dict{str:'__type__': str:'group'}",
 'hierarchy/list': "list[Variable:Variable(dims=['x'], data=array([1, 2], dtype=int8), attrs={})]",
 'hierarchy/tuple': 'tuple[int:1, int:2]',
 'hierarchy/array': 'ndarray:array([1])',
 'hierarchy/backend-array': "Array:Array(url='file', shape=(4, 3), dtype='int16', "
                            'records_per_chunk=2)',
 'hierarchy/class-group': "ABCMeta:<class 'ceos_alos2.hierarchy.Group'>",
 'hierarchy/class-variable': "type:<class 'ceos_alos2.hierarchy.Variable'>",
 'hierarchy/identity': "dict{str:'duck': bool:True, str:'int': bool:True, str:'none': bool:True, "
                       "str:'dict': bool:True, str:'list': bool:True, str:'array': bool:True, "
                       "str:'backend-array': bool:True}",
 'patched-variable/group': "dict{str:'__type__': str:'group', str:'url': str:'s3://bucket/scene', "
                           "str:'data': dict{str:'z': dict{str:'fake': str:'variable'}, str:'sub': "
                           "dict{str:'__type__': str:'group', str:'url': str:'s3://bucket/scene', "
                           "str:'data': dict{str:'inner': dict{str:'__type__': str:'group', "
                           "str:'url': str:'other', str:'data': dict{str:'t': dict{str:'fake': "
                           "str:'variable'}}, str:'path': str:'/sub/inner', str:'attrs': "
                           "dict{str:'d': int:2}}, str:'v': dict{str:'fake': str:'variable'}}, "
                           "str:'path': str:'/sub', str:'attrs': dict{str:'d': int:1}}, str:'a': "
                           "dict{str:'fake': str:'variable'}, str:'sub2': dict{str:'__type__': "
                           "str:'group', str:'url': str:'s3://bucket/scene', str:'data': dict{}, "
                           "str:'path': str:'/sub2', str:'attrs': dict{}}}, str:'path': str:'/', "
                           "str:'attrs': dict{str:'k': tuple[int:1, int:2], str:'l': list[int:3]}}",
 'patched-variable/hierarchy': "dict{str:'__type__': str:'group', str:'url': str:'u', str:'data': "
                               "dict{str:'v': dict{str:'fake': str:'variable'}, str:'bad': "
                               "dict{str:'fake': str:'variable'}, str:'w': dict{str:'fake': "
                               "str:'variable'}}, str:'path': str:'/', str:'attrs': dict{}}",
 'patched-variable/variable': "dict{str:'fake': str:'variable'}",
 'patched-both/group': "dict{str:'__type__': str:'group', str:'url': str:'s3://bucket/scene', "
                       "str:'data': dict{str:'z': dict{str:'fake': str:'variable'}, str:'sub': "
                       "dict{str:'__type__': str:'group', str:'url': str:'s3://bucket/scene', "
                       "str:'data': dict{str:'inner': dict{str:'__type__': str:'group', str:'url': "
                       "str:'other', str:'data': dict{str:'t': dict{str:'fake': str:'variable'}}, "
                       "str:'path': str:'/sub/inner', str:'attrs': dict{str:'d': int:2}}, str:'v': "
                       "dict{str:'fake': str:'variable'}}, str:'path': str:'/sub', str:'attrs': "
                       "dict{str:'d': int:1}}, str:'a': dict{str:'fake': str:'variable'}, "
                       "str:'sub2': dict{str:'__type__': str:'group', str:'url': "
                       "str:'s3://bucket/scene', str:'data': dict{}, str:'path': str:'/sub2', "
                       "str:'attrs': dict{}}}, str:'path': str:'/', str:'attrs': dict{str:'k': "
                       "tuple[int:1, int:2], str:'l': list[int:3]}}",
 'patched-both/hierarchy': "dict{str:'__type__': str:'group', str:'url': str:'u', str:'data': "
                           "dict{str:'g': dict{str:'__type__': str:'group', str:'url': str:'u', "
                           "str:'data': dict{str:'v': dict{str:'fake': str:'variable'}}, "
                           "str:'path': str:'/g', str:'attrs': dict{}}}, str:'path': str:'/', "
                           "str:'attrs': dict{}}",
 'patched/calls': "list[tuple[str:'variable', str:'Variable'], tuple[str:'variable', "
                  "str:'Variable'], tuple[str:'variable', str:'Variable'], tuple[str:'variable', "
                  "str:'Variable'], tuple[str:'variable', str:'Variable'], tuple[str:'variable', "
                  "str:'int'], tuple[str:'variable', str:'Variable'], tuple[str:'variable', "
                  "str:'Variable'], tuple[str:'variable', str:'Variable'], tuple[str:'group', "
                  "str:'/sub'], tuple[str:'group', str:'/sub/inner'], tuple[str:'variable', "
                  "str:'Variable'], tuple[str:'variable', str:'Variable'], tuple[str:'variable', "
                  "str:'Variable'], tuple[str:'group', str:'/sub2'], tuple[str:'group', str:'/'], "
                  "tuple[str:'group', str:'/g'], tuple[str:'variable', str:'Variable']]"}
# EXPECTED-END

if __name__ == "__main__":
    if "--record" in sys.argv:
        print("EXPECTED = " + pprint.pformat(collect(), width=100, sort_dicts=False))
    else:
        n = check()
        print(f"ok: {n} cases identical to the recorded results")
