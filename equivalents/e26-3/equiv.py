"""Equivalence check for refactoring 3 (ceos_alos2/transformers.py).

Run: cd /tmp/wt4/e26 && PYTHONPATH=/tmp/wt4/e26 /venv/bin/python _eq/3/equiv.py

EXPECTED was recorded from the unchanged code (HEAD).
"""

import collections
import copy
import inspect
import pprint
import sys

import numpy as np
from tlz.functoolz import curry

from ceos_alos2 import transformers


def outcome(func, *args, **kwargs):
    try:
        result = func(*args, **kwargs)
    except BaseException as e:  # noqa: B902
        return ("raise", type(e).__name__, str(e))
    return ("ok", type(result).__qualname__, repr(result))


def deep_types(obj):
    if isinstance(obj, dict):
        return [type(obj).__name__, {k: deep_types(v) for k, v in obj.items()}]
    if isinstance(obj, (list, tuple)):
        return [type(obj).__name__, [deep_types(v) for v in obj]]
    return type(obj).__name__


class TypeErrorList(list):
    def __iter__(self):
        raise TypeError("iteration not supported")


class MyDict(dict):
    pass


class MyList(list):
    pass


class MyStr(str):
    pass


spare_keys = [
    "spare", "spare1", "spare12", "spare_1", "spares", "spare1a", "sparespare", "spareblanks",
    "spareblanks1", "blanks", "blanks1", "blanks99", "blanks_", "blanksspare", "blanksspare3",
    "blanksblanks", "blanksblanks2", "blank", "blank1", "spar", "Spare", "SPARE1", "xspare", "spare ",
    "spare 1", "spare²", "spare٣", "spare1.5", "spare-1", "", "a", "data", "1", "blanks0spare",
    "spare0blanks", "sparespare1", "spareblanksspare", "spareblanksblanks1",
]

remove_spares_inputs = {
    "keys_flat": {k: i for i, k in enumerate(spare_keys)},
    "empty_dict": {},
    "empty_list": [],
    "scalar_int": 1,
    "scalar_str": "spare1",
    "none": None,
    "tuple_untouched": ({"spare1": 1, "a": 2},),
    "nested": {
        "a": {"spare1": 1, "b": {"blanks": 2, "c": 3, "spare": [1]}},
        "spare2": {"kept": "no"},
        "records": [{"spare3": 1, "x": 1}, {"blanks4": 2, "x": 2}, 5, "spare", [{"spare5": 0, "y": 1}]],
        "t": ({"spare6": 1},),
        "blanks_trailer": {"spare7": 1, "z": None},
    },
    "list_top": [{"spare1": 1, "a": [{"blanks2": 2, "b": 1}]}, {"spare": 0}, [], [[{"spare9": 1}]]],
    "ordered": collections.OrderedDict([("z", 1), ("spare1", 2), ("a", collections.OrderedDict(blanks=1, q=2))]),
    "dict_subclass": MyDict(spare1=1, a=MyDict(blanks2=2, b=MyList([MyDict(spare3=3, c=1)]))),
    "list_subclass": MyList([{"spare1": 1, "a": 1}]),
    "str_subclass_keys": {MyStr("spare1"): 1, MyStr("sparex"): 2},
    "non_str_key": {1: 2, "a": 3},
    "bytes_key": {b"spare1": 2},
    "none_key": {None: 1},
    "numpy_value": {"a": np.arange(3), "spare1": np.arange(2)},
}

transform_nested_inputs = {
    "empty_dict": {},
    "empty_list": [],
    "scalar": 1,
    "none": None,
    "str": "abc",
    "flat": {"a": 1, "b": "x", "c": None},
    "list_of_scalars_value": {"a": [1, 2, 3], "b": []},
    "list_of_records_value": {"a": [{"x": 1, "y": 2}, {"x": 3, "y": 4}], "b": 1},
    "ragged_records_value": {"a": [{"x": 1}, {"y": 2}, {"x": 3, "y": 4}]},
    "single_record_value": {"a": [{"x": 1}]},
    "empty_record_value": {"a": [{}], "b": [{}, {}]},
    "nested_records_not_recursed": {"a": [{"x": [{"p": 1}, {"p": 2}]}, {"x": [{"p": 3}]}]},
    "dict_value_not_recursed": {"a": {"b": [{"x": 1}, {"x": 2}]}},
    "tuple_value": {"a": ({"x": 1}, {"x": 2})},
    "first_not_dict": {"a": [1, {"x": 1}]},
    "first_dict_then_scalar": {"a": [{"x": 1}, 5]},
    "first_dict_then_none": {"a": [{"x": 1}, None]},
    "first_dict_then_list": {"a": [{"x": 1}, [("x", 2)]]},
    "top_list_of_records": [{"a": 1, "b": [{"x": 1}, {"x": 2}]}, {"a": 2, "b": [{"x": 3}]}],
    "top_list_of_records_ragged": [{"a": 1}, {"b": [{"x": 1}]}, {"a": 3}],
    "top_list_of_scalars": [1, 2],
    "top_list_first_dict_then_scalar": [{"a": 1}, 2],
    "top_list_of_record_lists": [{"a": {"x": 1}}, {"a": {"x": 2}}],
    "top_list_single": [{"a": [{"x": 1}, {"x": 2}]}],
    "top_tuple": ({"a": 1},),
    "order": {"z": [{"b": 1, "a": 2}, {"a": 3, "c": 4}], "y": 0, "x": [{"k": 1}]},
    "ordered": collections.OrderedDict(a=[collections.OrderedDict(x=1), collections.OrderedDict(x=2)]),
    "dict_subclass": MyDict(a=MyList([MyDict(x=1), MyDict(x=2)])),
    "top_list_subclass": MyList([MyDict(a=1), MyDict(a=2)]),
    "type_error_in_iteration_top": TypeErrorList([{"a": 1}]),
    "type_error_in_iteration_value": {"a": TypeErrorList([{"a": 1}])},
    "numpy_value": {"a": np.arange(3)},
    "numpy_top": np.arange(3),
    "non_str_keys": {1: [{2: 3}, {2: 4}]},
}

item_type_inputs = {
    "scalar": ("a", 1),
    "none": ("a", None),
    "str": ("a", "abc"),
    "bytes": ("a", b"abc"),
    "list": ("a", [1, 2]),
    "empty_list": ("a", []),
    "list_of_dicts": ("a", [{"b": 1}]),
    "list_subclass": ("a", MyList([1])),
    "dict": ("a", {"b": 1}),
    "empty_dict": ("a", {}),
    "dict_subclass": ("a", MyDict(b=1)),
    "ordereddict": ("a", collections.OrderedDict(b=1)),
    "tuple2_variable": ("a", ([1, 2], {"units": "m"})),
    "tuple3_variable": ("a", ("x", [1, 2], {})),
    "tuple_group": ("a", ({"b": 1}, {"attr": 1})),
    "tuple_group_single": ("a", ({},)),
    "tuple_group_subclass": ("a", (MyDict(), {})),
    "tuple_scalar_first": ("a", (1,)),
    "tuple_none_first": ("a", (None, {})),
    "empty_tuple": ("a", ()),
    "namedtuple_variable": ("a", collections.namedtuple("V", "data attrs")([1], {})),
    "namedtuple_group": ("a", collections.namedtuple("G", "mapping attrs")({}, {})),
    "numpy": ("a", np.arange(3)),
    "set": ("a", {1}),
    "item_as_list": ["a", [1]],
    "item_len3": ("a", {"b": 1}, "ignored"),
    "item_len1": ("a",),
    "item_empty": (),
    "item_str": "ab",
    "item_dict": {"a": 1, "b": [1]},
    "item_generator": None,  # replaced in compute
    "item_none": None,
    "item_int": 5,
}

as_group_inputs = {
    "empty": {},
    "attrs_only": {"a": 1, "b": "x"},
    "mixed": {
        "a": 1,
        "v1": ([1, 2], {"units": "m"}),
        "v2": ("x", [1, 2], {}),
        "v3": [1, 2, 3],
        "g1": {"b": 2, "v": (["y"], [3], {"u": 1}), "gg": {"c": None}},
        "g2": ({"d": 4}, {"extra": "attr", "d": "shadow"}),
        "z": None,
    },
    "with_additional_attrs": ({"a": 1, "g": ({"a": 2}, {"a": 3, "b": 4})}, {"a": "override", "c": 5}),
    "variable_list_len3": {"v": [["x"], [1], {}]},
    "variable_list_len2": {"v": [[1], {}]},
    "variable_bad_len1": {"v": ([1],)},
    "variable_bad_len4": {"v": (1, 2, 3, 4)},
    "variable_bad_len0_list": {"v": []},
    "empty_tuple_value": {"v": ()},
    "tuple_len3_top": ({"a": 1}, {}, {}),
    "tuple_len1_top": ({"a": 1},),
    "not_mapping": [("a", 1)],
    "none": None,
    "additional_attrs_none": ({"a": 1}, None),
    "order": {"z": 1, "g": {}, "v": [[1], {}], "a": 2, "f": {"x": [[0], {}]}, "w": ([2], {})},
}

separate_attrs_inputs = {
    "empty": [],
    "scalar": 1,
    "none": None,
    "list_of_scalars": [1, 2],
    "list_of_pairs": [(1, {"u": "m"}), (2, {"u": "ignored"})],
    "single_pair": [(1, {"u": "m"})],
    "tuple_of_pairs": ((1, {}), (2, {})),
    "first_tuple_then_scalar": [(1, {}), 2],
    "triples": [(1, {}, "x"), (2, {}, "y")],
    "ragged": [(1, {}), (2,)],
    "empty_tuples": [(), ()],
    "singles": [(1,), (2,)],
}

normalize_datetime_inputs = [
    "20200102030405000000", "20200102030405123456", "202001020304051", "20200102030405", "2020010203",
    "", "abc", "20201302030405000000", None, 20200102030405,
]


def compute():
    results = {}

    for name, value in remove_spares_inputs.items():
        original = copy.deepcopy(value)
        res = outcome(transformers.remove_spares, value)
        results[f"remove_spares[{name}]"] = res
        results[f"remove_spares_input_unchanged[{name}]"] = repr(value) == repr(original)
        if res[0] == "ok":
            out = transformers.remove_spares(value)
            results[f"remove_spares_types[{name}]"] = repr(deep_types(out))
            results[f"remove_spares_identity[{name}]"] = out is value
        results[f"remove_spares_curried[{name}]"] = outcome(curry(transformers.remove_spares), value)
    for key in spare_keys:
        results[f"remove_spares_key[{key!r}]"] = outcome(transformers.remove_spares, {key: 0})
    shared = {"a": {"b": [1, 2]}, "c": [[3]]}
    out = transformers.remove_spares(shared)
    results["remove_spares_sharing"] = (
        out is shared, out["a"] is shared["a"], out["a"]["b"] is shared["a"]["b"],
        out["c"] is shared["c"], out["c"][0] is shared["c"][0],
    )
    results["remove_spares_kwarg"] = outcome(transformers.remove_spares, mapping={"spare1": 1, "a": 2})
    results["remove_spares_signature"] = str(inspect.signature(transformers.remove_spares))

    for name, value in transform_nested_inputs.items():
        res = outcome(transformers.transform_nested, value)
        results[f"transform_nested[{name}]"] = res
        if res[0] == "ok":
            out = transformers.transform_nested(value)
            results[f"transform_nested_types[{name}]"] = repr(deep_types(out))
            results[f"transform_nested_identity[{name}]"] = out is value
        results[f"transform_nested_curried[{name}]"] = outcome(curry(transformers.transform_nested), value)
    shared = {"a": [1, 2], "b": [{"x": [1]}, {"x": [2]}]}
    out = transformers.transform_nested(shared)
    results["transform_nested_sharing"] = (
        out is shared, out["a"] is shared["a"], out["b"]["x"][0] is shared["b"][0]["x"],
    )
    results["transform_nested_input_unchanged"] = repr(shared)
    results["transform_nested_kwarg"] = outcome(transformers.transform_nested, mapping={"a": [{"x": 1}]})
    results["transform_nested_signature"] = str(inspect.signature(transformers.transform_nested))

    inputs = dict(item_type_inputs)
    inputs["item_generator"] = (x for x in ("a", [1], "more"))
    for name, item in inputs.items():
        results[f"item_type[{name}]"] = outcome(transformers.item_type, item)
    results["item_type_signature"] = str(inspect.signature(transformers.item_type))

    for name, value in as_group_inputs.items():
        res = outcome(transformers.as_group, value)
        results[f"as_group[{name}]"] = res
        if res[0] == "ok":
            group = transformers.as_group(value)
            results[f"as_group_layout[{name}]"] = repr(
                [(path, list(g.data), list(g.attrs)) for path, g in group.subtree]
            )

    for name, value in separate_attrs_inputs.items():
        results[f"separate_attrs[{name}]"] = outcome(transformers.separate_attrs, value)
    for value in normalize_datetime_inputs:
        results[f"normalize_datetime[{value!r}]"] = outcome(transformers.normalize_datetime, value)
    results["as_variable"] = [
        outcome(transformers.as_variable, v)
        for v in (([1], {}), ("x", [1], {}), (["x", "y"], [[1]], {"a": 1}), ([1],), (1, 2, 3, 4), "ab", 5)
    ]

    results["public"] = [
        name
        for name in ("normalize_datetime", "remove_spares", "item_type", "transform_nested",
                     "separate_attrs", "as_variable", "as_group", "Group", "Variable")
        if hasattr(transformers, name)
    ]
    return results


def main():
    results = compute()
    if "--record" in sys.argv:
        pprint.pprint(results, width=110, sort_dicts=False)
        return 0

    failures = []
    for key in sorted(set(results) | set(EXPECTED)):
        if results.get(key, "<missing>") != EXPECTED.get(key, "<missing>"):
            failures.append((key, EXPECTED.get(key, "<missing>"), results.get(key, "<missing>")))
    for key, expected, actual in failures:
        print(f"MISMATCH {key}\n  expected: {expected!r}\n  actual:   {actual!r}")
    print(f"{len(results) - len(failures)} / {len(results)} checks passed")
    return 1 if failures else 0


def test_equivalence():
    assert compute() == EXPECTED


# --- EXPECTED (recorded from HEAD) ---
EXPECTED = {'remove_spares[keys_flat]': ('ok',
                              'dict',
                              "{'spare_1': 3, 'spares': 4, 'spare1a': 5, 'sparespare': 6, 'blanks_': 12, "
                              "'blanksspare': 13, 'blanksspare3': 14, 'blanksblanks': 15, 'blanksblanks2': "
                              "16, 'blank': 17, 'blank1': 18, 'spar': 19, 'Spare': 20, 'SPARE1': 21, "
                              "'xspare': 22, 'spare ': 23, 'spare 1': 24, 'spare1.5': 27, 'spare-1': 28, '': "
                              "29, 'a': 30, 'data': 31, '1': 32, 'blanks0spare': 33, 'spare0blanks': 34, "
                              "'sparespare1': 35, 'spareblanksspare': 36, 'spareblanksblanks1': 37}"),
 'remove_spares_input_unchanged[keys_flat]': True,
 'remove_spares_types[keys_flat]': "['dict', {'spare_1': 'int', 'spares': 'int', 'spare1a': 'int', "
                                   "'sparespare': 'int', 'blanks_': 'int', 'blanksspare': 'int', "
                                   "'blanksspare3': 'int', 'blanksblanks': 'int', 'blanksblanks2': 'int', "
                                   "'blank': 'int', 'blank1': 'int', 'spar': 'int', 'Spare': 'int', "
                                   "'SPARE1': 'int', 'xspare': 'int', 'spare ': 'int', 'spare 1': 'int', "
                                   "'spare1.5': 'int', 'spare-1': 'int', '': 'int', 'a': 'int', 'data': "
                                   "'int', '1': 'int', 'blanks0spare': 'int', 'spare0blanks': 'int', "
                                   "'sparespare1': 'int', 'spareblanksspare': 'int', 'spareblanksblanks1': "
                                   "'int'}]",
 'remove_spares_identity[keys_flat]': False,
 'remove_spares_curried[keys_flat]': ('ok',
                                      'dict',
                                      "{'spare_1': 3, 'spares': 4, 'spare1a': 5, 'sparespare': 6, 'blanks_': "
                                      "12, 'blanksspare': 13, 'blanksspare3': 14, 'blanksblanks': 15, "
                                      "'blanksblanks2': 16, 'blank': 17, 'blank1': 18, 'spar': 19, 'Spare': "
                                      "20, 'SPARE1': 21, 'xspare': 22, 'spare ': 23, 'spare 1': 24, "
                                      "'spare1.5': 27, 'spare-1': 28, '': 29, 'a': 30, 'data': 31, '1': 32, "
                                      "'blanks0spare': 33, 'spare0blanks': 34, 'sparespare1': 35, "
                                      "'spareblanksspare': 36, 'spareblanksblanks1': 37}"),
 'remove_spares[empty_dict]': ('ok', 'dict', '{}'),
 'remove_spares_input_unchanged[empty_dict]': True,
 'remove_spares_types[empty_dict]': "['dict', {}]",
 'remove_spares_identity[empty_dict]': False,
 'remove_spares_curried[empty_dict]': ('ok', 'dict', '{}'),
 'remove_spares[empty_list]': ('ok', 'list', '[]'),
 'remove_spares_input_unchanged[empty_list]': True,
 'remove_spares_types[empty_list]': "['list', []]",
 'remove_spares_identity[empty_list]': False,
 'remove_spares_curried[empty_list]': ('ok', 'list', '[]'),
 'remove_spares[scalar_int]': ('ok', 'int', '1'),
 'remove_spares_input_unchanged[scalar_int]': True,
 'remove_spares_types[scalar_int]': "'int'",
 'remove_spares_identity[scalar_int]': True,
 'remove_spares_curried[scalar_int]': ('ok', 'int', '1'),
 'remove_spares[scalar_str]': ('ok', 'str', "'spare1'"),
 'remove_spares_input_unchanged[scalar_str]': True,
 'remove_spares_types[scalar_str]': "'str'",
 'remove_spares_identity[scalar_str]': True,
 'remove_spares_curried[scalar_str]': ('ok', 'str', "'spare1'"),
 'remove_spares[none]': ('ok', 'NoneType', 'None'),
 'remove_spares_input_unchanged[none]': True,
 'remove_spares_types[none]': "'NoneType'",
 'remove_spares_identity[none]': True,
 'remove_spares_curried[none]': ('ok', 'NoneType', 'None'),
 'remove_spares[tuple_untouched]': ('ok', 'tuple', "({'spare1': 1, 'a': 2},)"),
 'remove_spares_input_unchanged[tuple_untouched]': True,
 'remove_spares_types[tuple_untouched]': "['tuple', [['dict', {'spare1': 'int', 'a': 'int'}]]]",
 'remove_spares_identity[tuple_untouched]': True,
 'remove_spares_curried[tuple_untouched]': ('ok', 'tuple', "({'spare1': 1, 'a': 2},)"),
 'remove_spares[nested]': ('ok',
                           'dict',
                           "{'a': {'b': {'c': 3}}, 'records': [{'x': 1}, {'x': 2}, 5, 'spare', [{'y': 1}]], "
                           "'t': ({'spare6': 1},), 'blanks_trailer': {'z': None}}"),
 'remove_spares_input_unchanged[nested]': True,
 'remove_spares_types[nested]': "['dict', {'a': ['dict', {'b': ['dict', {'c': 'int'}]}], 'records': ['list', "
                                "[['dict', {'x': 'int'}], ['dict', {'x': 'int'}], 'int', 'str', ['list', "
                                "[['dict', {'y': 'int'}]]]]], 't': ['tuple', [['dict', {'spare6': 'int'}]]], "
                                "'blanks_trailer': ['dict', {'z': 'NoneType'}]}]",
 'remove_spares_identity[nested]': False,
 'remove_spares_curried[nested]': ('ok',
                                   'dict',
                                   "{'a': {'b': {'c': 3}}, 'records': [{'x': 1}, {'x': 2}, 5, 'spare', "
                                   "[{'y': 1}]], 't': ({'spare6': 1},), 'blanks_trailer': {'z': None}}"),
 'remove_spares[list_top]': ('ok', 'list', "[{'a': [{'b': 1}]}, {}, [], [[{}]]]"),
 'remove_spares_input_unchanged[list_top]': True,
 'remove_spares_types[list_top]': "['list', [['dict', {'a': ['list', [['dict', {'b': 'int'}]]]}], ['dict', "
                                  "{}], ['list', []], ['list', [['list', [['dict', {}]]]]]]]",
 'remove_spares_identity[list_top]': False,
 'remove_spares_curried[list_top]': ('ok', 'list', "[{'a': [{'b': 1}]}, {}, [], [[{}]]]"),
 'remove_spares[ordered]': ('ok', 'dict', "{'z': 1, 'a': {'q': 2}}"),
 'remove_spares_input_unchanged[ordered]': True,
 'remove_spares_types[ordered]': "['dict', {'z': 'int', 'a': ['dict', {'q': 'int'}]}]",
 'remove_spares_identity[ordered]': False,
 'remove_spares_curried[ordered]': ('ok', 'dict', "{'z': 1, 'a': {'q': 2}}"),
 'remove_spares[dict_subclass]': ('ok', 'dict', "{'a': {'b': [{'c': 1}]}}"),
 'remove_spares_input_unchanged[dict_subclass]': True,
 'remove_spares_types[dict_subclass]': "['dict', {'a': ['dict', {'b': ['list', [['dict', {'c': 'int'}]]]}]}]",
 'remove_spares_identity[dict_subclass]': False,
 'remove_spares_curried[dict_subclass]': ('ok', 'dict', "{'a': {'b': [{'c': 1}]}}"),
 'remove_spares[list_subclass]': ('ok', 'list', "[{'a': 1}]"),
 'remove_spares_input_unchanged[list_subclass]': True,
 'remove_spares_types[list_subclass]': "['list', [['dict', {'a': 'int'}]]]",
 'remove_spares_identity[list_subclass]': False,
 'remove_spares_curried[list_subclass]': ('ok', 'list', "[{'a': 1}]"),
 'remove_spares[str_subclass_keys]': ('ok', 'dict', "{'sparex': 2}"),
 'remove_spares_input_unchanged[str_subclass_keys]': True,
 'remove_spares_types[str_subclass_keys]': "['dict', {'sparex': 'int'}]",
 'remove_spares_identity[str_subclass_keys]': False,
 'remove_spares_curried[str_subclass_keys]': ('ok', 'dict', "{'sparex': 2}"),
 'remove_spares[non_str_key]': ('raise', 'AttributeError', "'int' object has no attribute 'startswith'"),
 'remove_spares_input_unchanged[non_str_key]': True,
 'remove_spares_curried[non_str_key]': ('raise',
                                        'AttributeError',
                                        "'int' object has no attribute 'startswith'"),
 'remove_spares[bytes_key]': ('raise', 'TypeError', "a bytes-like object is required, not 'str'"),
 'remove_spares_input_unchanged[bytes_key]': True,
 'remove_spares_curried[bytes_key]': ('raise', 'TypeError', "a bytes-like object is required, not 'str'"),
 'remove_spares[none_key]': ('raise', 'AttributeError', "'NoneType' object has no attribute 'startswith'"),
 'remove_spares_input_unchanged[none_key]': True,
 'remove_spares_curried[none_key]': ('raise',
                                     'AttributeError',
                                     "'NoneType' object has no attribute 'startswith'"),
 'remove_spares[numpy_value]': ('ok', 'dict', "{'a': array([0, 1, 2])}"),
 'remove_spares_input_unchanged[numpy_value]': True,
 'remove_spares_types[numpy_value]': "['dict', {'a': 'ndarray'}]",
 'remove_spares_identity[numpy_value]': False,
 'remove_spares_curried[numpy_value]': ('ok', 'dict', "{'a': array([0, 1, 2])}"),
 "remove_spares_key['spare']": ('ok', 'dict', '{}'),
 "remove_spares_key['spare1']": ('ok', 'dict', '{}'),
 "remove_spares_key['spare12']": ('ok', 'dict', '{}'),
 "remove_spares_key['spare_1']": ('ok', 'dict', "{'spare_1': 0}"),
 "remove_spares_key['spares']": ('ok', 'dict', "{'spares': 0}"),
 "remove_spares_key['spare1a']": ('ok', 'dict', "{'spare1a': 0}"),
 "remove_spares_key['sparespare']": ('ok', 'dict', "{'sparespare': 0}"),
 "remove_spares_key['spareblanks']": ('ok', 'dict', '{}'),
 "remove_spares_key['spareblanks1']": ('ok', 'dict', '{}'),
 "remove_spares_key['blanks']": ('ok', 'dict', '{}'),
 "remove_spares_key['blanks1']": ('ok', 'dict', '{}'),
 "remove_spares_key['blanks99']": ('ok', 'dict', '{}'),
 "remove_spares_key['blanks_']": ('ok', 'dict', "{'blanks_': 0}"),
 "remove_spares_key['blanksspare']": ('ok', 'dict', "{'blanksspare': 0}"),
 "remove_spares_key['blanksspare3']": ('ok', 'dict', "{'blanksspare3': 0}"),
 "remove_spares_key['blanksblanks']": ('ok', 'dict', "{'blanksblanks': 0}"),
 "remove_spares_key['blanksblanks2']": ('ok', 'dict', "{'blanksblanks2': 0}"),
 "remove_spares_key['blank']": ('ok', 'dict', "{'blank': 0}"),
 "remove_spares_key['blank1']": ('ok', 'dict', "{'blank1': 0}"),
 "remove_spares_key['spar']": ('ok', 'dict', "{'spar': 0}"),
 "remove_spares_key['Spare']": ('ok', 'dict', "{'Spare': 0}"),
 "remove_spares_key['SPARE1']": ('ok', 'dict', "{'SPARE1': 0}"),
 "remove_spares_key['xspare']": ('ok', 'dict', "{'xspare': 0}"),
 "remove_spares_key['spare ']": ('ok', 'dict', "{'spare ': 0}"),
 "remove_spares_key['spare 1']": ('ok', 'dict', "{'spare 1': 0}"),
 "remove_spares_key['spare²']": ('ok', 'dict', '{}'),
 "remove_spares_key['spare٣']": ('ok', 'dict', '{}'),
 "remove_spares_key['spare1.5']": ('ok', 'dict', "{'spare1.5': 0}"),
 "remove_spares_key['spare-1']": ('ok', 'dict', "{'spare-1': 0}"),
 "remove_spares_key['']": ('ok', 'dict', "{'': 0}"),
 "remove_spares_key['a']": ('ok', 'dict', "{'a': 0}"),
 "remove_spares_key['data']": ('ok', 'dict', "{'data': 0}"),
 "remove_spares_key['1']": ('ok', 'dict', "{'1': 0}"),
 "remove_spares_key['blanks0spare']": ('ok', 'dict', "{'blanks0spare': 0}"),
 "remove_spares_key['spare0blanks']": ('ok', 'dict', "{'spare0blanks': 0}"),
 "remove_spares_key['sparespare1']": ('ok', 'dict', "{'sparespare1': 0}"),
 "remove_spares_key['spareblanksspare']": ('ok', 'dict', "{'spareblanksspare': 0}"),
 "remove_spares_key['spareblanksblanks1']": ('ok', 'dict', "{'spareblanksblanks1': 0}"),
 'remove_spares_sharing': (False, False, False, False, False),
 'remove_spares_kwarg': ('ok', 'dict', "{'a': 2}"),
 'remove_spares_signature': '(mapping)',
 'transform_nested[empty_dict]': ('ok', 'dict', '{}'),
 'transform_nested_types[empty_dict]': "['dict', {}]",
 'transform_nested_identity[empty_dict]': False,
 'transform_nested_curried[empty_dict]': ('ok', 'dict', '{}'),
 'transform_nested[empty_list]': ('raise', 'AttributeError', "'list' object has no attribute 'keys'"),
 'transform_nested_curried[empty_list]': ('raise', 'AttributeError', "'list' object has no attribute 'keys'"),
 'transform_nested[scalar]': ('raise', 'AttributeError', "'int' object has no attribute 'keys'"),
 'transform_nested_curried[scalar]': ('raise', 'AttributeError', "'int' object has no attribute 'keys'"),
 'transform_nested[none]': ('raise', 'AttributeError', "'NoneType' object has no attribute 'keys'"),
 'transform_nested_curried[none]': ('raise', 'AttributeError', "'NoneType' object has no attribute 'keys'"),
 'transform_nested[str]': ('raise', 'AttributeError', "'str' object has no attribute 'keys'"),
 'transform_nested_curried[str]': ('raise', 'AttributeError', "'str' object has no attribute 'keys'"),
 'transform_nested[flat]': ('ok', 'dict', "{'a': 1, 'b': 'x', 'c': None}"),
 'transform_nested_types[flat]': "['dict', {'a': 'int', 'b': 'str', 'c': 'NoneType'}]",
 'transform_nested_identity[flat]': False,
 'transform_nested_curried[flat]': ('ok', 'dict', "{'a': 1, 'b': 'x', 'c': None}"),
 'transform_nested[list_of_scalars_value]': ('ok', 'dict', "{'a': [1, 2, 3], 'b': []}"),
 'transform_nested_types[list_of_scalars_value]': "['dict', {'a': ['list', ['int', 'int', 'int']], 'b': "
                                                  "['list', []]}]",
 'transform_nested_identity[list_of_scalars_value]': False,
 'transform_nested_curried[list_of_scalars_value]': ('ok', 'dict', "{'a': [1, 2, 3], 'b': []}"),
 'transform_nested[list_of_records_value]': ('ok', 'dict', "{'a': {'x': [1, 3], 'y': [2, 4]}, 'b': 1}"),
 'transform_nested_types[list_of_records_value]': "['dict', {'a': ['dict', {'x': ['list', ['int', 'int']], "
                                                  "'y': ['list', ['int', 'int']]}], 'b': 'int'}]",
 'transform_nested_identity[list_of_records_value]': False,
 'transform_nested_curried[list_of_records_value]': ('ok',
                                                     'dict',
                                                     "{'a': {'x': [1, 3], 'y': [2, 4]}, 'b': 1}"),
 'transform_nested[ragged_records_value]': ('ok', 'dict', "{'a': {'x': [1, 3], 'y': [2, 4]}}"),
 'transform_nested_types[ragged_records_value]': "['dict', {'a': ['dict', {'x': ['list', ['int', 'int']], "
                                                 "'y': ['list', ['int', 'int']]}]}]",
 'transform_nested_identity[ragged_records_value]': False,
 'transform_nested_curried[ragged_records_value]': ('ok', 'dict', "{'a': {'x': [1, 3], 'y': [2, 4]}}"),
 'transform_nested[single_record_value]': ('ok', 'dict', "{'a': {'x': [1]}}"),
 'transform_nested_types[single_record_value]': "['dict', {'a': ['dict', {'x': ['list', ['int']]}]}]",
 'transform_nested_identity[single_record_value]': False,
 'transform_nested_curried[single_record_value]': ('ok', 'dict', "{'a': {'x': [1]}}"),
 'transform_nested[empty_record_value]': ('ok', 'dict', "{'a': {}, 'b': {}}"),
 'transform_nested_types[empty_record_value]': "['dict', {'a': ['dict', {}], 'b': ['dict', {}]}]",
 'transform_nested_identity[empty_record_value]': False,
 'transform_nested_curried[empty_record_value]': ('ok', 'dict', "{'a': {}, 'b': {}}"),
 'transform_nested[nested_records_not_recursed]': ('ok',
                                                   'dict',
                                                   "{'a': {'x': [[{'p': 1}, {'p': 2}], [{'p': 3}]]}}"),
 'transform_nested_types[nested_records_not_recursed]': "['dict', {'a': ['dict', {'x': ['list', [['list', "
                                                        "[['dict', {'p': 'int'}], ['dict', {'p': 'int'}]]], "
                                                        "['list', [['dict', {'p': 'int'}]]]]]}]}]",
 'transform_nested_identity[nested_records_not_recursed]': False,
 'transform_nested_curried[nested_records_not_recursed]': ('ok',
                                                           'dict',
                                                           "{'a': {'x': [[{'p': 1}, {'p': 2}], [{'p': "
                                                           '3}]]}}'),
 'transform_nested[dict_value_not_recursed]': ('ok', 'dict', "{'a': {'b': [{'x': 1}, {'x': 2}]}}"),
 'transform_nested_types[dict_value_not_recursed]': "['dict', {'a': ['dict', {'b': ['list', [['dict', {'x': "
                                                    "'int'}], ['dict', {'x': 'int'}]]]}]}]",
 'transform_nested_identity[dict_value_not_recursed]': False,
 'transform_nested_curried[dict_value_not_recursed]': ('ok', 'dict', "{'a': {'b': [{'x': 1}, {'x': 2}]}}"),
 'transform_nested[tuple_value]': ('ok', 'dict', "{'a': ({'x': 1}, {'x': 2})}"),
 'transform_nested_types[tuple_value]': "['dict', {'a': ['tuple', [['dict', {'x': 'int'}], ['dict', {'x': "
                                        "'int'}]]]}]",
 'transform_nested_identity[tuple_value]': False,
 'transform_nested_curried[tuple_value]': ('ok', 'dict', "{'a': ({'x': 1}, {'x': 2})}"),
 'transform_nested[first_not_dict]': ('ok', 'dict', "{'a': [1, {'x': 1}]}"),
 'transform_nested_types[first_not_dict]': "['dict', {'a': ['list', ['int', ['dict', {'x': 'int'}]]]}]",
 'transform_nested_identity[first_not_dict]': False,
 'transform_nested_curried[first_not_dict]': ('ok', 'dict', "{'a': [1, {'x': 1}]}"),
 'transform_nested[first_dict_then_scalar]': ('raise',
                                              'AttributeError',
                                              "'int' object has no attribute 'items'"),
 'transform_nested_curried[first_dict_then_scalar]': ('raise',
                                                      'AttributeError',
                                                      "'int' object has no attribute 'items'"),
 'transform_nested[first_dict_then_none]': ('raise',
                                            'AttributeError',
                                            "'NoneType' object has no attribute 'items'"),
 'transform_nested_curried[first_dict_then_none]': ('raise',
                                                    'AttributeError',
                                                    "'NoneType' object has no attribute 'items'"),
 'transform_nested[first_dict_then_list]': ('raise',
                                            'AttributeError',
                                            "'list' object has no attribute 'items'"),
 'transform_nested_curried[first_dict_then_list]': ('raise',
                                                    'AttributeError',
                                                    "'list' object has no attribute 'items'"),
 'transform_nested[top_list_of_records]': ('ok',
                                           'dict',
                                           "{'a': [1, 2], 'b': [[{'x': 1}, {'x': 2}], [{'x': 3}]]}"),
 'transform_nested_types[top_list_of_records]': "['dict', {'a': ['list', ['int', 'int']], 'b': ['list', "
                                                "[['list', [['dict', {'x': 'int'}], ['dict', {'x': "
                                                "'int'}]]], ['list', [['dict', {'x': 'int'}]]]]]}]",
 'transform_nested_identity[top_list_of_records]': False,
 'transform_nested_curried[top_list_of_records]': ('ok',
                                                   'dict',
                                                   "{'a': [1, 2], 'b': [[{'x': 1}, {'x': 2}], [{'x': 3}]]}"),
 'transform_nested[top_list_of_records_ragged]': ('ok', 'dict', "{'a': [1, 3], 'b': [[{'x': 1}]]}"),
 'transform_nested_types[top_list_of_records_ragged]': "['dict', {'a': ['list', ['int', 'int']], 'b': "
                                                       "['list', [['list', [['dict', {'x': 'int'}]]]]]}]",
 'transform_nested_identity[top_list_of_records_ragged]': False,
 'transform_nested_curried[top_list_of_records_ragged]': ('ok', 'dict', "{'a': [1, 3], 'b': [[{'x': 1}]]}"),
 'transform_nested[top_list_of_scalars]': ('raise',
                                           'AttributeError',
                                           "'list' object has no attribute 'keys'"),
 'transform_nested_curried[top_list_of_scalars]': ('raise',
                                                   'AttributeError',
                                                   "'list' object has no attribute 'keys'"),
 'transform_nested[top_list_first_dict_then_scalar]': ('raise',
                                                       'AttributeError',
                                                       "'int' object has no attribute 'items'"),
 'transform_nested_curried[top_list_first_dict_then_scalar]': ('raise',
                                                               'AttributeError',
                                                               "'int' object has no attribute 'items'"),
 'transform_nested[top_list_of_record_lists]': ('ok', 'dict', "{'a': {'x': [1, 2]}}"),
 'transform_nested_types[top_list_of_record_lists]': "['dict', {'a': ['dict', {'x': ['list', ['int', "
                                                     "'int']]}]}]",
 'transform_nested_identity[top_list_of_record_lists]': False,
 'transform_nested_curried[top_list_of_record_lists]': ('ok', 'dict', "{'a': {'x': [1, 2]}}"),
 'transform_nested[top_list_single]': ('ok', 'dict', "{'a': [[{'x': 1}, {'x': 2}]]}"),
 'transform_nested_types[top_list_single]': "['dict', {'a': ['list', [['list', [['dict', {'x': 'int'}], "
                                            "['dict', {'x': 'int'}]]]]]}]",
 'transform_nested_identity[top_list_single]': False,
 'transform_nested_curried[top_list_single]': ('ok', 'dict', "{'a': [[{'x': 1}, {'x': 2}]]}"),
 'transform_nested[top_tuple]': ('raise', 'AttributeError', "'tuple' object has no attribute 'keys'"),
 'transform_nested_curried[top_tuple]': ('raise', 'AttributeError', "'tuple' object has no attribute 'keys'"),
 'transform_nested[order]': ('ok',
                             'dict',
                             "{'z': {'b': [1], 'a': [2, 3], 'c': [4]}, 'y': 0, 'x': {'k': [1]}}"),
 'transform_nested_types[order]': "['dict', {'z': ['dict', {'b': ['list', ['int']], 'a': ['list', ['int', "
                                  "'int']], 'c': ['list', ['int']]}], 'y': 'int', 'x': ['dict', {'k': "
                                  "['list', ['int']]}]}]",
 'transform_nested_identity[order]': False,
 'transform_nested_curried[order]': ('ok',
                                     'dict',
                                     "{'z': {'b': [1], 'a': [2, 3], 'c': [4]}, 'y': 0, 'x': {'k': [1]}}"),
 'transform_nested[ordered]': ('ok', 'dict', "{'a': {'x': [1, 2]}}"),
 'transform_nested_types[ordered]': "['dict', {'a': ['dict', {'x': ['list', ['int', 'int']]}]}]",
 'transform_nested_identity[ordered]': False,
 'transform_nested_curried[ordered]': ('ok', 'dict', "{'a': {'x': [1, 2]}}"),
 'transform_nested[dict_subclass]': ('ok', 'dict', "{'a': {'x': [1, 2]}}"),
 'transform_nested_types[dict_subclass]': "['dict', {'a': ['dict', {'x': ['list', ['int', 'int']]}]}]",
 'transform_nested_identity[dict_subclass]': False,
 'transform_nested_curried[dict_subclass]': ('ok', 'dict', "{'a': {'x': [1, 2]}}"),
 'transform_nested[top_list_subclass]': ('ok', 'dict', "{'a': [1, 2]}"),
 'transform_nested_types[top_list_subclass]': "['dict', {'a': ['list', ['int', 'int']]}]",
 'transform_nested_identity[top_list_subclass]': False,
 'transform_nested_curried[top_list_subclass]': ('ok', 'dict', "{'a': [1, 2]}"),
 'transform_nested[type_error_in_iteration_top]': ('raise', 'TypeError', 'iteration not supported'),
 'transform_nested_curried[type_error_in_iteration_top]': ('raise', 'TypeError', 'iteration not supported'),
 'transform_nested[type_error_in_iteration_value]': ('raise', 'TypeError', 'iteration not supported'),
 'transform_nested_curried[type_error_in_iteration_value]': ('raise', 'TypeError', 'iteration not supported'),
 'transform_nested[numpy_value]': ('ok', 'dict', "{'a': array([0, 1, 2])}"),
 'transform_nested_types[numpy_value]': "['dict', {'a': 'ndarray'}]",
 'transform_nested_identity[numpy_value]': False,
 'transform_nested_curried[numpy_value]': ('ok', 'dict', "{'a': array([0, 1, 2])}"),
 'transform_nested[numpy_top]': ('raise', 'AttributeError', "'numpy.ndarray' object has no attribute 'keys'"),
 'transform_nested_curried[numpy_top]': ('raise',
                                         'AttributeError',
                                         "'numpy.ndarray' object has no attribute 'keys'"),
 'transform_nested[non_str_keys]': ('ok', 'dict', '{1: {2: [3, 4]}}'),
 'transform_nested_types[non_str_keys]': "['dict', {1: ['dict', {2: ['list', ['int', 'int']]}]}]",
 'transform_nested_identity[non_str_keys]': False,
 'transform_nested_curried[non_str_keys]': ('ok', 'dict', '{1: {2: [3, 4]}}'),
 'transform_nested_sharing': (False, True, True),
 'transform_nested_input_unchanged': "{'a': [1, 2], 'b': [{'x': [1]}, {'x': [2]}]}",
 'transform_nested_kwarg': ('ok', 'dict', "{'a': {'x': [1]}}"),
 'transform_nested_signature': '(mapping)',
 'item_type[scalar]': ('ok', 'str', "'attribute'"),
 'item_type[none]': ('ok', 'str', "'attribute'"),
 'item_type[str]': ('ok', 'str', "'attribute'"),
 'item_type[bytes]': ('ok', 'str', "'attribute'"),
 'item_type[list]': ('ok', 'str', "'variable'"),
 'item_type[empty_list]': ('ok', 'str', "'variable'"),
 'item_type[list_of_dicts]': ('ok', 'str', "'variable'"),
 'item_type[list_subclass]': ('ok', 'str', "'variable'"),
 'item_type[dict]': ('ok', 'str', "'group'"),
 'item_type[empty_dict]': ('ok', 'str', "'group'"),
 'item_type[dict_subclass]': ('ok', 'str', "'group'"),
 'item_type[ordereddict]': ('ok', 'str', "'group'"),
 'item_type[tuple2_variable]': ('ok', 'str', "'variable'"),
 'item_type[tuple3_variable]': ('ok', 'str', "'variable'"),
 'item_type[tuple_group]': ('ok', 'str', "'group'"),
 'item_type[tuple_group_single]': ('ok', 'str', "'group'"),
 'item_type[tuple_group_subclass]': ('ok', 'str', "'group'"),
 'item_type[tuple_scalar_first]': ('ok', 'str', "'variable'"),
 'item_type[tuple_none_first]': ('ok', 'str', "'variable'"),
 'item_type[empty_tuple]': ('raise', 'IndexError', 'tuple index out of range'),
 'item_type[namedtuple_variable]': ('ok', 'str', "'variable'"),
 'item_type[namedtuple_group]': ('ok', 'str', "'group'"),
 'item_type[numpy]': ('ok', 'str', "'attribute'"),
 'item_type[set]': ('ok', 'str', "'attribute'"),
 'item_type[item_as_list]': ('ok', 'str', "'variable'"),
 'item_type[item_len3]': ('ok', 'str', "'group'"),
 'item_type[item_len1]': ('raise', 'StopIteration', ''),
 'item_type[item_empty]': ('raise', 'StopIteration', ''),
 'item_type[item_str]': ('ok', 'str', "'attribute'"),
 'item_type[item_dict]': ('ok', 'str', "'attribute'"),
 'item_type[item_generator]': ('ok', 'str', "'variable'"),
 'item_type[item_none]': ('raise', 'TypeError', "'NoneType' object is not iterable"),
 'item_type[item_int]': ('raise', 'TypeError', "'int' object is not iterable"),
 'item_type_signature': '(item)',
 'as_group[empty]': ('ok', 'Group', "Group(path='/', url=None, data={}, attrs={})"),
 'as_group_layout[empty]': "[('/', [], [])]",
 'as_group[attrs_only]': ('ok', 'Group', "Group(path='/', url=None, data={}, attrs={'a': 1, 'b': 'x'})"),
 'as_group_layout[attrs_only]': "[('/', [], ['a', 'b'])]",
 'as_group[mixed]': ('ok',
                     'Group',
                     "Group(path='/', url=None, data={'v1': Variable(dims=(), data=[1, 2], attrs={'units': "
                     "'m'}), 'v2': Variable(dims=['x'], data=[1, 2], attrs={}), 'v3': Variable(dims=1, "
                     "data=2, attrs=3), 'g1': Group(path='/g1', url=None, data={'v': Variable(dims=['y'], "
                     "data=[3], attrs={'u': 1}), 'gg': Group(path='/g1/gg', url=None, data={}, attrs={'c': "
                     "None})}, attrs={'b': 2}), 'g2': Group(path='/g2', url=None, data={}, attrs={'d': "
                     "'shadow', 'extra': 'attr'})}, attrs={'a': 1, 'z': None})"),
 'as_group_layout[mixed]': "[('/', ['v1', 'v2', 'v3'], ['a', 'z']), ('/g1', ['v'], ['b']), ('/g1/gg', [], "
                           "['c']), ('/g2', [], ['d', 'extra'])]",
 'as_group[with_additional_attrs]': ('ok',
                                     'Group',
                                     "Group(path='/', url=None, data={'g': Group(path='/g', url=None, "
                                     "data={}, attrs={'a': 3, 'b': 4})}, attrs={'a': 'override', 'c': 5})"),
 'as_group_layout[with_additional_attrs]': "[('/', [], ['a', 'c']), ('/g', [], ['a', 'b'])]",
 'as_group[variable_list_len3]': ('ok',
                                  'Group',
                                  "Group(path='/', url=None, data={'v': Variable(dims=['x'], data=[1], "
                                  'attrs={})}, attrs={})'),
 'as_group_layout[variable_list_len3]': "[('/', ['v'], [])]",
 'as_group[variable_list_len2]': ('ok',
                                  'Group',
                                  "Group(path='/', url=None, data={'v': Variable(dims=(), data=[1], "
                                  'attrs={})}, attrs={})'),
 'as_group_layout[variable_list_len2]': "[('/', ['v'], [])]",
 'as_group[variable_bad_len1]': ('raise', 'ValueError', 'not enough values to unpack (expected 3, got 1)'),
 'as_group[variable_bad_len4]': ('raise', 'ValueError', 'too many values to unpack (expected 3)'),
 'as_group[variable_bad_len0_list]': ('raise',
                                      'ValueError',
                                      'not enough values to unpack (expected 3, got 0)'),
 'as_group[empty_tuple_value]': ('raise', 'IndexError', 'tuple index out of range'),
 'as_group[tuple_len3_top]': ('raise', 'ValueError', 'too many values to unpack (expected 2)'),
 'as_group[tuple_len1_top]': ('raise', 'ValueError', 'not enough values to unpack (expected 2, got 1)'),
 'as_group[not_mapping]': ('raise', 'AttributeError', "'list' object has no attribute 'items'"),
 'as_group[none]': ('raise', 'AttributeError', "'NoneType' object has no attribute 'items'"),
 'as_group[additional_attrs_none]': ('raise',
                                     'TypeError',
                                     "unsupported operand type(s) for |: 'dict' and 'NoneType'"),
 'as_group[order]': ('ok',
                     'Group',
                     "Group(path='/', url=None, data={'v': Variable(dims=(), data=[1], attrs={}), 'w': "
                     "Variable(dims=(), data=[2], attrs={}), 'g': Group(path='/g', url=None, data={}, "
                     "attrs={}), 'f': Group(path='/f', url=None, data={'x': Variable(dims=(), data=[0], "
                     "attrs={})}, attrs={})}, attrs={'z': 1, 'a': 2})"),
 'as_group_layout[order]': "[('/', ['v', 'w'], ['z', 'a']), ('/g', [], []), ('/f', ['x'], [])]",
 'separate_attrs[empty]': ('ok', 'tuple', '([], {})'),
 'separate_attrs[scalar]': ('ok', 'tuple', '(1, {})'),
 'separate_attrs[none]': ('ok', 'tuple', '(None, {})'),
 'separate_attrs[list_of_scalars]': ('ok', 'tuple', '([1, 2], {})'),
 'separate_attrs[list_of_pairs]': ('ok', 'tuple', "([1, 2], {'u': 'm'})"),
 'separate_attrs[single_pair]': ('ok', 'tuple', "([1], {'u': 'm'})"),
 'separate_attrs[tuple_of_pairs]': ('ok', 'tuple', '(((1, {}), (2, {})), {})'),
 'separate_attrs[first_tuple_then_scalar]': ('raise', 'TypeError', "'int' object is not iterable"),
 'separate_attrs[triples]': ('raise', 'ValueError', 'too many values to unpack (expected 2)'),
 'separate_attrs[ragged]': ('raise', 'ValueError', 'not enough values to unpack (expected 2, got 1)'),
 'separate_attrs[empty_tuples]': ('raise', 'ValueError', 'not enough values to unpack (expected 2, got 0)'),
 'separate_attrs[singles]': ('raise', 'ValueError', 'not enough values to unpack (expected 2, got 1)'),
 "normalize_datetime['20200102030405000000']": ('ok', 'str', "'2020-01-02T03:04:05'"),
 "normalize_datetime['20200102030405123456']": ('ok', 'str', "'2020-01-02T03:04:05.123456'"),
 "normalize_datetime['202001020304051']": ('ok', 'str', "'2020-01-02T03:04:05.100000'"),
 "normalize_datetime['20200102030405']": ('ok', 'str', "'2020-01-02T03:04:00.500000'"),
 "normalize_datetime['2020010203']": ('raise',
                                      'ValueError',
                                      "time data '2020010203' does not match format '%Y%m%d%H%M%S%f'"),
 "normalize_datetime['']": ('raise', 'ValueError', "time data '' does not match format '%Y%m%d%H%M%S%f'"),
 "normalize_datetime['abc']": ('raise',
                               'ValueError',
                               "time data 'abc' does not match format '%Y%m%d%H%M%S%f'"),
 "normalize_datetime['20201302030405000000']": ('raise', 'ValueError', 'unconverted data remains: 0'),
 'normalize_datetime[None]': ('raise', 'TypeError', 'strptime() argument 1 must be str, not None'),
 'normalize_datetime[20200102030405]': ('raise', 'TypeError', 'strptime() argument 1 must be str, not int'),
 'as_variable': [('ok', 'Variable', 'Variable(dims=(), data=[1], attrs={})'),
                 ('ok', 'Variable', "Variable(dims=['x'], data=[1], attrs={})"),
                 ('ok', 'Variable', "Variable(dims=['x', 'y'], data=[[1]], attrs={'a': 1})"),
                 ('raise', 'ValueError', 'not enough values to unpack (expected 3, got 1)'),
                 ('raise', 'ValueError', 'too many values to unpack (expected 3)'),
                 ('ok', 'Variable', "Variable(dims=(), data='a', attrs='b')"),
                 ('raise', 'TypeError', "object of type 'int' has no len()")],
 'public': ['normalize_datetime',
            'remove_spares',
            'item_type',
            'transform_nested',
            'separate_attrs',
            'as_variable',
            'as_group',
            'Group',
            'Variable']}

if __name__ == "__main__":
    sys.exit(main())
